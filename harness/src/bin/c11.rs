//! C11: "Compiled GSUB/GPOS behave as the feature file says".
//!
//! Correspondence harness.  It contains a line-by-line Rust twin of the executable Coq model
//! (coq/theories/C11/{Common,Range,OT,Source,Interp,Wf}.v), a generator of feature files of the
//! modelled subset, a hand-written decoder of the GSUB/GPOS/GDEF tables fea-rs compiles, and the
//! property predicate `apply_ot(real) == interp_fea(elab(true, prog))` evaluated on the real tables.
//!
//! CLI:
//!   c11 --seed S --n N                  N generated feature files + N/3 glyph-range cases, JSON lines on stdout
//!   c11 --seed S --n N --show-case K    regenerate the run and print case K (fea, decoded tables, twin, Coq term)
//!   c11 --fea FILE [--glyphs a,b,c] [--string a,b,c] [--alt K]
//!                                       compile one file, print the decoded abstract tables (and shape a string)
//!
//! Violation keys: `glyph-range-numeric-excludes-end`, `glyph-range-wrong-expansion`,
//! `conflicting-rules-later-wins:<kind>`, `behaviour-mismatch:<kinds>`, `compile-panic:<file>:<line>`,
//! `decode-unsupported`, `decode-malformed`.  For a failing predicate the key is decided on a minimised copy
//! of the generated file (statements deleted while fea-rs accepts the file and the predicate still fails).
#![allow(dead_code, non_upper_case_globals, non_snake_case, clippy::all)]
use serde_json::json;
use std::collections::{BTreeMap, BTreeSet};
use std::sync::{Arc, Mutex};
use vh::*;

// =================================================================================================
// Common.v
// =================================================================================================
type Glyph = u32;
type Tag = u32; // four bytes, big endian
type Str = Vec<u32>; // glyph name: bytes

const DFLT: Tag = 1145457748; // 'DFLT'
const dflt: Tag = 1684434036; // 'dflt'

fn mem(g: u32, l: &[u32]) -> bool {
    for &x in l {
        if g == x {
            return true;
        }
    }
    false
}

fn index_of(g: u32, l: &[u32]) -> Option<usize> {
    for (i, &x) in l.iter().enumerate() {
        if g == x {
            return Some(i);
        }
    }
    None
}

fn subset(a: &[u32], b: &[u32]) -> bool {
    a.iter().all(|&g| mem(g, b))
}
fn set_eqb(a: &[u32], b: &[u32]) -> bool {
    subset(a, b) && subset(b, a)
}
fn disjoint(a: &[u32], b: &[u32]) -> bool {
    a.iter().all(|&g| !mem(g, b))
}

fn nat_mem(n: usize, l: &[usize]) -> bool {
    l.iter().any(|&x| x == n)
}

/// association lists (first binding wins on lookup)
fn assoc<'a, V>(k: u32, m: &'a [(u32, V)]) -> Option<&'a V> {
    for (k2, v) in m {
        if k == *k2 {
            return Some(v);
        }
    }
    None
}

/// BTreeMap::insert: overwrite an existing binding, else add one
fn upd<V: Clone>(k: u32, v: V, m: &[(u32, V)]) -> Vec<(u32, V)> {
    let mut out: Vec<(u32, V)> = Vec::with_capacity(m.len() + 1);
    let mut done = false;
    for (k2, v2) in m {
        if !done && k == *k2 {
            out.push((k, v.clone()));
            done = true;
        } else {
            out.push((*k2, v2.clone()));
        }
    }
    if !done {
        out.push((k, v));
    }
    out
}

/// entry().or_insert(): keep an existing binding
fn upd_new<V: Clone>(k: u32, v: V, m: &[(u32, V)]) -> Vec<(u32, V)> {
    match assoc(k, m) {
        Some(_) => m.to_vec(),
        None => {
            let mut o = m.to_vec();
            o.push((k, v));
            o
        }
    }
}

#[derive(Clone, Copy, PartialEq, Eq, Debug, Default)]
struct Value {
    xp: i64,
    yp: i64,
    xa: i64,
    ya: i64,
}
const vzero: Value = Value { xp: 0, yp: 0, xa: 0, ya: 0 };
fn mkV(xp: i64, yp: i64, xa: i64, ya: i64) -> Value {
    Value { xp, yp, xa, ya }
}
fn vadd(a: Value, b: Value) -> Value {
    mkV(a.xp + b.xp, a.yp + b.yp, a.xa + b.xa, a.ya + b.ya)
}
fn veqb(a: Value, b: Value) -> bool {
    a.xp == b.xp && a.yp == b.yp && a.xa == b.xa && a.ya == b.ya
}

/// f_filter: UseMarkFilteringSet, with the set resolved to its glyphs
#[derive(Clone, Debug, PartialEq)]
struct LFlag {
    rtl: bool,
    ibase: bool,
    ilig: bool,
    imark: bool,
    filter: Option<Vec<Glyph>>,
    mattach: Option<Vec<Glyph>>, // MarkAttachmentType, class resolved to its glyphs
}
fn mkF(rtl: bool, ibase: bool, ilig: bool, imark: bool, filter: Option<Vec<Glyph>>, mattach: Option<Vec<Glyph>>) -> LFlag {
    LFlag { rtl, ibase, ilig, imark, filter, mattach }
}
fn flag0() -> LFlag {
    mkF(false, false, false, false, None, None)
}
fn oset_eqb(a: &Option<Vec<Glyph>>, b: &Option<Vec<Glyph>>) -> bool {
    match (a, b) {
        (None, None) => true,
        (Some(x), Some(y)) => set_eqb(x, y),
        _ => false,
    }
}

fn flag_eqb(a: &LFlag, b: &LFlag) -> bool {
    a.rtl == b.rtl
        && a.ibase == b.ibase
        && a.ilig == b.ilig
        && a.imark == b.imark
        && oset_eqb(&a.filter, &b.filter)
        && oset_eqb(&a.mattach, &b.mattach)
}

/// GDEF glyph class definition: 1 base, 2 ligature, 3 mark, 4 component; absent = 0
type Gdef = Vec<(Glyph, u32)>;
fn gclass(gd: &Gdef, g: Glyph) -> u32 {
    match assoc(g, gd) {
        Some(c) => *c,
        None => 0,
    }
}

/// the glyph is passed over by a lookup with this flag
fn skip(gd: &Gdef, fl: &LFlag, g: Glyph) -> bool {
    match gclass(gd, g) {
        1 => fl.ibase,
        2 => fl.ilig,
        3 => {
            fl.imark
                || match &fl.filter {
                    Some(s) => !mem(g, s),
                    None => false,
                }
                || match &fl.mattach {
                    Some(s) => !mem(g, s),
                    None => false,
                }
        }
        _ => false,
    }
}

/// script, language, enabled feature tags, 0-based alternate index
#[derive(Clone, Debug, PartialEq)]
struct Selection {
    script: Tag,
    lang: Tag,
    feats: Vec<Tag>,
    alt: usize,
}

fn ins_sorted(n: usize, l: &[usize]) -> Vec<usize> {
    match l.split_first() {
        None => vec![n],
        Some((&x, t)) => {
            if n < x {
                let mut o = vec![n];
                o.extend_from_slice(l);
                o
            } else if n == x {
                l.to_vec()
            } else {
                let mut o = vec![x];
                o.extend(ins_sorted(n, t));
                o
            }
        }
    }
}
/// fold_right ins_sorted [] l
fn sort_uniq(l: &[usize]) -> Vec<usize> {
    let mut acc: Vec<usize> = vec![];
    for &n in l.iter().rev() {
        acc = ins_sorted(n, &acc);
    }
    acc
}

type PItem = (Glyph, Value);
fn pitems_eqb(a: &[PItem], b: &[PItem]) -> bool {
    a.len() == b.len() && a.iter().zip(b.iter()).all(|(x, y)| x.0 == y.0 && veqb(x.1, y.1))
}
fn glyphs_eqb(a: &[Glyph], b: &[Glyph]) -> bool {
    a.len() == b.len() && a.iter().zip(b.iter()).all(|(x, y)| x == y)
}

// list helpers with Coq's totalised behaviour
fn firstn<T: Clone>(n: usize, l: &[T]) -> Vec<T> {
    l[..n.min(l.len())].to_vec()
}
fn skipn<T: Clone>(n: usize, l: &[T]) -> Vec<T> {
    l[n.min(l.len())..].to_vec()
}
fn rev<T: Clone>(l: &[T]) -> Vec<T> {
    l.iter().rev().cloned().collect()
}
fn z_to_nat(z: i64) -> usize {
    if z < 0 { 0 } else { z as usize }
}

// =================================================================================================
// Range.v
// =================================================================================================
fn is_digit(c: u32) -> bool {
    48 <= c && c <= 57
}
fn is_upper(c: u32) -> bool {
    65 <= c && c <= 90
}
fn is_lower(c: u32) -> bool {
    97 <= c && c <= 122
}
fn is_alpha(c: u32) -> bool {
    is_upper(c) || is_lower(c)
}

fn str_eqb(a: &[u32], b: &[u32]) -> bool {
    a == b
}

fn common_prefix(a: &[u32], b: &[u32]) -> usize {
    match (a.split_first(), b.split_first()) {
        (Some((x, a2)), Some((y, b2))) => {
            if x == y {
                1 + common_prefix(a2, b2)
            } else {
                0
            }
        }
        _ => 0,
    }
}

fn leading_digits(a: &[u32]) -> usize {
    match a.split_first() {
        Some((&c, t)) => {
            if is_digit(c) {
                1 + leading_digits(t)
            } else {
                0
            }
        }
        None => 0,
    }
}

/// get_diff_range: [front, back) of the differing part, widened over adjacent digits
fn diff_range(a: &[u32], b: &[u32]) -> (usize, usize) {
    let front = common_prefix(a, b);
    let back = a.len().saturating_sub(common_prefix(&rev(a), &rev(b)));
    if back < front {
        (0, 0)
    } else {
        (front.saturating_sub(leading_digits(&rev(&firstn(front, a)))), back + leading_digits(&skipn(back, a)))
    }
}

fn parse_digits(acc: u64, s: &[u32]) -> Option<u64> {
    match s.split_first() {
        None => Some(acc),
        Some((&c, t)) => {
            if is_digit(c) {
                parse_digits(acc.saturating_mul(10).saturating_add((c - 48) as u64), t)
            } else {
                None
            }
        }
    }
}
fn parse_u16(s: &[u32]) -> Option<u64> {
    if s.is_empty() {
        return None;
    }
    match parse_digits(0, s) {
        Some(n) => {
            if n <= 65535 {
                Some(n)
            } else {
                None
            }
        }
        None => None,
    }
}

fn digits_rev(fuel: usize, n: u64) -> Vec<u32> {
    if fuel == 0 {
        return vec![];
    }
    if n < 10 {
        vec![48 + n as u32]
    } else {
        let mut o = vec![48 + (n % 10) as u32];
        o.extend(digits_rev(fuel - 1, n / 10));
        o
    }
}
/// format!("{val:0width$}")
fn fmt_padded(width: usize, n: u64) -> Str {
    let d = rev(&digits_rev(6, n));
    let mut o = vec![48u32; width.saturating_sub(d.len())];
    o.extend(d);
    o
}

fn splice(s: &[u32], from: usize, to_: usize, mid: &[u32]) -> Str {
    let mut o = firstn(from, s);
    o.extend_from_slice(mid);
    o.extend(skipn(to_, s));
    o
}

/// values lo, lo+1, ..., lo+n-1
fn N_seq(lo: u64, n: usize) -> Vec<u64> {
    (0..n as u64).map(|k| lo + k).collect()
}

fn nth_str(n: usize, l: &[u32], d: u32) -> u32 {
    *l.get(n).unwrap_or(&d)
}

/// `named`: None = the error return.  NOTE the numeric branch iterates `one..two`, a half-open range.
fn range_named(a: &[u32], b: &[u32]) -> Option<Vec<Str>> {
    if a.len() != b.len() {
        return None;
    }
    let (ds, de) = diff_range(a, b);
    let w = de.saturating_sub(ds);
    let alpha: Option<Option<Vec<Str>>> = if w == 1 {
        let one = nth_str(ds, a, 0);
        let two = nth_str(ds, b, 0);
        if two <= one {
            Some(None)
        } else if is_alpha(one) && is_alpha(two) && ((90 < one) == (90 < two)) {
            Some(Some(N_seq(one as u64, (two - one) as usize + 1).iter().map(|&c| splice(a, ds, de, &[c as u32])).collect()))
        } else {
            None
        }
    } else {
        None
    };
    match alpha {
        Some(r) => r,
        None => match (parse_u16(&firstn(w, &skipn(ds, a))), parse_u16(&firstn(w, &skipn(ds, b)))) {
            (Some(one), Some(two)) => {
                if one < two {
                    Some(N_seq(one, (two - one) as usize).iter().map(|&v| splice(a, ds, de, &fmt_padded(w, v))).collect())
                } else {
                    None
                }
            }
            _ => None,
        },
    }
}

/// the specification's range: both ends included
fn range_named_spec(a: &[u32], b: &[u32]) -> Option<Vec<Str>> {
    match range_named(a, b) {
        None => None,
        Some(mut l) => {
            if l.iter().any(|x| str_eqb(b, x)) {
                Some(l)
            } else {
                l.push(b.to_vec());
                Some(l)
            }
        }
    }
}

fn name_index(n: &[u32], gm: &[Str]) -> Option<u32> {
    for (i, x) in gm.iter().enumerate() {
        if str_eqb(n, x) {
            return Some(i as u32);
        }
    }
    None
}

fn lookup_all(gm: &[Str], names: &[Str]) -> Option<Vec<Glyph>> {
    let mut out = vec![];
    for n in names {
        out.push(name_index(n, gm)?);
    }
    Some(out)
}

// =================================================================================================
// OT.v
// =================================================================================================
/// cr_back is in OpenType order: closest glyph first.  cr_recs: (sequence index, lookup index).
#[derive(Clone, Debug, PartialEq)]
struct ChainRule {
    back: Vec<Vec<Glyph>>,
    input: Vec<Vec<Glyph>>,
    look: Vec<Vec<Glyph>>,
    recs: Vec<(usize, usize)>,
}

#[derive(Clone, Debug, PartialEq)]
enum Subtable {
    STSingle(Vec<(Glyph, Glyph)>),
    STMultiple(Vec<(Glyph, Vec<Glyph>)>),
    STAlternate(Vec<(Glyph, Vec<Glyph>)>),
    STLigature(Vec<(Glyph, Vec<(Vec<Glyph>, Glyph)>)>),
    STChain(Vec<ChainRule>),
    STSinglePos(Vec<(Glyph, Value)>),
    STPairGlyph(bool, Vec<(Glyph, Vec<(Glyph, (Value, Value))>)>),
    STPairClass(bool, Vec<(Vec<Glyph>, Vec<(Vec<Glyph>, (Value, Value))>)>),
    STPairClassRaw(bool, Vec<Glyph>, Vec<(Glyph, u32)>, Vec<(Glyph, u32)>, Vec<Vec<(Value, Value)>>),
}
use Subtable::*;

#[derive(Clone, Debug, PartialEq)]
struct Lookup {
    flag: LFlag,
    subs: Vec<Subtable>,
}

#[derive(Clone, Debug, PartialEq, Default)]
struct OtTable {
    lookups: Vec<Lookup>,
    features: Vec<(Tag, Vec<usize>)>,
    langsys: Vec<((Tag, Tag), Vec<usize>)>,
}
#[derive(Clone, Debug, PartialEq, Default)]
struct OtFont {
    gsub: OtTable,
    gpos: OtTable,
    gdef: Gdef,
}

/// Section Apply variables
#[derive(Clone, Copy)]
struct Ap<'a> {
    gd: &'a Gdef,
    alt: usize,
}

type Edit = Option<(Vec<Glyph>, Vec<Glyph>)>;

/// Match glyph sets against a glyph list, passing over skippable glyphs.
fn match_seq(gd: &Gdef, fl: &LFlag, pats: &[Vec<Glyph>], l: &[Glyph]) -> Option<(Vec<(Glyph, bool)>, Vec<Glyph>)> {
    match pats.split_first() {
        None => Some((vec![], l.to_vec())),
        Some((p, ps)) => match l.split_first() {
            None => None,
            Some((&g, tl)) => {
                if skip(gd, fl, g) {
                    match match_seq(gd, fl, pats, tl) {
                        Some((mut c, r)) => {
                            c.insert(0, (g, false));
                            Some((c, r))
                        }
                        None => None,
                    }
                } else if mem(g, p) {
                    match match_seq(gd, fl, ps, tl) {
                        Some((mut c, r)) => {
                            c.insert(0, (g, true));
                            Some((c, r))
                        }
                        None => None,
                    }
                } else {
                    None
                }
            }
        },
    }
}

fn match_ctx(gd: &Gdef, fl: &LFlag, pats: &[Vec<Glyph>], l: &[Glyph]) -> bool {
    match_seq(gd, fl, pats, l).is_some()
}

fn skipped_of(c: &[(Glyph, bool)]) -> Vec<Glyph> {
    c.iter().filter(|x| !x.1).map(|x| x.0).collect()
}

/// positions (offset by `from`) of the matched glyphs in a consumed list
fn matched_pos(from: usize, c: &[(Glyph, bool)]) -> Vec<usize> {
    match c.split_first() {
        None => vec![],
        Some(((_, true), t)) => {
            let mut o = vec![from];
            o.extend(matched_pos(from + 1, t));
            o
        }
        Some(((_, false), t)) => matched_pos(from + 1, t),
    }
}

// ---- nested lookups of a matched context (HarfBuzz apply_lookup) --------------------------------
type RecFn<'a, A> = &'a dyn Fn(&A, &[Glyph], &[Glyph]) -> Edit;

fn rec_step<A>(rec: RecFn<A>, before: &[Glyph], st: (Vec<Glyph>, Vec<usize>, usize), r: &(usize, A)) -> (Vec<Glyph>, Vec<usize>, usize) {
    let (B, mp, e) = st;
    let (si, a) = (r.0, &r.1);
    match mp.get(si).copied() {
        None => (B, mp, e),
        Some(p) => {
            if B.len() <= p {
                return (B, mp, e);
            }
            let mut bef = rev(&firstn(p, &B));
            bef.extend_from_slice(before);
            match rec(a, &bef, &skipn(p, &B)) {
                None => (B, mp, e),
                Some((out, rest2)) => {
                    let mut B2 = firstn(p, &B);
                    B2.extend(out);
                    B2.extend(rest2);
                    let delta: i64 = B2.len() as i64 - B.len() as i64;
                    if delta == 0 {
                        return (B2, mp, e);
                    }
                    let e1: i64 = e as i64 + delta;
                    let (delta, e2) = if e1 < p as i64 { (delta + (p as i64 - e1), p as i64) } else { (delta, e1) };
                    let next = si + 1;
                    if 0 < delta {
                        let d = z_to_nat(delta);
                        let mut mp2 = firstn(next, &mp);
                        mp2.extend((1..=d).map(|k| p + k));
                        mp2.extend(skipn(next, &mp).iter().map(|q| q + d));
                        (B2, mp2, z_to_nat(e2))
                    } else {
                        let dd = delta.max(next as i64 - mp.len() as i64);
                        let nd = z_to_nat(-dd);
                        let mut mp2 = firstn(next, &mp);
                        mp2.extend(skipn(next + nd, &mp).iter().map(|q| q.saturating_sub(nd)));
                        (B2, mp2, z_to_nat(e2))
                    }
                }
            }
        }
    }
}

/// returns the glyphs up to the end of the (edited) match and the rest
fn apply_records<A>(rec: RecFn<A>, before: &[Glyph], recs: &[(usize, A)], W: &[Glyph], rest: &[Glyph], mp: &[usize]) -> (Vec<Glyph>, Vec<Glyph>) {
    let mut B0 = W.to_vec();
    B0.extend_from_slice(rest);
    let mut st = (B0, mp.to_vec(), W.len());
    for r in recs {
        st = rec_step(rec, before, st, r);
    }
    let (B, _, e) = st;
    (firstn(e, &B), skipn(e, &B))
}

// ---- GSUB subtables at one position -------------------------------------------------------------
fn try_liga(gd: &Gdef, fl: &LFlag, ligs: &[(Vec<Glyph>, Glyph)], after: &[Glyph]) -> Edit {
    for (comps, lig) in ligs {
        let pats: Vec<Vec<Glyph>> = comps.iter().map(|&c| vec![c]).collect();
        match match_seq(gd, fl, &pats, after) {
            Some((c, rest)) => {
                let mut r = skipped_of(&c);
                r.extend(rest);
                return Some((vec![*lig], r));
            }
            None => {}
        }
    }
    None
}

type RecN<'a> = &'a dyn Fn(usize, &[Glyph], &[Glyph]) -> Edit;

fn try_chain_rule(ap: Ap, rec: RecN, fl: &LFlag, r: &ChainRule, before: &[Glyph], cur: Glyph, after: &[Glyph]) -> Edit {
    match r.input.split_first() {
        None => None,
        Some((p0, ps)) => {
            if mem(cur, p0) {
                match match_seq(ap.gd, fl, ps, after) {
                    None => None,
                    Some((c, rest)) => {
                        if match_ctx(ap.gd, fl, &r.back, before) && match_ctx(ap.gd, fl, &r.look, &rest) {
                            let mut W = vec![cur];
                            W.extend(c.iter().map(|x| x.0));
                            let mut mp = vec![0usize];
                            mp.extend(matched_pos(1, &c));
                            let recf = |a: &usize, b: &[Glyph], at_: &[Glyph]| rec(*a, b, at_);
                            Some(apply_records::<usize>(&recf, before, &r.recs, &W, &rest, &mp))
                        } else {
                            None
                        }
                    }
                }
            } else {
                None
            }
        }
    }
}

fn try_gsub_sub(ap: Ap, rec: RecN, fl: &LFlag, st: &Subtable, before: &[Glyph], cur: Glyph, after: &[Glyph]) -> Edit {
    match st {
        STSingle(m) => match assoc(cur, m) {
            Some(g) => Some((vec![*g], after.to_vec())),
            None => None,
        },
        STMultiple(m) => match assoc(cur, m) {
            Some(s) => Some((s.clone(), after.to_vec())),
            None => None,
        },
        STAlternate(m) => match assoc(cur, m) {
            Some(alts) => match alts.get(ap.alt) {
                Some(g) => Some((vec![*g], after.to_vec())),
                None => None,
            },
            None => None,
        },
        STLigature(m) => match assoc(cur, m) {
            Some(ligs) => try_liga(ap.gd, fl, ligs, after),
            None => None,
        },
        STChain(rules) => {
            for r in rules {
                match try_chain_rule(ap, rec, fl, r, before, cur, after) {
                    Some(x) => return Some(x),
                    None => {}
                }
            }
            None
        }
        _ => None,
    }
}

fn try_gsub_subs(ap: Ap, rec: RecN, fl: &LFlag, subs: &[Subtable], before: &[Glyph], cur: Glyph, after: &[Glyph]) -> Edit {
    for st in subs {
        match try_gsub_sub(ap, rec, fl, st, before, cur, after) {
            Some(x) => return Some(x),
            None => {}
        }
    }
    None
}

/// nested application by lookup index, at most `fuel` levels deep
fn rec_at(ap: Ap, fuel: usize, lks: &[Lookup], i: usize, before: &[Glyph], at_: &[Glyph]) -> Edit {
    if fuel == 0 {
        return None;
    }
    let f = fuel - 1;
    match (lks.get(i), at_.split_first()) {
        (Some(lk), Some((&cur, after))) => {
            let rec = |k: usize, b: &[Glyph], a: &[Glyph]| rec_at(ap, f, lks, k, b, a);
            try_gsub_subs(ap, &rec, &lk.flag, &lk.subs, before, cur, after)
        }
        _ => None,
    }
}

type TryFn<'a> = &'a dyn Fn(&[Glyph], Glyph, &[Glyph]) -> Edit;

/// one pass of a substitution step function over the run; `before` is closest first
fn gsub_loop(gd: &Gdef, fuel: usize, fl: &LFlag, try_: TryFn, before: Vec<Glyph>, rest: &[Glyph]) -> Vec<Glyph> {
    if fuel == 0 {
        let mut o = rev(&before);
        o.extend_from_slice(rest);
        return o;
    }
    let f = fuel - 1;
    match rest.split_first() {
        None => rev(&before),
        Some((&g, tl)) => {
            if skip(gd, fl, g) {
                let mut b = vec![g];
                b.extend(before);
                gsub_loop(gd, f, fl, try_, b, tl)
            } else {
                match try_(&before, g, tl) {
                    Some((out, rest2)) => {
                        let mut b = rev(&out);
                        b.extend(before);
                        gsub_loop(gd, f, fl, try_, b, &rest2)
                    }
                    None => {
                        let mut b = vec![g];
                        b.extend(before);
                        gsub_loop(gd, f, fl, try_, b, tl)
                    }
                }
            }
        }
    }
}

fn apply_gsub_lookup(ap: Ap, lks: &[Lookup], lk: &Lookup, s: &[Glyph]) -> Vec<Glyph> {
    let fuel = lks.len() + 1;
    let rec = |k: usize, b: &[Glyph], a: &[Glyph]| rec_at(ap, fuel, lks, k, b, a);
    let try_ = |before: &[Glyph], cur: Glyph, after: &[Glyph]| try_gsub_subs(ap, &rec, &lk.flag, &lk.subs, before, cur, after);
    gsub_loop(ap.gd, s.len() + 1, &lk.flag, &try_, vec![], s)
}

// ---- GPOS -----------------------------------------------------------------------------------------
/// next glyph that the flag does not skip: (skipped items, it, rest)
fn next_nonskip(gd: &Gdef, fl: &LFlag, l: &[PItem]) -> Option<(Vec<PItem>, PItem, Vec<PItem>)> {
    match l.split_first() {
        None => None,
        Some((&x, t)) => {
            if skip(gd, fl, x.0) {
                match next_nonskip(gd, fl, t) {
                    Some((mut sk, y, r)) => {
                        sk.insert(0, x);
                        Some((sk, y, r))
                    }
                    None => None,
                }
            } else {
                Some((vec![], x, t.to_vec()))
            }
        }
    }
}

fn class_in(cd: &[(Glyph, u32)], g: Glyph) -> u32 {
    match assoc(g, cd) {
        Some(c) => *c,
        None => 0,
    }
}

/// first row / column whose glyph set contains g
fn find_set<'a, V>(g: Glyph, rows: &'a [(Vec<Glyph>, V)]) -> Option<&'a V> {
    for (s, v) in rows {
        if mem(g, s) {
            return Some(v);
        }
    }
    None
}

type PosRes = Option<(Value, Option<(Value, bool)>)>;

fn try_gpos_sub(gd: &Gdef, fl: &LFlag, st: &Subtable, cur: Glyph, after: &[PItem]) -> PosRes {
    match st {
        STSinglePos(m) => match assoc(cur, m) {
            Some(v) => Some((*v, None)),
            None => None,
        },
        STPairGlyph(second, m) => match assoc(cur, m) {
            None => None,
            Some(ps) => match next_nonskip(gd, fl, after) {
                None => None,
                Some((_, (g2, _), _)) => match assoc(g2, ps) {
                    Some((v1, v2)) => Some((*v1, Some((*v2, *second)))),
                    None => None,
                },
            },
        },
        STPairClass(second, rows) => match find_set(cur, rows) {
            None => None,
            Some(cols) => match next_nonskip(gd, fl, after) {
                None => None,
                Some((_, (g2, _), _)) => match find_set(g2, cols) {
                    Some((v1, v2)) => Some((*v1, Some((*v2, *second)))),
                    None => Some((vzero, Some((vzero, *second)))),
                },
            },
        },
        STPairClassRaw(second, cov, cd1, cd2, recs) => {
            if mem(cur, cov) {
                match next_nonskip(gd, fl, after) {
                    None => None,
                    Some((_, (g2, _), _)) => match recs.get(class_in(cd1, cur) as usize) {
                        None => None,
                        Some(row) => match row.get(class_in(cd2, g2) as usize) {
                            Some((v1, v2)) => Some((*v1, Some((*v2, *second)))),
                            None => None,
                        },
                    },
                }
            } else {
                None
            }
        }
        _ => None,
    }
}

fn try_gpos_subs(gd: &Gdef, fl: &LFlag, subs: &[Subtable], cur: Glyph, after: &[PItem]) -> PosRes {
    for st in subs {
        match try_gpos_sub(gd, fl, st, cur, after) {
            Some(x) => return Some(x),
            None => {}
        }
    }
    None
}

type TryPosFn<'a> = &'a dyn Fn(Glyph, &[PItem]) -> PosRes;

fn gpos_loop(gd: &Gdef, fuel: usize, fl: &LFlag, try_: TryPosFn, before: Vec<PItem>, rest: &[PItem]) -> Vec<PItem> {
    if fuel == 0 {
        let mut o = rev(&before);
        o.extend_from_slice(rest);
        return o;
    }
    let f = fuel - 1;
    match rest.split_first() {
        None => rev(&before),
        Some((&(g, v), tl)) => {
            let cons = |x: PItem, l: &[PItem]| {
                let mut b = vec![x];
                b.extend_from_slice(l);
                b
            };
            if skip(gd, fl, g) {
                gpos_loop(gd, f, fl, try_, cons((g, v), &before), tl)
            } else {
                match try_(g, tl) {
                    None => gpos_loop(gd, f, fl, try_, cons((g, v), &before), tl),
                    Some((v1, None)) => gpos_loop(gd, f, fl, try_, cons((g, vadd(v, v1)), &before), tl),
                    Some((v1, Some((v2, consume)))) => match next_nonskip(gd, fl, tl) {
                        None => gpos_loop(gd, f, fl, try_, cons((g, vadd(v, v1)), &before), tl),
                        Some((sk, (g2, w2), aft)) => {
                            let mut before2 = rev(&sk);
                            before2.push((g, vadd(v, v1)));
                            before2.extend_from_slice(&before);
                            if consume {
                                gpos_loop(gd, f, fl, try_, cons((g2, vadd(w2, v2)), &before2), &aft)
                            } else {
                                gpos_loop(gd, f, fl, try_, before2, &cons((g2, vadd(w2, v2)), &aft))
                            }
                        }
                    },
                }
            }
        }
    }
}

fn apply_gpos_lookup(gd: &Gdef, lk: &Lookup, s: &[PItem]) -> Vec<PItem> {
    let try_ = |cur: Glyph, after: &[PItem]| try_gpos_subs(gd, &lk.flag, &lk.subs, cur, after);
    gpos_loop(gd, s.len() + 1, &lk.flag, &try_, vec![], s)
}

// ---- which lookups, in which order ----------------------------------------------------------------
fn assoc_ls<'a, V>(s: Tag, l: Tag, m: &'a [((Tag, Tag), V)]) -> Option<&'a V> {
    for ((s2, l2), v) in m {
        if s == *s2 && l == *l2 {
            return Some(v);
        }
    }
    None
}

/// lookup indices of the enabled features of the language system, increasing, without repeats
fn active_lookups(t: &OtTable, sel: &Selection) -> Vec<usize> {
    match assoc_ls(sel.script, sel.lang, &t.langsys) {
        None => vec![],
        Some(fidx) => {
            let mut all: Vec<usize> = vec![];
            for &i in fidx {
                match t.features.get(i) {
                    Some((tg, lks)) => {
                        if mem(*tg, &sel.feats) {
                            all.extend_from_slice(lks)
                        }
                    }
                    None => {}
                }
            }
            sort_uniq(&all)
        }
    }
}

fn apply_gsub(gd: &Gdef, t: &OtTable, sel: &Selection, s: &[Glyph]) -> Vec<Glyph> {
    let mut s = s.to_vec();
    for i in active_lookups(t, sel) {
        s = match t.lookups.get(i) {
            Some(lk) => apply_gsub_lookup(Ap { gd, alt: sel.alt }, &t.lookups, lk, &s),
            None => s,
        };
    }
    s
}

fn apply_gpos(gd: &Gdef, t: &OtTable, sel: &Selection, s: &[PItem]) -> Vec<PItem> {
    let mut s = s.to_vec();
    for i in active_lookups(t, sel) {
        s = match t.lookups.get(i) {
            Some(lk) => apply_gpos_lookup(gd, lk, &s),
            None => s,
        };
    }
    s
}

/// shaping: all substitutions, then all positioning
fn apply_ot(f: &OtFont, sel: &Selection, s: &[Glyph]) -> Vec<PItem> {
    let g: Vec<PItem> = apply_gsub(&f.gdef, &f.gsub, sel, s).iter().map(|&g| (g, vzero)).collect();
    apply_gpos(&f.gdef, &f.gpos, sel, &g)
}

// =================================================================================================
// Source.v
// =================================================================================================
#[derive(Clone, Debug, PartialEq)]
enum CItem {
    IGlyph(Glyph),
    IRange(Str, Str),
    IRef(u32),
}
use CItem::*;
#[derive(Clone, Debug, PartialEq)]
enum Goc {
    OGlyph(Glyph),
    OClass(Vec<CItem>),
}
use Goc::*;

#[derive(Clone, Debug, PartialEq)]
struct SFlag {
    rtl: bool,
    ibase: bool,
    ilig: bool,
    imark: bool,
    filter: Option<Vec<CItem>>,
    mattach: Option<Vec<CItem>>,
}

#[derive(Clone, Debug, PartialEq)]
enum Inline {
    InlNone,
    InlNull,
    InlSub(Vec<Goc>),
}
use Inline::*;

#[derive(Clone, Debug, PartialEq)]
enum Rule {
    RSingle(Goc, Goc),
    RDelete(Goc),
    RMulti(Goc, Vec<Goc>),
    RAlt(Glyph, Vec<CItem>),
    RLiga(Vec<Goc>, Glyph),
    /// back is in SOURCE order (farthest first, as written)
    RChain(Vec<Goc>, Vec<(Goc, Vec<u32>)>, Vec<Goc>, Inline),
    RIgnore(Vec<Goc>, Vec<Goc>, Vec<Goc>),
    RPosSingle(Goc, Value),
    RPosPair(bool, Goc, Goc, Value),
}
use Rule::*;

#[derive(Clone, Debug, PartialEq)]
enum LStmt {
    LRule(Rule),
    LFlag(SFlag),
    LClassDef(u32, Vec<CItem>),
}
use LStmt::*;

#[derive(Clone, Debug, PartialEq)]
enum FStmt {
    FS(LStmt),
    FScript(Tag),
    FLang(Tag, bool),
    FLookupRef(u32),
    FLookupBlock(u32, Vec<LStmt>),
}
use FStmt::*;

#[derive(Clone, Debug, PartialEq)]
enum Top {
    TLangSys(Tag, Tag),
    TClassDef(u32, Vec<CItem>),
    TLookup(u32, Vec<LStmt>),
    TFeature(Tag, Vec<FStmt>),
    TGdef(Vec<CItem>, Vec<CItem>, Vec<CItem>, Vec<CItem>),
}
use Top::*;

type Prog = Vec<Top>;

// ---- elaborated program ---------------------------------------------------------------------------
#[derive(Clone, Copy, Debug, PartialEq)]
enum Lid {
    LGsub(usize),
    LGpos(usize),
    LEmpty,
}
use Lid::*;

#[derive(Clone, Debug, PartialEq)]
enum XInline {
    XISingle(Vec<Glyph>, Vec<Glyph>, usize), // nchk: pairs seen by the shared-lookup check
    XIMulti(Vec<Glyph>, Vec<Vec<Glyph>>),
    XILiga(Vec<Vec<Glyph>>, Glyph),
}
use XInline::*;

#[derive(Clone, Debug, PartialEq)]
enum XRule {
    XSingle(Vec<Glyph>, Vec<Glyph>),
    XMulti(Vec<Glyph>, Vec<Vec<Glyph>>),
    XAlt(Glyph, Vec<Glyph>),
    XLiga(Vec<Vec<Glyph>>, Glyph),
    /// back: closest first; usize: source GSUB lookup index
    XChain(Vec<Vec<Glyph>>, Vec<(Vec<Glyph>, Vec<usize>)>, Vec<Vec<Glyph>>, Option<XInline>),
    XPosSingle(Vec<Glyph>, Value),
    XPairE(Vec<Glyph>, Vec<Glyph>, Value),
    XPairC(Vec<Glyph>, Vec<Glyph>, Value),
}
use XRule::*;

#[derive(Clone, Copy, Debug, PartialEq, Eq, PartialOrd, Ord)]
enum Kind {
    KSingle,
    KMulti,
    KAlt,
    KLiga,
    KChain,
    KPosSingle,
    KPosPair,
}
use Kind::*;
fn kind_eqb(a: Kind, b: Kind) -> bool {
    a == b
}
fn is_gpos(k: Kind) -> bool {
    matches!(k, KPosSingle | KPosPair)
}

#[derive(Clone, Debug, PartialEq)]
struct SLookup {
    flag: LFlag,
    kind: Kind,
    rules: Vec<XRule>,
}
fn mkSL(flag: LFlag, kind: Kind, rules: Vec<XRule>) -> SLookup {
    SLookup { flag, kind, rules }
}

/// feature key: (feature, script, language)
type FKey = (Tag, Tag, Tag);
fn fkey_eqb(a: &FKey, b: &FKey) -> bool {
    a.0 == b.0 && a.1 == b.1 && a.2 == b.2
}

#[derive(Clone, Debug, PartialEq)]
struct EProg {
    gsub: Vec<SLookup>,
    gpos: Vec<SLookup>,
    feats: Vec<(FKey, Vec<Lid>)>,
    gdef: Gdef,
}

// ---- resolution of classes ------------------------------------------------------------------------
/// Section Resolve / Section Rules variables
#[derive(Clone, Copy)]
struct Rs<'a> {
    incl: bool,     // numeric ranges include their end glyph (false on the unrepaired tree)
    gm: &'a [Str], // glyph names by glyph id
    delp: bool,     // `sub X by NULL;` joins (promotes) a running single-substitution lookup (false on the unrepaired tree)
    eskip: bool,    // a contextual rule naming an empty lookup block applies nothing there (unrepaired: the compiler panics)
    refc: bool,     // `lookup NAME;` closes the running lookup (specification; false in /repo)
    mixs: bool,     // a named block with multiple-substitution and ligature rules is rejected (specification; false in /repo)
}

type Env = Vec<(u32, Vec<Glyph>)>;

fn range_of(rs: Rs, a: &[u32], b: &[u32]) -> Option<Vec<Str>> {
    if rs.incl { range_named_spec(a, b) } else { range_named(a, b) }
}

fn resolve_items(rs: Rs, env: &Env, items: &[CItem]) -> Option<Vec<Glyph>> {
    match items.split_first() {
        None => Some(vec![]),
        Some((it, t)) => {
            let x = match it {
                IGlyph(g) => {
                    if (*g as usize) < rs.gm.len() {
                        Some(vec![*g])
                    } else {
                        None
                    }
                }
                IRange(a, b) => match range_of(rs, a, b) {
                    Some(names) => lookup_all(rs.gm, &names),
                    None => None,
                },
                IRef(c) => assoc(*c, env).cloned(),
            };
            match (x, resolve_items(rs, env, t)) {
                (Some(mut x), Some(y)) => {
                    x.extend(y);
                    Some(x)
                }
                _ => None,
            }
        }
    }
}

#[derive(Clone, Debug, PartialEq)]
enum RGoc {
    RG(Glyph),
    RC(Vec<Glyph>),
}
use RGoc::*;
fn rgoc_list(r: &RGoc) -> Vec<Glyph> {
    match r {
        RG(g) => vec![*g],
        RC(c) => c.clone(),
    }
}
fn rgoc_is_class(r: &RGoc) -> bool {
    matches!(r, RC(_))
}

fn resolve_goc(rs: Rs, env: &Env, o: &Goc) -> Option<RGoc> {
    match o {
        OGlyph(g) => {
            if (*g as usize) < rs.gm.len() {
                Some(RG(*g))
            } else {
                None
            }
        }
        OClass(items) => resolve_items(rs, env, items).map(RC),
    }
}

fn resolve_gocs(rs: Rs, env: &Env, l: &[Goc]) -> Option<Vec<RGoc>> {
    // the Coq evaluates every element before combining; the result is None iff any element is None
    let mut out = vec![];
    let mut ok = true;
    for o in l {
        match resolve_goc(rs, env, o) {
            Some(x) => out.push(x),
            None => ok = false,
        }
    }
    if ok { Some(out) } else { None }
}

fn resolve_oclass(rs: Rs, env: &Env, o: &Option<Vec<CItem>>) -> Option<Option<Vec<Glyph>>> {
    match o {
        None => Some(None),
        Some(items) => resolve_items(rs, env, items).map(Some),
    }
}
fn resolve_flag(rs: Rs, env: &Env, f: &SFlag) -> Option<LFlag> {
    match (resolve_oclass(rs, env, &f.filter), resolve_oclass(rs, env, &f.mattach)) {
        (Some(fs), Some(ma)) => Some(mkF(f.rtl, f.ibase, f.ilig, f.imark, fs, ma)),
        _ => None,
    }
}

/// validate_single_sub_inputs + zip with into_iter_for_target: aligned target / replacement lists
fn single_pairs(t: &RGoc, r: &RGoc) -> Option<(Vec<Glyph>, Vec<Glyph>)> {
    match (t, r) {
        (RG(a), RG(b)) => Some((vec![*a], vec![*b])),
        (RG(_), RC(_)) => None,
        (RC(c1), RG(b)) => Some((c1.clone(), c1.iter().map(|_| *b).collect())),
        (RC(c1), RC(c2)) => {
            if c2.len() == 1 {
                let b = c2[0];
                Some((c1.clone(), c1.iter().map(|_| b).collect()))
            } else if c1.len() == c2.len() {
                Some((c1.clone(), c2.clone()))
            } else {
                None
            }
        }
    }
}

/// add_multiple_sub: replacement classes must have the target's length; item i of each
fn multi_seqs(t: &RGoc, repl: &[RGoc]) -> Option<(Vec<Glyph>, Vec<Vec<Glyph>>)> {
    let tg = rgoc_list(t);
    if repl.iter().all(|r| match r {
        RG(_) => true,
        RC(c) => c.len() == tg.len(),
    }) {
        let seqs = (0..tg.len())
            .map(|i| {
                repl.iter()
                    .map(|r| match r {
                        RG(g) => *g,
                        RC(c) => *c.get(i).unwrap_or(&0),
                    })
                    .collect()
            })
            .collect();
        Some((tg, seqs))
    } else {
        None
    }
}

// ---- the walk -------------------------------------------------------------------------------------
type LangSys = (Tag, Tag);
fn ls_eqb(a: &LangSys, b: &LangSys) -> bool {
    a.0 == b.0 && a.1 == b.1
}
fn ls_mem(x: &LangSys, l: &[LangSys]) -> bool {
    l.iter().any(|y| ls_eqb(x, y))
}
fn ls_assoc<'a, V>(k: &LangSys, m: &'a [(LangSys, V)]) -> Option<&'a V> {
    for (k2, v) in m {
        if ls_eqb(k, k2) {
            return Some(v);
        }
    }
    None
}
fn ls_remove<V: Clone>(k: &LangSys, m: &[(LangSys, V)]) -> Vec<(LangSys, V)> {
    m.iter().filter(|(k2, _)| !ls_eqb(k, k2)).cloned().collect()
}
/// push a value onto the list bound to k (entry().or_default().push())
fn ls_push<V: Clone>(k: &LangSys, v: V, m: &[(LangSys, Vec<V>)]) -> Vec<(LangSys, Vec<V>)> {
    let mut out = m.to_vec();
    for e in out.iter_mut() {
        if ls_eqb(k, &e.0) {
            e.1.push(v);
            return out;
        }
    }
    out.push((*k, vec![v]));
    out
}
fn tag_push<V: Clone>(k: Tag, v: V, m: &[(Tag, Vec<V>)]) -> Vec<(Tag, Vec<V>)> {
    let mut out = m.to_vec();
    for e in out.iter_mut() {
        if k == e.0 {
            e.1.push(v);
            return out;
        }
    }
    out.push((k, vec![v]));
    out
}

/// ActiveFeature
#[derive(Clone, Debug, PartialEq)]
struct Active {
    tag: Tag,
    cur: Option<LangSys>,
    lookups: Vec<(LangSys, Vec<Lid>)>,
    sdl: Vec<(Tag, Vec<Lid>)>, // script_default_lookups
}

#[derive(Clone, Debug)]
struct EState {
    classes: Env,
    named: Vec<(u32, Lid)>,
    gsub: Vec<SLookup>,
    gpos: Vec<SLookup>,
    cur: Option<SLookup>,
    cur_name: Option<u32>,
    flags: LFlag,
    active: Option<Active>,
    script: Option<Tag>,
    feats: Vec<(FKey, Vec<Lid>)>,
    dls: (bool, Vec<LangSys>), // DefaultLanguageSystems: explicit?, items
    gdefs: Gdef,
}

fn es0() -> EState {
    EState {
        classes: vec![],
        named: vec![],
        gsub: vec![],
        gpos: vec![],
        cur: None,
        cur_name: None,
        flags: flag0(),
        active: None,
        script: None,
        feats: vec![],
        dls: (false, vec![(DFLT, dflt)]),
        gdefs: vec![],
    }
}

fn set_cur(st: &EState, c: Option<SLookup>) -> EState {
    let mut s = st.clone();
    s.cur = c;
    s
}
fn set_flags(st: &EState, f: LFlag) -> EState {
    let mut s = st.clone();
    s.flags = f;
    s
}
fn set_active(st: &EState, a: Option<Active>) -> EState {
    let mut s = st.clone();
    s.active = a;
    s
}
fn set_script(st: &EState, x: Option<Tag>) -> EState {
    let mut s = st.clone();
    s.script = x;
    s
}
fn set_classes(st: &EState, c: Env) -> EState {
    let mut s = st.clone();
    s.classes = c;
    s
}
fn set_cur_name(st: &EState, n: Option<u32>) -> EState {
    let mut s = st.clone();
    s.cur_name = n;
    s
}

/// AllLookups::push of the current lookup (without touching the name)
fn push_current(st: &EState) -> (EState, Option<Lid>) {
    match &st.cur {
        None => (st.clone(), None),
        Some(sl) => {
            let mut s = st.clone();
            s.cur = None;
            if is_gpos(sl.kind) {
                s.gpos.push(sl.clone());
                (s, Some(LGpos(st.gpos.len())))
            } else {
                s.gsub.push(sl.clone());
                (s, Some(LGsub(st.gsub.len())))
            }
        }
    }
}

/// AllLookups::finish_current
fn finish_current(st: &EState) -> (EState, Option<Lid>) {
    let (st1, id) = push_current(st);
    match (id, st1.cur_name) {
        (Some(i), Some(n)) => {
            let mut s = st1.clone();
            s.named.insert(0, (n, i));
            s.cur = None;
            s.cur_name = None;
            (s, Some(i))
        }
        (Some(i), None) => (st1, Some(i)),
        (None, Some(n)) => {
            let mut s = st1.clone();
            s.named.insert(0, (n, LEmpty));
            s.cur = None;
            s.cur_name = None;
            (s, Some(LEmpty))
        }
        (None, None) => (st1, None),
    }
}

/// ActiveFeature::add_lookup
fn af_add_lookup(a: &Active, l: Lid) -> Active {
    match a.cur {
        Some((s, lg)) => {
            if lg == dflt {
                Active { tag: a.tag, cur: a.cur, lookups: a.lookups.clone(), sdl: tag_push(s, l, &a.sdl) }
            } else {
                Active { tag: a.tag, cur: a.cur, lookups: ls_push(&(s, lg), l, &a.lookups), sdl: a.sdl.clone() }
            }
        }
        None => Active { tag: a.tag, cur: a.cur, lookups: ls_push(&(DFLT, dflt), l, &a.lookups), sdl: a.sdl.clone() },
    }
}

/// add_lookup_to_current_feature_if_present
fn add_to_feature(st: &EState, l: Option<Lid>) -> EState {
    match (l, &st.active) {
        (Some(LEmpty), _) => st.clone(),
        (Some(i), Some(a)) => set_active(st, Some(af_add_lookup(a, i))),
        _ => st.clone(),
    }
}

/// ActiveFeature::set_system
fn af_set_system(dls: &[LangSys], a: &Active, sys: LangSys, exclude_dflt: bool) -> Active {
    let (s, lg) = sys;
    let lookups2 = if lg == dflt {
        a.lookups.clone()
    } else {
        match ls_assoc(&sys, &a.lookups) {
            Some(_) => a.lookups.clone(),
            None => {
                let inherited: Vec<Lid> = if exclude_dflt {
                    vec![]
                } else {
                    let mut inh: Vec<Lid> = if ls_mem(&sys, dls) || (ls_mem(&(s, dflt), dls) && assoc(s, &a.sdl).is_some()) {
                        match ls_assoc(&(DFLT, dflt), &a.lookups) {
                            Some(v) => v.clone(),
                            None => vec![],
                        }
                    } else {
                        vec![]
                    };
                    inh.extend(match assoc(s, &a.sdl) {
                        Some(v) => v.clone(),
                        None => vec![],
                    });
                    inh
                };
                let mut l = a.lookups.clone();
                l.push((sys, inherited));
                l
            }
        }
    };
    Active { tag: a.tag, cur: Some(sys), lookups: lookups2, sdl: a.sdl.clone() }
}

/// extend the (feature, script, language) entry
fn feats_extend(k: &FKey, l: &[Lid], m: &[(FKey, Vec<Lid>)]) -> Vec<(FKey, Vec<Lid>)> {
    let mut out = m.to_vec();
    for e in out.iter_mut() {
        if fkey_eqb(k, &e.0) {
            e.1.extend_from_slice(l);
            return out;
        }
    }
    out.push((*k, l.to_vec()));
    out
}

/// ActiveFeature::add_to_features
fn af_finish(dls: &[LangSys], a: &Active, feats: &[(FKey, Vec<Lid>)]) -> Vec<(FKey, Vec<Lid>)> {
    let defaults: Vec<Lid> = match ls_assoc(&(DFLT, dflt), &a.lookups) {
        Some(v) => v.clone(),
        None => vec![],
    };
    let l0 = ls_remove(&(DFLT, dflt), &a.lookups);
    let mut l1 = l0;
    for (s, lks) in &a.sdl {
        let v = if ls_mem(&(*s, dflt), dls) {
            let mut d = defaults.clone();
            d.extend_from_slice(lks);
            d
        } else {
            lks.clone()
        };
        l1.push(((*s, dflt), v));
    }
    let mut l2 = l1;
    for sys in dls {
        match ls_assoc(sys, &l2) {
            Some(_) => {}
            None => l2.push((*sys, defaults.clone())),
        }
    }
    let mut fs = feats.to_vec();
    for ((s, lg), lks) in &l2 {
        fs = feats_extend(&(a.tag, *s, *lg), lks, &fs);
    }
    fs
}

// ---- adding rules to the current lookup -------------------------------------------------------------
fn cur_is(st: &EState, k: Kind) -> bool {
    match &st.cur {
        Some(sl) => kind_eqb(sl.kind, k),
        None => false,
    }
}
fn same_flags(st: &EState) -> bool {
    match &st.cur {
        Some(sl) => flag_eqb(&sl.flag, &st.flags),
        None => false,
    }
}

/// ensure_current_lookup_type
fn ensure(st: &EState, k: Kind) -> EState {
    if cur_is(st, k) && same_flags(st) {
        st.clone()
    } else {
        let (st1, fin) = push_current(st);
        let fl = st1.flags.clone();
        add_to_feature(&set_cur(&st1, Some(mkSL(fl, k, vec![]))), fin)
    }
}

fn add_rule(st: &EState, r: XRule) -> EState {
    match &st.cur {
        Some(sl) => {
            let mut rules = sl.rules.clone();
            rules.push(r);
            set_cur(st, Some(mkSL(sl.flag.clone(), sl.kind, rules)))
        }
        None => st.clone(),
    }
}

/// promote_single_sub_to_{multi,liga}_if_necessary
fn promote(st: &EState, k: Kind) -> EState {
    if same_flags(st) && cur_is(st, KSingle) {
        match &st.cur {
            Some(sl) => set_cur(st, Some(mkSL(sl.flag.clone(), k, sl.rules.clone()))),
            None => st.clone(),
        }
    } else {
        st.clone()
    }
}

/// cartesian product of component classes: sequence_enumerator
fn sequences(cs: &[Vec<Glyph>]) -> Vec<Vec<Glyph>> {
    match cs.split_first() {
        None => vec![vec![]],
        Some((c, t)) => {
            let tails = sequences(t);
            let mut out = vec![];
            for &g in c {
                for s in &tails {
                    let mut x = vec![g];
                    x.extend_from_slice(s);
                    out.push(x);
                }
            }
            out
        }
    }
}

/// the ligature entries (component sequence, ligature) a rule contributes
fn liga_entries_of(r: &XRule) -> Vec<(Vec<Glyph>, Glyph)> {
    match r {
        XSingle(tgt, repl) => tgt.iter().zip(repl.iter()).map(|(&a, &b)| (vec![a], b)).collect(),
        XLiga(comps, lig) => sequences(comps).into_iter().map(|s| (s, *lig)).collect(),
        _ => vec![],
    }
}

fn ins_pairs<V: Clone>(ks: &[Glyph], vs: &[V], m: &[(Glyph, V)]) -> Vec<(Glyph, V)> {
    let mut m = m.to_vec();
    for (k, v) in ks.iter().zip(vs.iter()) {
        m = upd(*k, v.clone(), &m);
    }
    m
}

/// SingleSubBuilder: BTreeMap::insert overwrites
fn compile_single(rules: &[XRule]) -> Vec<(Glyph, Glyph)> {
    let mut m: Vec<(Glyph, Glyph)> = vec![];
    for r in rules {
        m = match r {
            XSingle(tgt, repl) => ins_pairs(tgt, repl, &m),
            _ => m,
        };
    }
    m
}

type LigTbl = Vec<(Glyph, Vec<(Vec<Glyph>, Glyph)>)>;

/// LigatureSubBuilder::insert: append under the first glyph unless the same entry is there
fn lig_insert(tbl: &LigTbl, e: &(Vec<Glyph>, Glyph)) -> LigTbl {
    match e.0.split_first() {
        None => tbl.clone(),
        Some((&first, rest)) => match assoc(first, tbl) {
            Some(l) => {
                if l.iter().any(|x| glyphs_eqb(&x.0, rest) && x.1 == e.1) {
                    tbl.clone()
                } else {
                    let mut l2 = l.clone();
                    l2.push((rest.to_vec(), e.1));
                    upd(first, l2, tbl)
                }
            }
            None => {
                let mut t = tbl.clone();
                t.push((first, vec![(rest.to_vec(), e.1)]));
                t
            }
        },
    }
}

/// LigatureSubBuilder::can_add
fn liga_tbl_can_add(tbl: &LigTbl, e: &(Vec<Glyph>, Glyph)) -> bool {
    match e.0.split_first() {
        None => false,
        Some((&first, rest)) => match assoc(first, tbl) {
            Some(l) => !l.iter().any(|x| glyphs_eqb(&x.0, rest) && !(x.1 == e.1)),
            None => true,
        },
    }
}

fn single_prefix(rules: &[XRule]) -> (Vec<XRule>, Vec<XRule>) {
    match rules.split_first() {
        Some((XSingle(t, r), tl)) => {
            let (mut a, b) = single_prefix(tl);
            a.insert(0, XSingle(t.clone(), r.clone()));
            (a, b)
        }
        _ => (vec![], rules.to_vec()),
    }
}

fn liga_table(rules: &[XRule]) -> LigTbl {
    let (pre, rest) = single_prefix(rules);
    let mut tbl: LigTbl = compile_single(&pre).into_iter().map(|(a, b)| (a, vec![(vec![], b)])).collect();
    for r in &rest {
        for e in liga_entries_of(r) {
            tbl = lig_insert(&tbl, &e);
        }
    }
    tbl
}

/// add_gsub_type_4 for each new entry in turn: can_add, then insert
fn liga_add_all(tbl: &LigTbl, new: &[(Vec<Glyph>, Glyph)]) -> bool {
    match new.split_first() {
        None => true,
        Some((e, t)) => liga_tbl_can_add(tbl, e) && liga_add_all(&lig_insert(tbl, e), t),
    }
}

fn cur_liga_table(st: &EState) -> LigTbl {
    match &st.cur {
        Some(sl) => liga_table(&sl.rules),
        None => vec![],
    }
}

fn named_gsub(eskip: bool, st: &EState, names: &[u32]) -> Option<Vec<usize>> {
    let mut acc: Option<Vec<usize>> = Some(vec![]);
    for n in names.iter().rev() {
        acc = match (assoc(*n, &st.named), acc) {
            (Some(LGsub(k)), Some(mut l)) => {
                l.insert(0, *k);
                Some(l)
            }
            (Some(LEmpty), Some(l)) => {
                if eskip {
                    Some(l)
                } else {
                    None
                }
            }
            _ => None, // undefined / GPOS: error
        };
    }
    acc
}

fn elab_rule(rs: Rs, st: &EState, r: &Rule) -> Option<EState> {
    let env = &st.classes;
    match r {
        RSingle(t, rp) => match (resolve_goc(rs, env, t), resolve_goc(rs, env, rp)) {
            (Some(t2), Some(r2)) => match single_pairs(&t2, &r2) {
                None => None,
                Some((tg, rl)) => {
                    if cur_is(st, KMulti) && same_flags(st) {
                        Some(add_rule(st, XSingle(tg, rl)))
                    } else if cur_is(st, KLiga) && same_flags(st) {
                        if liga_add_all(&cur_liga_table(st), &liga_entries_of(&XSingle(tg.clone(), rl.clone()))) {
                            Some(add_rule(st, XSingle(tg, rl)))
                        } else {
                            None
                        }
                    } else {
                        Some(add_rule(&ensure(st, KSingle), XSingle(tg, rl)))
                    }
                }
            },
            _ => None,
        },
        RDelete(t) => match resolve_goc(rs, env, t) {
            Some(t2) => {
                let tg = rgoc_list(&t2);
                let seqs = tg.iter().map(|_| vec![]).collect();
                Some(add_rule(&ensure(&(if rs.delp { promote(st, KMulti) } else { st.clone() }), KMulti), XMulti(tg, seqs)))
            }
            None => None,
        },
        RMulti(t, rp) => match (resolve_goc(rs, env, t), resolve_gocs(rs, env, rp)) {
            (Some(t2), Some(r2)) => match multi_seqs(&t2, &r2) {
                Some((tg, seqs)) => Some(add_rule(&ensure(&promote(st, KMulti), KMulti), XMulti(tg, seqs))),
                None => None,
            },
            _ => None,
        },
        RAlt(t, alts) => {
            if (*t as usize) < rs.gm.len() {
                match resolve_items(rs, env, alts) {
                    Some(a) => Some(add_rule(&ensure(st, KAlt), XAlt(*t, a))),
                    None => None,
                }
            } else {
                None
            }
        }
        RLiga(comps, lig) => {
            if (*lig as usize) < rs.gm.len() && 2 <= comps.len() {
                match resolve_gocs(rs, env, comps) {
                    Some(cs) => {
                        let st1 = ensure(&promote(st, KLiga), KLiga);
                        let x = XLiga(cs.iter().map(rgoc_list).collect(), *lig);
                        if liga_add_all(&cur_liga_table(&st1), &liga_entries_of(&x)) { Some(add_rule(&st1, x)) } else { None }
                    }
                    None => None,
                }
            } else {
                None
            }
        }
        RChain(back, input, look, inlr) => {
            let input_gocs: Vec<Goc> = input.iter().map(|x| x.0.clone()).collect();
            match (resolve_gocs(rs, env, back), resolve_gocs(rs, env, &input_gocs), resolve_gocs(rs, env, look)) {
                (Some(b), Some(i), Some(l)) => {
                    let inputs: Vec<Vec<Glyph>> = i.iter().map(rgoc_list).collect();
                    let named: Vec<Vec<u32>> = input.iter().map(|x| x.1.clone()).collect();
                    // validation: no named lookups together with an inline rule; at least one input
                    match i.split_first() {
                        None => None,
                        Some((i0, irest)) => {
                            let xin: Option<Option<XInline>> = match inlr {
                                InlNone => Some(None),
                                InlNull => {
                                    if irest.is_empty() {
                                        let tg = rgoc_list(i0);
                                        let seqs = tg.iter().map(|_| vec![]).collect();
                                        Some(Some(XIMulti(tg, seqs)))
                                    } else {
                                        None
                                    }
                                }
                                InlSub(repl) => match resolve_gocs(rs, env, repl) {
                                    None => None,
                                    Some(rsv) => {
                                        // validation: a class in the replacement needs a class as first input
                                        if rsv.iter().any(rgoc_is_class) && !rgoc_is_class(i0) {
                                            None
                                        } else if !irest.is_empty() {
                                            match rsv.as_slice() {
                                                [RG(g)] => Some(Some(XILiga(inputs.clone(), *g))),
                                                [RC(c)] if c.len() == 1 => Some(Some(XILiga(inputs.clone(), c[0]))),
                                                _ => None,
                                            }
                                        } else {
                                            match rsv.as_slice() {
                                                [] => None,
                                                [r1] => match single_pairs(i0, r1) {
                                                    Some((tg, rl)) => {
                                                        let nchk = match r1 {
                                                            RC(c) if c.len() >= 2 => tg.len(),
                                                            _ => 1,
                                                        };
                                                        Some(Some(XISingle(tg, rl, nchk)))
                                                    }
                                                    None => None,
                                                },
                                                _ => match multi_seqs(i0, &rsv) {
                                                    Some((tg, seqs)) => Some(Some(XIMulti(tg, seqs))),
                                                    None => None,
                                                },
                                            }
                                        }
                                    }
                                },
                            };
                            match xin {
                                None => None,
                                Some(xi) => {
                                    let has_named = named.iter().any(|l| !l.is_empty());
                                    if has_named && xi.is_some() {
                                        None
                                    } else {
                                        let mut ids: Option<Vec<Vec<usize>>> = Some(vec![]);
                                        for ns in named.iter().rev() {
                                            ids = match (named_gsub(rs.eskip, st, ns), ids) {
                                                (Some(x), Some(mut y)) => {
                                                    y.insert(0, x);
                                                    Some(y)
                                                }
                                                _ => None,
                                            };
                                        }
                                        match ids {
                                            None => None,
                                            Some(ids) => {
                                                let inp: Vec<(Vec<Glyph>, Vec<usize>)> = inputs.iter().cloned().zip(ids.into_iter()).collect();
                                                Some(add_rule(
                                                    &ensure(st, KChain),
                                                    XChain(rev(&b.iter().map(rgoc_list).collect::<Vec<_>>()), inp, l.iter().map(rgoc_list).collect(), xi),
                                                ))
                                            }
                                        }
                                    }
                                }
                            }
                        }
                    }
                }
                _ => None,
            }
        }
        RIgnore(back, input, look) => match (resolve_gocs(rs, env, back), resolve_gocs(rs, env, input), resolve_gocs(rs, env, look)) {
            (Some(b), Some(i), Some(l)) => {
                if i.is_empty() {
                    None
                } else {
                    Some(add_rule(
                        &ensure(st, KChain),
                        XChain(
                            rev(&b.iter().map(rgoc_list).collect::<Vec<_>>()),
                            i.iter().map(|x| (rgoc_list(x), vec![])).collect(),
                            l.iter().map(rgoc_list).collect(),
                            None,
                        ),
                    ))
                }
            }
            _ => None,
        },
        RPosSingle(t, v) => match resolve_goc(rs, env, t) {
            Some(t2) => Some(add_rule(&ensure(st, KPosSingle), XPosSingle(rgoc_list(&t2), *v))),
            None => None,
        },
        RPosPair(enum_, a, b, v) => match (resolve_goc(rs, env, a), resolve_goc(rs, env, b)) {
            (Some(a2), Some(b2)) => {
                let st1 = ensure(st, KPosPair);
                if (rgoc_is_class(&a2) || rgoc_is_class(&b2)) && !*enum_ {
                    Some(add_rule(&st1, XPairC(rgoc_list(&a2), rgoc_list(&b2), *v)))
                } else {
                    Some(add_rule(&st1, XPairE(rgoc_list(&a2), rgoc_list(&b2), *v)))
                }
            }
            _ => None,
        },
    }
}

fn elab_lstmt(rs: Rs, st: &EState, s: &LStmt) -> Option<EState> {
    match s {
        LRule(r) => elab_rule(rs, st, r),
        LFlag(f) => match resolve_flag(rs, &st.classes, f) {
            Some(fl) => Some(set_flags(st, fl)),
            None => None,
        },
        LClassDef(n, items) => match resolve_items(rs, &st.classes, items) {
            Some(c) => {
                let mut cl = st.classes.clone();
                cl.insert(0, (*n, c));
                Some(set_classes(st, cl))
            }
            None => None,
        },
    }
}

fn elab_lstmts(rs: Rs, st: &EState, l: &[LStmt]) -> Option<EState> {
    let mut st = st.clone();
    for s in l {
        st = elab_lstmt(rs, &st, s)?;
    }
    Some(st)
}

fn rule_kind(r: &Rule) -> u32 {
    match r {
        RSingle(..) => 1,
        RDelete(..) => 1,
        RMulti(..) => 2,
        RAlt(..) => 3,
        RLiga(..) => 4,
        RChain(..) => 6,
        RIgnore(..) => 16,
        RPosSingle(..) => 11,
        RPosPair(..) => 12,
    }
}

fn block_ok(kind: Option<u32>, flag_after_rule: bool, l: &[LStmt]) -> bool {
    match l.split_first() {
        None => true,
        Some((LRule(r), t)) => {
            if flag_after_rule {
                false
            } else {
                let k = rule_kind(r);
                match kind {
                    None => block_ok(Some(k), false, t),
                    Some(k0) => {
                        if k0 == k {
                            block_ok(kind, false, t)
                        } else if (k0 == 1 || k0 == 2) && (k == 1 || k == 2) {
                            block_ok(kind, false, t)
                        } else if (k0 == 1 || k0 == 4) && (k == 1 || k == 4) {
                            block_ok(kind, false, t)
                        } else {
                            false
                        }
                    }
                }
            }
        }
        Some((LFlag(_), t)) => block_ok(kind, kind.is_some(), t),
        Some((LClassDef(..), t)) => block_ok(kind, flag_after_rule, t),
    }
}

/// resolve_lookup_block = start_lookup_block; statements; end_lookup_block
fn block_has(k: u32, l: &[LStmt]) -> bool {
    l.iter().any(|s| matches!(s, LRule(r) if rule_kind(r) == k))
}

fn elab_block(rs: Rs, st: &EState, name: u32, body: &[LStmt]) -> Option<EState> {
    match assoc(name, &st.named) {
        Some(_) => None,
        None => {
            if !block_ok(None, false, body) || (rs.mixs && block_has(2, body) && block_has(4, body)) {
                return None;
            }
            let (st1, fin) = finish_current(st);
            let st2 = add_to_feature(&st1, fin);
            let st3 = match &st2.active {
                None => set_flags(&st2, flag0()),
                Some(_) => st2.clone(),
            };
            match elab_lstmts(rs, &set_cur_name(&st3, Some(name)), body) {
                None => None,
                Some(st4) => {
                    let (st5, cur) = finish_current(&st4);
                    match &st5.active {
                        Some(_) => Some(add_to_feature(&st5, cur)),
                        None => Some(set_flags(&st5, flag0())),
                    }
                }
            }
        }
    }
}

fn set_script_language(st: &EState, sys: LangSys, excl: bool) -> EState {
    let (st1, fin) = finish_current(st);
    let st2 = add_to_feature(&st1, fin);
    match &st2.active {
        Some(a) => set_active(&st2, Some(af_set_system(&st2.dls.1, a, sys, excl))),
        None => st2.clone(),
    }
}

fn elab_fstmt(rs: Rs, st: &EState, s: &FStmt) -> Option<EState> {
    match s {
        FS(s2) => elab_lstmt(rs, st, s2),
        FScript(t) => match &st.active {
            None => None,
            Some(a) => {
                if match &a.cur {
                    Some(sys) => ls_eqb(sys, &(*t, dflt)),
                    None => false,
                } {
                    Some(st.clone())
                } else {
                    Some(set_script_language(&set_flags(&set_script(st, Some(*t)), flag0()), (*t, dflt), false))
                }
            }
        },
        FLang(t, excl) => {
            let s = match st.script {
                Some(s) => s,
                None => DFLT,
            };
            Some(set_script_language(st, (s, *t), *excl))
        }
        FLookupRef(n) => match assoc(*n, &st.named) {
            Some(i) => {
                if rs.refc {
                    let (st1, fin) = finish_current(st);
                    Some(add_to_feature(&add_to_feature(&st1, fin), Some(*i)))
                } else {
                    Some(add_to_feature(st, Some(*i)))
                }
            }
            None => None,
        },
        FLookupBlock(n, body) => elab_block(rs, st, *n, body),
    }
}

fn elab_fstmts(rs: Rs, st: &EState, l: &[FStmt]) -> Option<EState> {
    let mut st = st.clone();
    for s in l {
        st = elab_fstmt(rs, &st, s)?;
    }
    Some(st)
}

/// GlyphClassDef: a glyph may not be put in two different classes
fn gdef_add(cls: u32, gs: &[Glyph], gd: &Gdef) -> Option<Gdef> {
    let mut gd = gd.clone();
    for &g in gs {
        match assoc(g, &gd) {
            Some(c) => {
                if *c == cls {
                } else {
                    return None;
                }
            }
            None => gd.push((g, cls)),
        }
    }
    Some(gd)
}

fn elab_top(rs: Rs, st: &EState, t: &Top) -> Option<EState> {
    match t {
        TLangSys(s, l) => {
            let (explicit, items) = &st.dls;
            let items2 = if *explicit {
                if ls_mem(&(*s, *l), items) {
                    items.clone()
                } else {
                    let mut i = items.clone();
                    i.push((*s, *l));
                    i
                }
            } else {
                vec![(*s, *l)]
            };
            let mut s2 = st.clone();
            s2.dls = (true, items2);
            Some(s2)
        }
        TClassDef(n, items) => match resolve_items(rs, &st.classes, items) {
            Some(c) => {
                let mut cl = st.classes.clone();
                cl.insert(0, (*n, c));
                Some(set_classes(st, cl))
            }
            None => None,
        },
        TLookup(n, body) => elab_block(rs, st, *n, body),
        TFeature(tg, body) => {
            // start_feature
            let st1 = set_flags(&set_active(st, Some(Active { tag: *tg, cur: None, lookups: vec![], sdl: vec![] })), flag0());
            match elab_fstmts(rs, &st1, body) {
                None => None,
                Some(st2) => {
                    // end_feature
                    let (st3, fin) = finish_current(&st2);
                    let st4 = add_to_feature(&st3, fin);
                    match &st4.active {
                        None => None,
                        Some(a) => {
                            let mut s = st4.clone();
                            s.cur = None;
                            s.cur_name = None;
                            s.flags = flag0();
                            s.active = None;
                            s.script = None;
                            s.feats = af_finish(&st4.dls.1, a, &st4.feats);
                            Some(s)
                        }
                    }
                }
            }
        }
        TGdef(b, l, m, c) => {
            match (resolve_items(rs, &st.classes, b), resolve_items(rs, &st.classes, l), resolve_items(rs, &st.classes, m), resolve_items(rs, &st.classes, c)) {
                (Some(b2), Some(l2), Some(m2), Some(c2)) => {
                    let g1 = gdef_add(1, &b2, &vec![])?;
                    let g2 = gdef_add(2, &l2, &g1)?;
                    let g3 = gdef_add(3, &m2, &g2)?;
                    let g4 = gdef_add(4, &c2, &g3)?;
                    let mut s = st.clone();
                    s.gdefs = g4;
                    Some(s)
                }
                _ => None,
            }
        }
    }
}

fn elab_tops(rs: Rs, st: &EState, l: &[Top]) -> Option<EState> {
    let mut st = st.clone();
    for t in l {
        st = elab_top(rs, &st, t)?;
    }
    Some(st)
}

fn elab_gen(incl: bool, gm: &[Str], delp: bool, eskip: bool, refc: bool, mixs: bool, p: &Prog) -> Option<EProg> {
    match elab_tops(Rs { incl, gm, delp, eskip, refc, mixs }, &es0(), p) {
        Some(st) => Some(EProg { gsub: st.gsub, gpos: st.gpos, feats: st.feats, gdef: st.gdefs }),
        None => None,
    }
}

/// the walk under the specification's reading: ranges include their end, a named block is one lookup
fn elab_spec(gm: &[Str], p: &Prog) -> Option<EProg> {
    elab_gen(true, gm, true, true, true, true, p)
}

/// lookup indices of a feature entry, per table, increasing and without repeats (dedupe_lookups)
fn gsub_ids(l: &[Lid]) -> Vec<usize> {
    let v: Vec<usize> = l.iter().filter_map(|i| if let LGsub(n) = i { Some(*n) } else { None }).collect();
    sort_uniq(&v)
}
fn gpos_ids(l: &[Lid]) -> Vec<usize> {
    let v: Vec<usize> = l.iter().filter_map(|i| if let LGpos(n) = i { Some(*n) } else { None }).collect();
    sort_uniq(&v)
}

// =================================================================================================
// Interp.v
// =================================================================================================
fn single_of(g: Glyph, r: &XRule) -> Option<Glyph> {
    match r {
        XSingle(tgt, repl) => match index_of(g, tgt) {
            Some(i) => repl.get(i).copied(),
            None => None,
        },
        _ => None,
    }
}

fn multi_of(g: Glyph, r: &XRule) -> Option<Vec<Glyph>> {
    match r {
        XSingle(tgt, repl) => match index_of(g, tgt) {
            Some(i) => repl.get(i).map(|x| vec![*x]),
            None => None,
        },
        XMulti(tgt, seqs) => match index_of(g, tgt) {
            Some(i) => seqs.get(i).cloned(),
            None => None,
        },
        _ => None,
    }
}

fn alt_of(g: Glyph, r: &XRule) -> Option<Vec<Glyph>> {
    match r {
        XAlt(t, alts) => {
            if g == *t {
                Some(alts.clone())
            } else {
                None
            }
        }
        _ => None,
    }
}

fn possingle_of(g: Glyph, r: &XRule) -> Option<Value> {
    match r {
        XPosSingle(tgt, v) => {
            if mem(g, tgt) {
                Some(*v)
            } else {
                None
            }
        }
        _ => None,
    }
}

fn paire_of(g1: Glyph, g2: Glyph, r: &XRule) -> Option<Value> {
    match r {
        XPairE(c1, c2, v) => {
            if mem(g1, c1) && mem(g2, c2) {
                Some(*v)
            } else {
                None
            }
        }
        _ => None,
    }
}

fn pairc_of(g1: Glyph, g2: Glyph, r: &XRule) -> Option<Value> {
    match r {
        XPairC(c1, c2, v) => {
            if mem(g1, c1) && mem(g2, c2) {
                Some(*v)
            } else {
                None
            }
        }
        _ => None,
    }
}

fn first_some<A, B>(f: impl Fn(&A) -> Option<B>, l: &[A]) -> Option<B> {
    for x in l {
        if let Some(y) = f(x) {
            return Some(y);
        }
    }
    None
}

// ---- class pairs: the specification's subtables ---------------------------------------------------
fn class_fits(classes: &[Vec<Glyph>], c: &[Glyph]) -> bool {
    classes.iter().any(|k| set_eqb(c, k)) || classes.iter().all(|k| disjoint(c, k))
}

fn group_fits(grp: &[XRule], c1: &[Glyph], c2: &[Glyph]) -> bool {
    let firsts: Vec<Vec<Glyph>> = grp.iter().filter_map(|r| if let XPairC(a, _, _) = r { Some(a.clone()) } else { None }).collect();
    let seconds: Vec<Vec<Glyph>> = grp.iter().filter_map(|r| if let XPairC(_, b, _) = r { Some(b.clone()) } else { None }).collect();
    class_fits(&firsts, c1) && class_fits(&seconds, c2)
}

/// groups in order; each group holds its rules in order
fn pair_groups(acc: Vec<Vec<XRule>>, rules: &[XRule]) -> Vec<Vec<XRule>> {
    let mut acc = acc;
    for r in rules {
        if let XPairC(c1, c2, v) = r {
            let n = acc.len();
            if n > 0 {
                if group_fits(&acc[n - 1], c1, c2) {
                    acc[n - 1].push(XPairC(c1.clone(), c2.clone(), *v));
                } else {
                    acc.push(vec![XPairC(c1.clone(), c2.clone(), *v)]);
                }
            } else {
                acc = vec![vec![XPairC(c1.clone(), c2.clone(), *v)]];
            }
        }
    }
    acc
}

fn group_covers(g1: Glyph, grp: &[XRule]) -> bool {
    grp.iter().any(|r| if let XPairC(c1, _, _) = r { mem(g1, c1) } else { false })
}

// ---- one position, GSUB ------------------------------------------------------------------------------
/// candidate of a ligature-lookup rule at (cur, after): number of components and the result
fn liga_cand(gd: &Gdef, fl: &LFlag, cur: Glyph, after: &[Glyph], r: &XRule) -> Option<(usize, (Vec<Glyph>, Vec<Glyph>))> {
    match r {
        XLiga(comps, lig) => match comps.split_first() {
            Some((c0, cs)) => {
                if mem(cur, c0) {
                    match match_seq(gd, fl, cs, after) {
                        Some((c, rest)) => {
                            let mut rr = skipped_of(&c);
                            rr.extend(rest);
                            Some((cs.len() + 1, (vec![*lig], rr)))
                        }
                        None => None,
                    }
                } else {
                    None
                }
            }
            None => None, // XLiga [] _ falls to the wildcard branch
        },
        XSingle(..) => match single_of(cur, r) {
            Some(g) => Some((1, (vec![g], after.to_vec()))),
            None => None,
        },
        _ => None,
    }
}

fn pick_liga(gd: &Gdef, fl: &LFlag, cur: Glyph, after: &[Glyph], rules: &[XRule], best: Option<(usize, (Vec<Glyph>, Vec<Glyph>))>) -> Edit {
    let mut best = best;
    for r in rules {
        best = match (liga_cand(gd, fl, cur, after, r), best) {
            (Some((n, res)), Some((m, bres))) => {
                if m < n {
                    Some((n, res))
                } else {
                    Some((m, bres))
                }
            }
            (Some(c), None) => Some(c),
            (None, b) => b,
        };
    }
    best.map(|x| x.1)
}

#[derive(Clone, Debug)]
enum SAction {
    ANamed(usize),
    AInline(XInline),
}
use SAction::*;

/// the nested actions of a contextual rule, in order of input position
fn chain_records(input: &[(Vec<Glyph>, Vec<usize>)], inl: &Option<XInline>) -> Vec<(usize, SAction)> {
    let mut out: Vec<(usize, SAction)> = match inl {
        Some(x) => vec![(0, AInline(x.clone()))],
        None => vec![],
    };
    for (i, (_, ids)) in input.iter().enumerate() {
        for &k in ids {
            out.push((i, ANamed(k)));
        }
    }
    out
}

/// an inline rule applied at the head of at_
fn inline_try(gd: &Gdef, fl: &LFlag, x: &XInline, at_: &[Glyph]) -> Edit {
    match at_.split_first() {
        None => None,
        Some((&cur, after)) => match x {
            XISingle(tgt, repl, _) => match single_of(cur, &XSingle(tgt.clone(), repl.clone())) {
                Some(g) => Some((vec![g], after.to_vec())),
                None => None,
            },
            XIMulti(tgt, seqs) => match multi_of(cur, &XMulti(tgt.clone(), seqs.clone())) {
                Some(s) => Some((s, after.to_vec())),
                None => None,
            },
            XILiga(comps, lig) => liga_cand(gd, fl, cur, after, &XLiga(comps.clone(), *lig)).map(|x| x.1),
        },
    }
}

fn act(ap: Ap, recn: RecN, fl: &LFlag, a: &SAction, before: &[Glyph], at_: &[Glyph]) -> Edit {
    match a {
        ANamed(k) => recn(*k, before, at_),
        AInline(x) => inline_try(ap.gd, fl, x, at_),
    }
}

fn chain_try(ap: Ap, recn: RecN, fl: &LFlag, before: &[Glyph], cur: Glyph, after: &[Glyph], r: &XRule) -> Edit {
    match r {
        XChain(back, input, look, xi) => match input.split_first() {
            Some(((p0, _ids0), ps)) => {
                if mem(cur, p0) {
                    let pats: Vec<Vec<Glyph>> = ps.iter().map(|x| x.0.clone()).collect();
                    match match_seq(ap.gd, fl, &pats, after) {
                        None => None,
                        Some((c, rest)) => {
                            if match_ctx(ap.gd, fl, back, before) && match_ctx(ap.gd, fl, look, &rest) {
                                let mut W = vec![cur];
                                W.extend(c.iter().map(|x| x.0));
                                let mut mp = vec![0usize];
                                mp.extend(matched_pos(1, &c));
                                let recf = |a: &SAction, b: &[Glyph], at_: &[Glyph]| act(ap, recn, fl, a, b, at_);
                                Some(apply_records::<SAction>(&recf, before, &chain_records(input, xi), &W, &rest, &mp))
                            } else {
                                None
                            }
                        }
                    }
                } else {
                    None
                }
            }
            None => None,
        },
        _ => None,
    }
}

fn src_try(ap: Ap, recn: RecN, sl: &SLookup, before: &[Glyph], cur: Glyph, after: &[Glyph]) -> Edit {
    let fl = &sl.flag;
    match sl.kind {
        KSingle => first_some(|r| single_of(cur, r), &sl.rules).map(|g| (vec![g], after.to_vec())),
        KMulti => first_some(|r| multi_of(cur, r), &sl.rules).map(|s| (s, after.to_vec())),
        KAlt => match first_some(|r| alt_of(cur, r), &sl.rules) {
            Some(alts) => match alts.get(ap.alt) {
                Some(g) => Some((vec![*g], after.to_vec())),
                None => None,
            },
            None => None,
        },
        KLiga => pick_liga(ap.gd, fl, cur, after, &sl.rules, None),
        KChain => first_some(|r| chain_try(ap, recn, fl, before, cur, after, r), &sl.rules),
        _ => None,
    }
}

fn src_at(ap: Ap, fuel: usize, lks: &[SLookup], k: usize, before: &[Glyph], at_: &[Glyph]) -> Edit {
    if fuel == 0 {
        return None;
    }
    let f = fuel - 1;
    match (lks.get(k), at_.split_first()) {
        (Some(sl), Some((&cur, after))) => {
            let rec = |k2: usize, b: &[Glyph], a: &[Glyph]| src_at(ap, f, lks, k2, b, a);
            src_try(ap, &rec, sl, before, cur, after)
        }
        _ => None,
    }
}

fn interp_gsub_lookup(ap: Ap, lks: &[SLookup], sl: &SLookup, s: &[Glyph]) -> Vec<Glyph> {
    let fuel = lks.len() + 1;
    let rec = |k: usize, b: &[Glyph], a: &[Glyph]| src_at(ap, fuel, lks, k, b, a);
    let try_ = |before: &[Glyph], cur: Glyph, after: &[Glyph]| src_try(ap, &rec, sl, before, cur, after);
    gsub_loop(ap.gd, s.len() + 1, &sl.flag, &try_, vec![], s)
}

// ---- one position, GPOS ---------------------------------------------------------------------------
fn src_try_pos(gd: &Gdef, sl: &SLookup, cur: Glyph, after: &[PItem]) -> PosRes {
    match sl.kind {
        KPosSingle => match first_some(|r| possingle_of(cur, r), &sl.rules) {
            Some(v) => Some((v, None)),
            None => None,
        },
        KPosPair => match next_nonskip(gd, &sl.flag, after) {
            None => None,
            Some((_, (g2, _), _)) => match first_some(|r| paire_of(cur, g2, r), &sl.rules) {
                Some(v) => Some((v, Some((vzero, false)))),
                None => {
                    let groups = pair_groups(vec![], &sl.rules);
                    match groups.iter().find(|grp| group_covers(cur, grp)) {
                        None => None,
                        Some(grp) => match first_some(|r| pairc_of(cur, g2, r), grp) {
                            Some(v) => Some((v, Some((vzero, false)))),
                            None => Some((vzero, Some((vzero, false)))),
                        },
                    }
                }
            },
        },
        _ => None,
    }
}

fn interp_gpos_lookup(gd: &Gdef, sl: &SLookup, s: &[PItem]) -> Vec<PItem> {
    let try_ = |cur: Glyph, after: &[PItem]| src_try_pos(gd, sl, cur, after);
    gpos_loop(gd, s.len() + 1, &sl.flag, &try_, vec![], s)
}

// ---- whole program ----------------------------------------------------------------------------------
fn feat_lids(e: &EProg, sel: &Selection) -> Vec<Lid> {
    let mut out = vec![];
    for ((f, s, l), ids) in &e.feats {
        if *s == sel.script && *l == sel.lang && mem(*f, &sel.feats) {
            out.extend_from_slice(ids);
        }
    }
    out
}

fn interp_gsub(e: &EProg, sel: &Selection, s: &[Glyph]) -> Vec<Glyph> {
    let mut s = s.to_vec();
    for k in gsub_ids(&feat_lids(e, sel)) {
        s = match e.gsub.get(k) {
            Some(sl) => interp_gsub_lookup(Ap { gd: &e.gdef, alt: sel.alt }, &e.gsub, sl, &s),
            None => s,
        };
    }
    s
}

fn interp_gpos(e: &EProg, sel: &Selection, s: &[PItem]) -> Vec<PItem> {
    let mut s = s.to_vec();
    for k in gpos_ids(&feat_lids(e, sel)) {
        s = match e.gpos.get(k) {
            Some(sl) => interp_gpos_lookup(&e.gdef, sl, &s),
            None => s,
        };
    }
    s
}

fn interp_fea(e: &EProg, sel: &Selection, s: &[Glyph]) -> Vec<PItem> {
    let g: Vec<PItem> = interp_gsub(e, sel, s).iter().map(|&g| (g, vzero)).collect();
    interp_gpos(e, sel, &g)
}

// =================================================================================================
// Wf.v
// =================================================================================================
/// a list of (key, value) bindings is a function
fn consistent<K, V>(keq: impl Fn(&K, &K) -> bool, veq: impl Fn(&V, &V) -> bool, l: &[(K, V)]) -> bool {
    for i in 0..l.len() {
        for j in i + 1..l.len() {
            if !(!keq(&l[i].0, &l[j].0) || veq(&l[i].1, &l[j].1)) {
                return false;
            }
        }
    }
    true
}

fn single_bindings(r: &XRule) -> Vec<(Glyph, Glyph)> {
    match r {
        XSingle(t, rp) => t.iter().cloned().zip(rp.iter().cloned()).collect(),
        _ => vec![],
    }
}
fn multi_bindings(r: &XRule) -> Vec<(Glyph, Vec<Glyph>)> {
    match r {
        XSingle(t, rp) => t.iter().cloned().zip(rp.iter().map(|g| vec![*g])).collect(),
        XMulti(t, seqs) => t.iter().cloned().zip(seqs.iter().cloned()).collect(),
        _ => vec![],
    }
}
fn alt_bindings(r: &XRule) -> Vec<(Glyph, Vec<Glyph>)> {
    match r {
        XAlt(t, alts) => vec![(*t, alts.clone())],
        _ => vec![],
    }
}
fn pos_bindings(r: &XRule) -> Vec<(Glyph, Value)> {
    match r {
        XPosSingle(t, v) => t.iter().map(|g| (*g, *v)).collect(),
        _ => vec![],
    }
}
fn pairc_bindings(r: &XRule) -> Vec<((Vec<Glyph>, Vec<Glyph>), Value)> {
    match r {
        XPairC(c1, c2, v) => vec![((c1.clone(), c2.clone()), *v)],
        _ => vec![],
    }
}
fn inline_multi_bindings(r: &XRule) -> Vec<(Glyph, Vec<Glyph>)> {
    match r {
        XChain(_, _, _, Some(XIMulti(t, seqs))) => t.iter().cloned().zip(seqs.iter().cloned()).collect(),
        _ => vec![],
    }
}
fn has_inline_liga(r: &XRule) -> bool {
    matches!(r, XChain(_, _, _, Some(XILiga(..))))
}

fn wf_lookup(sl: &SLookup) -> bool {
    let rules = &sl.rules;
    fn fm<T>(rules: &[XRule], f: impl Fn(&XRule) -> Vec<T>) -> Vec<T> {
        rules.iter().flat_map(|r| f(r)).collect()
    }
    match sl.kind {
        KSingle => consistent(|a: &Glyph, b: &Glyph| a == b, |a: &Glyph, b: &Glyph| a == b, &fm(rules, single_bindings)),
        KMulti => consistent(|a: &Glyph, b: &Glyph| a == b, |a: &Vec<Glyph>, b: &Vec<Glyph>| glyphs_eqb(a, b), &fm(rules, multi_bindings)),
        KAlt => consistent(|a: &Glyph, b: &Glyph| a == b, |a: &Vec<Glyph>, b: &Vec<Glyph>| glyphs_eqb(a, b), &fm(rules, alt_bindings)),
        KLiga => consistent(|a: &Vec<Glyph>, b: &Vec<Glyph>| glyphs_eqb(a, b), |a: &Glyph, b: &Glyph| a == b, &fm(rules, liga_entries_of)),
        KChain => {
            consistent(|a: &Glyph, b: &Glyph| a == b, |a: &Vec<Glyph>, b: &Vec<Glyph>| glyphs_eqb(a, b), &fm(rules, inline_multi_bindings)) && !rules.iter().any(has_inline_liga)
        }
        KPosSingle => consistent(|a: &Glyph, b: &Glyph| a == b, |a: &Value, b: &Value| veqb(*a, *b), &fm(rules, pos_bindings)),
        KPosPair => consistent(
            |a: &(Vec<Glyph>, Vec<Glyph>), b: &(Vec<Glyph>, Vec<Glyph>)| set_eqb(&a.0, &b.0) && set_eqb(&a.1, &b.1),
            |a: &Value, b: &Value| veqb(*a, *b),
            &fm(rules, pairc_bindings),
        ),
    }
}

fn wf_eprog(e: &EProg) -> bool {
    e.gsub.iter().all(wf_lookup) && e.gpos.iter().all(wf_lookup)
}

// =================================================================================================
// glyph universe, tags
// =================================================================================================
const GLYPHS: &[&str] = &[
    ".notdef", "a", "b", "c", "d", "e", "f", "i", "l", "x", "y", "z", "f_i", "f_l", "A.sc", "B.sc", "C.sc", "D.sc", "g01", "g02", "g03", "g04",
    "g05", "acutecomb", "gravecomb", "dotbelow",
];
const G_A: Glyph = 1;
const G_B: Glyph = 2;
const G_C: Glyph = 3;
const G_D: Glyph = 4;
const G_E: Glyph = 5;
const G_F: Glyph = 6;
const G_I: Glyph = 7;
const G_L: Glyph = 8;
const G_X: Glyph = 9;
const G_Y: Glyph = 10;
const G_Z: Glyph = 11;
const G_FI: Glyph = 12;
const G_FL: Glyph = 13;
const G_ASC: Glyph = 14;
const G_G01: Glyph = 18;
const G_ACUTE: Glyph = 23;
const G_GRAVE: Glyph = 24;
const G_DOTB: Glyph = 25;

fn to_str(s: &str) -> Str {
    s.bytes().map(|b| b as u32).collect()
}
fn from_str(s: &[u32]) -> String {
    s.iter().map(|&c| char::from_u32(c).unwrap_or('?')).collect()
}
fn tag(s: &str) -> Tag {
    let mut b = [b' '; 4];
    for (i, c) in s.bytes().take(4).enumerate() {
        b[i] = c;
    }
    u32::from_be_bytes(b)
}
fn tag_text(t: Tag) -> String {
    let b = t.to_be_bytes();
    String::from_utf8_lossy(&b).trim_end().to_string()
}
fn gname(names: &[&str], g: Glyph) -> String {
    names.get(g as usize).map(|s| s.to_string()).unwrap_or_else(|| format!("gid{}", g))
}

// =================================================================================================
// printer: feature-file text
// =================================================================================================
struct FeaP<'a> {
    names: &'a [&'a str],
}
impl<'a> FeaP<'a> {
    fn item(&self, it: &CItem) -> String {
        match it {
            IGlyph(g) => gname(self.names, *g),
            IRange(a, b) => format!("{}-{}", from_str(a), from_str(b)),
            IRef(c) => format!("@c{}", c),
        }
    }
    fn class(&self, items: &[CItem]) -> String {
        format!("[{}]", items.iter().map(|i| self.item(i)).collect::<Vec<_>>().join(" "))
    }
    /// a class where a bare `@name` is allowed
    fn class_or_ref(&self, items: &[CItem]) -> String {
        match items {
            [IRef(c)] => format!("@c{}", c),
            _ => self.class(items),
        }
    }
    fn goc(&self, o: &Goc) -> String {
        match o {
            OGlyph(g) => gname(self.names, *g),
            OClass(items) => self.class_or_ref(items),
        }
    }
    fn gocs(&self, l: &[Goc]) -> String {
        l.iter().map(|o| self.goc(o)).collect::<Vec<_>>().join(" ")
    }
    fn value(&self, v: &Value) -> String {
        if v.xp == 0 && v.yp == 0 && v.ya == 0 { format!("{}", v.xa) } else { format!("<{} {} {} {}>", v.xp, v.yp, v.xa, v.ya) }
    }
    fn flag(&self, f: &SFlag) -> String {
        let mut parts: Vec<String> = vec![];
        if f.rtl {
            parts.push("RightToLeft".into());
        }
        if f.ibase {
            parts.push("IgnoreBaseGlyphs".into());
        }
        if f.ilig {
            parts.push("IgnoreLigatures".into());
        }
        if f.imark {
            parts.push("IgnoreMarks".into());
        }
        if let Some(items) = &f.mattach {
            parts.push(format!("MarkAttachmentType {}", self.class_or_ref(items)));
        }
        if let Some(items) = &f.filter {
            parts.push(format!("UseMarkFilteringSet {}", self.class_or_ref(items)));
        }
        if parts.is_empty() { "lookupflag 0;".into() } else { format!("lookupflag {};", parts.join(" ")) }
    }
    fn rule(&self, r: &Rule) -> String {
        match r {
            RSingle(t, rp) => format!("sub {} by {};", self.goc(t), self.goc(rp)),
            RDelete(t) => format!("sub {} by NULL;", self.goc(t)),
            RMulti(t, rp) => format!("sub {} by {};", self.goc(t), self.gocs(rp)),
            RAlt(t, alts) => format!("sub {} from {};", gname(self.names, *t), self.class(alts)),
            RLiga(comps, lig) => format!("sub {} by {};", self.gocs(comps), gname(self.names, *lig)),
            RChain(back, input, look, inl) => {
                let mut parts: Vec<String> = vec!["sub".into()];
                for b in back {
                    parts.push(self.goc(b));
                }
                for (o, lks) in input {
                    let mut s = format!("{}'", self.goc(o));
                    for k in lks {
                        s.push_str(&format!(" lookup L{}", k));
                    }
                    parts.push(s);
                }
                for l in look {
                    parts.push(self.goc(l));
                }
                match inl {
                    InlNone => {}
                    InlNull => parts.push("by NULL".into()),
                    InlSub(repl) => parts.push(format!("by {}", self.gocs(repl))),
                }
                format!("{};", parts.join(" "))
            }
            RIgnore(back, input, look) => {
                let mut parts: Vec<String> = vec!["ignore sub".into()];
                for b in back {
                    parts.push(self.goc(b));
                }
                for o in input {
                    parts.push(format!("{}'", self.goc(o)));
                }
                for l in look {
                    parts.push(self.goc(l));
                }
                format!("{};", parts.join(" "))
            }
            RPosSingle(t, v) => format!("pos {} {};", self.goc(t), self.value(v)),
            RPosPair(en, a, b, v) => format!("{}pos {} {} {};", if *en { "enum " } else { "" }, self.goc(a), self.goc(b), self.value(v)),
        }
    }
    fn lstmt(&self, s: &LStmt) -> String {
        match s {
            LRule(r) => self.rule(r),
            LFlag(f) => self.flag(f),
            LClassDef(n, items) => format!("@c{} = {};", n, self.class(items)),
        }
    }
    fn block(&self, name: u32, body: &[LStmt], ind: &str) -> String {
        let mut s = format!("{}lookup L{} {{\n", ind, name);
        for st in body {
            s.push_str(&format!("{}  {}\n", ind, self.lstmt(st)));
        }
        s.push_str(&format!("{}}} L{};\n", ind, name));
        s
    }
    fn fstmt(&self, s: &FStmt) -> String {
        match s {
            FS(l) => format!("  {}\n", self.lstmt(l)),
            FScript(t) => format!("  script {};\n", tag_text(*t)),
            FLang(t, ex) => format!("  language {}{};\n", tag_text(*t), if *ex { " exclude_dflt" } else { "" }),
            FLookupRef(n) => format!("  lookup L{};\n", n),
            FLookupBlock(n, body) => self.block(*n, body, "  "),
        }
    }
    fn top(&self, t: &Top) -> String {
        match t {
            TLangSys(s, l) => format!("languagesystem {} {};\n", tag_text(*s), tag_text(*l)),
            TClassDef(n, items) => format!("@c{} = {};\n", n, self.class(items)),
            TLookup(n, body) => self.block(*n, body, ""),
            TFeature(tg, body) => {
                let mut s = format!("feature {} {{\n", tag_text(*tg));
                for st in body {
                    s.push_str(&self.fstmt(st));
                }
                s.push_str(&format!("}} {};\n", tag_text(*tg)));
                s
            }
            TGdef(b, l, m, c) => {
                let slot = |x: &Vec<CItem>| if x.is_empty() { String::new() } else { self.class(x) };
                format!("table GDEF {{\n  GlyphClassDef {}, {}, {}, {};\n}} GDEF;\n", slot(b), slot(l), slot(m), slot(c))
            }
        }
    }
    fn prog(&self, p: &Prog) -> String {
        p.iter().map(|t| self.top(t)).collect::<Vec<_>>().join("")
    }
}

// =================================================================================================
// printer: Gallina terms
// =================================================================================================
fn cq_n(n: u32) -> String {
    coq_n(n as u64)
}
fn cq_glyphs(l: &[Glyph]) -> String {
    coq_list(l, |g| cq_n(*g))
}
fn cq_gsets(l: &[Vec<Glyph>]) -> String {
    coq_list(l, |s| cq_glyphs(s))
}
fn cq_str(s: &[u32]) -> String {
    coq_list(s, |c| cq_n(*c))
}
fn cq_value(v: &Value) -> String {
    if *v == vzero { "vzero".into() } else { format!("(mkV {} {} {} {})", coq_z(v.xp), coq_z(v.yp), coq_z(v.xa), coq_z(v.ya)) }
}
fn cq_item(it: &CItem) -> String {
    match it {
        IGlyph(g) => format!("IGlyph {}", cq_n(*g)),
        IRange(a, b) => format!("IRange {} {}", cq_str(a), cq_str(b)),
        IRef(c) => format!("IRef {}", cq_n(*c)),
    }
}
fn cq_items(l: &[CItem]) -> String {
    coq_list(l, cq_item)
}
fn cq_goc(o: &Goc) -> String {
    match o {
        OGlyph(g) => format!("OGlyph {}", cq_n(*g)),
        OClass(items) => format!("OClass {}", cq_items(items)),
    }
}
fn cq_goc_p(o: &Goc) -> String {
    format!("({})", cq_goc(o))
}
fn cq_gocs(l: &[Goc]) -> String {
    coq_list(l, cq_goc)
}
fn cq_sflag(f: &SFlag) -> String {
    format!(
        "mkSF {} {} {} {} {} {}",
        coq_bool(f.rtl),
        coq_bool(f.ibase),
        coq_bool(f.ilig),
        coq_bool(f.imark),
        coq_opt(&f.filter, |i| cq_items(i)),
        coq_opt(&f.mattach, |i| cq_items(i))
    )
}
fn cq_rule(r: &Rule) -> String {
    match r {
        RSingle(t, rp) => format!("RSingle {} {}", cq_goc_p(t), cq_goc_p(rp)),
        RDelete(t) => format!("RDelete {}", cq_goc_p(t)),
        RMulti(t, rp) => format!("RMulti {} {}", cq_goc_p(t), cq_gocs(rp)),
        RAlt(t, alts) => format!("RAlt {} {}", cq_n(*t), cq_items(alts)),
        RLiga(comps, lig) => format!("RLiga {} {}", cq_gocs(comps), cq_n(*lig)),
        RChain(back, input, look, inl) => format!(
            "RChain {} {} {} {}",
            cq_gocs(back),
            coq_list(input, |(o, lks)| format!("({}, {})", cq_goc(o), coq_list(lks, |k| cq_n(*k)))),
            cq_gocs(look),
            match inl {
                InlNone => "InlNone".to_string(),
                InlNull => "InlNull".to_string(),
                InlSub(repl) => format!("(InlSub {})", cq_gocs(repl)),
            }
        ),
        RIgnore(back, input, look) => format!("RIgnore {} {} {}", cq_gocs(back), cq_gocs(input), cq_gocs(look)),
        RPosSingle(t, v) => format!("RPosSingle {} {}", cq_goc_p(t), cq_value(v)),
        RPosPair(en, a, b, v) => format!("RPosPair {} {} {} {}", coq_bool(*en), cq_goc_p(a), cq_goc_p(b), cq_value(v)),
    }
}
fn cq_lstmt(s: &LStmt) -> String {
    match s {
        LRule(r) => format!("LRule ({})", cq_rule(r)),
        LFlag(f) => format!("LFlag ({})", cq_sflag(f)),
        LClassDef(n, items) => format!("LClassDef {} {}", cq_n(*n), cq_items(items)),
    }
}
fn cq_fstmt(s: &FStmt) -> String {
    match s {
        FS(l) => format!("FS ({})", cq_lstmt(l)),
        FScript(t) => format!("FScript {}", cq_n(*t)),
        FLang(t, ex) => format!("FLang {} {}", cq_n(*t), coq_bool(*ex)),
        FLookupRef(n) => format!("FLookupRef {}", cq_n(*n)),
        FLookupBlock(n, body) => format!("FLookupBlock {} {}", cq_n(*n), coq_list(body, cq_lstmt)),
    }
}
fn cq_top(t: &Top) -> String {
    match t {
        TLangSys(s, l) => format!("TLangSys {} {}", cq_n(*s), cq_n(*l)),
        TClassDef(n, items) => format!("TClassDef {} {}", cq_n(*n), cq_items(items)),
        TLookup(n, body) => format!("TLookup {} {}", cq_n(*n), coq_list(body, cq_lstmt)),
        TFeature(tg, body) => format!("TFeature {} {}", cq_n(*tg), coq_list(body, cq_fstmt)),
        TGdef(b, l, m, c) => format!("TGdef {} {} {} {}", cq_items(b), cq_items(l), cq_items(m), cq_items(c)),
    }
}
fn cq_prog(p: &Prog) -> String {
    coq_list(p, cq_top)
}
fn cq_gm(names: &[&str]) -> String {
    coq_list(names, |n| coq_str(n))
}

fn cq_lflag(f: &LFlag) -> String {
    format!(
        "(mkF {} {} {} {} {} {})",
        coq_bool(f.rtl),
        coq_bool(f.ibase),
        coq_bool(f.ilig),
        coq_bool(f.imark),
        coq_opt(&f.filter, |g| cq_glyphs(g)),
        coq_opt(&f.mattach, |g| cq_glyphs(g))
    )
}
fn cq_vpair(p: &(Value, Value)) -> String {
    format!("({}, {})", cq_value(&p.0), cq_value(&p.1))
}
fn cq_classdef(cd: &[(Glyph, u32)]) -> String {
    coq_list(cd, |(g, c)| format!("({}, {})", cq_n(*g), cq_n(*c)))
}
fn cq_subtable(st: &Subtable) -> String {
    match st {
        STSingle(m) => format!("STSingle {}", coq_list(m, |(a, b)| format!("({}, {})", cq_n(*a), cq_n(*b)))),
        STMultiple(m) => format!("STMultiple {}", coq_list(m, |(a, s)| format!("({}, {})", cq_n(*a), cq_glyphs(s)))),
        STAlternate(m) => format!("STAlternate {}", coq_list(m, |(a, s)| format!("({}, {})", cq_n(*a), cq_glyphs(s)))),
        STLigature(m) => format!(
            "STLigature {}",
            coq_list(m, |(a, ligs)| format!("({}, {})", cq_n(*a), coq_list(ligs, |(c, l)| format!("({}, {})", cq_glyphs(c), cq_n(*l)))))
        ),
        STChain(rules) => format!(
            "STChain {}",
            coq_list(rules, |r| format!(
                "mkCR {} {} {} {}",
                cq_gsets(&r.back),
                cq_gsets(&r.input),
                cq_gsets(&r.look),
                coq_list(&r.recs, |(i, k)| format!("({}, {})", coq_nat(*i), coq_nat(*k)))
            ))
        ),
        STSinglePos(m) => format!("STSinglePos {}", coq_list(m, |(a, v)| format!("({}, {})", cq_n(*a), cq_value(v)))),
        STPairGlyph(second, m) => format!(
            "STPairGlyph {} {}",
            coq_bool(*second),
            coq_list(m, |(a, ps)| format!("({}, {})", cq_n(*a), coq_list(ps, |(b, vv)| format!("({}, {})", cq_n(*b), cq_vpair(vv)))))
        ),
        STPairClass(second, rows) => format!(
            "STPairClass {} {}",
            coq_bool(*second),
            coq_list(rows, |(c1, cols)| format!("({}, {})", cq_glyphs(c1), coq_list(cols, |(c2, vv)| format!("({}, {})", cq_glyphs(c2), cq_vpair(vv)))))
        ),
        STPairClassRaw(second, cov, cd1, cd2, recs) => format!(
            "STPairClassRaw {} {} {} {} {}",
            coq_bool(*second),
            cq_glyphs(cov),
            cq_classdef(cd1),
            cq_classdef(cd2),
            coq_list(recs, |row| coq_list(row, cq_vpair))
        ),
    }
}
fn cq_lookup(lk: &Lookup) -> String {
    format!("mkLookup {} {}", cq_lflag(&lk.flag), coq_list(&lk.subs, cq_subtable))
}
fn cq_table(t: &OtTable) -> String {
    format!(
        "(mkTable {} {} {})",
        coq_list(&t.lookups, cq_lookup),
        coq_list(&t.features, |(tg, lks)| format!("({}, {})", cq_n(*tg), coq_list(lks, |k| coq_nat(*k)))),
        coq_list(&t.langsys, |((s, l), fi)| format!("(({}, {}), {})", cq_n(*s), cq_n(*l), coq_list(fi, |k| coq_nat(*k))))
    )
}
fn cq_font(f: &OtFont) -> String {
    format!("(mkFont {} {} {})", cq_table(&f.gsub), cq_table(&f.gpos), cq_classdef(&f.gdef))
}
fn cq_sel(s: &Selection) -> String {
    format!("mkSel {} {} {} {}", cq_n(s.script), cq_n(s.lang), coq_list(&s.feats, |t| cq_n(*t)), coq_nat(s.alt))
}
fn cq_pitems(l: &[PItem]) -> String {
    coq_list(l, |(g, v)| format!("({}, {})", cq_n(*g), cq_value(v)))
}

// =================================================================================================
// the real implementation
// =================================================================================================
enum Outcome {
    Font(Vec<u8>),
    Rejected(String),
    Panic(String),
}

static PANIC_LOC: Mutex<Option<String>> = Mutex::new(None);

fn install_quiet_hook() {
    std::panic::set_hook(Box::new(|info| {
        let loc = match info.location() {
            Some(l) => {
                let f = l.file();
                let f = if let Some(r) = f.strip_prefix("/repo/") {
                    r.to_string()
                } else if let Some(p) = f.find("/registry/src/") {
                    // crate-relative path of a dependency
                    let rest = &f[p + "/registry/src/".len()..];
                    rest.splitn(2, '/').nth(1).unwrap_or(rest).to_string()
                } else {
                    f.to_string()
                };
                format!("{}:{}", f, l.line())
            }
            None => "unknown:0".to_string(),
        };
        *PANIC_LOC.lock().unwrap() = Some(loc);
    }));
}

fn compile_real(fea: &str, names: &[&str]) -> Outcome {
    let glyph_map = match fea_rs::GlyphMap::new(names.iter().copied()) {
        Ok(g) => g,
        Err(e) => return Outcome::Rejected(format!("glyph map: {:?}", e)),
    };
    let src: Arc<str> = fea.into();
    *PANIC_LOC.lock().unwrap() = None;
    let r = std::panic::catch_unwind(std::panic::AssertUnwindSafe(|| {
        fea_rs::Compiler::<fea_rs::compile::NopFeatureProvider, fea_rs::compile::NopVariationInfo>::new("f.fea", &glyph_map)
            .with_resolver(move |_p: &std::path::Path| Ok(src.clone()))
            .compile_binary()
    }));
    match r {
        Err(_) => Outcome::Panic(PANIC_LOC.lock().unwrap().clone().unwrap_or_else(|| "unknown:0".into())),
        Ok(Err(e)) => {
            let mut m = format!("{}", e);
            if m.len() > 600 {
                let mut k = 600;
                while !m.is_char_boundary(k) {
                    k -= 1;
                }
                m.truncate(k);
            }
            Outcome::Rejected(m)
        }
        Ok(Ok(bytes)) => Outcome::Font(bytes),
    }
}

// =================================================================================================
// hand-written decoder of GSUB / GPOS / GDEF
// =================================================================================================
type R<T> = Result<T, String>;
fn bad(s: &str) -> String {
    format!("malformed: {}", s)
}
fn unsup(s: &str) -> String {
    format!("unsupported: {}", s)
}
fn r16(b: &[u8], o: usize) -> R<u32> {
    match b.get(o..o + 2) {
        Some(x) => Ok(u16::from_be_bytes([x[0], x[1]]) as u32),
        None => Err(bad(&format!("read u16 at {} beyond table end {}", o, b.len()))),
    }
}
fn ri16(b: &[u8], o: usize) -> R<i64> {
    match b.get(o..o + 2) {
        Some(x) => Ok(i16::from_be_bytes([x[0], x[1]]) as i64),
        None => Err(bad(&format!("read i16 at {} beyond table end {}", o, b.len()))),
    }
}
fn r32(b: &[u8], o: usize) -> R<u32> {
    match b.get(o..o + 4) {
        Some(x) => Ok(u32::from_be_bytes([x[0], x[1], x[2], x[3]])),
        None => Err(bad(&format!("read u32 at {} beyond table end {}", o, b.len()))),
    }
}
fn r16s(b: &[u8], o: usize, n: usize) -> R<Vec<u32>> {
    (0..n).map(|i| r16(b, o + 2 * i)).collect()
}

/// Coverage table: glyphs in coverage-index order
fn dec_coverage(b: &[u8], o: usize) -> R<Vec<Glyph>> {
    match r16(b, o)? {
        1 => {
            let n = r16(b, o + 2)? as usize;
            r16s(b, o + 4, n)
        }
        2 => {
            let n = r16(b, o + 2)? as usize;
            let mut out: Vec<Glyph> = vec![];
            for i in 0..n {
                let s = r16(b, o + 4 + 6 * i)?;
                let e = r16(b, o + 6 + 6 * i)?;
                let ci = r16(b, o + 8 + 6 * i)? as usize;
                if e < s {
                    return Err(bad("coverage range end < start"));
                }
                if ci != out.len() {
                    return Err(bad("coverage range startCoverageIndex not contiguous"));
                }
                for g in s..=e {
                    out.push(g);
                }
            }
            Ok(out)
        }
        f => Err(bad(&format!("coverage format {}", f))),
    }
}

/// ClassDef table: (glyph, class) for the glyphs with a non-zero class
fn dec_classdef(b: &[u8], o: usize) -> R<Vec<(Glyph, u32)>> {
    let mut out = vec![];
    match r16(b, o)? {
        1 => {
            let start = r16(b, o + 2)?;
            let n = r16(b, o + 4)? as usize;
            for i in 0..n {
                let c = r16(b, o + 6 + 2 * i)?;
                if c != 0 {
                    out.push((start + i as u32, c));
                }
            }
        }
        2 => {
            let n = r16(b, o + 2)? as usize;
            for i in 0..n {
                let s = r16(b, o + 4 + 6 * i)?;
                let e = r16(b, o + 6 + 6 * i)?;
                let c = r16(b, o + 8 + 6 * i)?;
                if e < s {
                    return Err(bad("classdef range end < start"));
                }
                for g in s..=e {
                    if c != 0 && assoc(g, &out).is_none() {
                        out.push((g, c));
                    }
                }
            }
        }
        f => return Err(bad(&format!("classdef format {}", f))),
    }
    Ok(out)
}

fn class_set(cd: &[(Glyph, u32)], c: u32, ng: u32) -> Vec<Glyph> {
    (0..ng).filter(|&g| class_in(cd, g) == c).collect()
}

fn value_size(fmt: u32) -> usize {
    2 * (fmt & 0xff).count_ones() as usize
}
fn dec_value(b: &[u8], o: usize, fmt: u32) -> R<Value> {
    if fmt & 0xff00 != 0 {
        return Err(unsup(&format!("valueFormat {:#x}", fmt)));
    }
    let mut v = vzero;
    let mut p = o;
    for bit in 0..8 {
        if fmt & (1 << bit) != 0 {
            let x = ri16(b, p)?;
            p += 2;
            match bit {
                0 => v.xp = x,
                1 => v.yp = x,
                2 => v.xa = x,
                3 => v.ya = x,
                _ => {
                    if x != 0 {
                        return Err(unsup("device / variation-index table in a value record"));
                    }
                }
            }
        }
    }
    Ok(v)
}

fn dec_seq_records(b: &[u8], o: usize, n: usize) -> R<Vec<(usize, usize)>> {
    (0..n).map(|i| Ok((r16(b, o + 4 * i)? as usize, r16(b, o + 4 * i + 2)? as usize))).collect()
}

fn singletons(l: &[u32]) -> Vec<Vec<Glyph>> {
    l.iter().map(|&g| vec![g]).collect()
}

/// one GSUB/GPOS subtable at absolute offset `o` of table `b`
fn dec_subtable(b: &[u8], o: usize, ty: u32, is_gpos: bool, ng: u32) -> R<Subtable> {
    let fmt = r16(b, o)?;
    if !is_gpos {
        match (ty, fmt) {
            (1, 1) => {
                let cov = dec_coverage(b, o + r16(b, o + 2)? as usize)?;
                let delta = ri16(b, o + 4)?;
                Ok(STSingle(cov.iter().map(|&g| (g, ((g as i64 + delta).rem_euclid(65536)) as u32)).collect()))
            }
            (1, 2) => {
                let cov = dec_coverage(b, o + r16(b, o + 2)? as usize)?;
                let n = r16(b, o + 4)? as usize;
                if n != cov.len() {
                    return Err(bad("single subst 2: count != coverage"));
                }
                let subs = r16s(b, o + 6, n)?;
                Ok(STSingle(cov.into_iter().zip(subs.into_iter()).collect()))
            }
            (2, 1) | (3, 1) => {
                let cov = dec_coverage(b, o + r16(b, o + 2)? as usize)?;
                let n = r16(b, o + 4)? as usize;
                if n != cov.len() {
                    return Err(bad("multiple/alternate subst: count != coverage"));
                }
                let mut m = vec![];
                for i in 0..n {
                    let so = o + r16(b, o + 6 + 2 * i)? as usize;
                    let k = r16(b, so)? as usize;
                    m.push((cov[i], r16s(b, so + 2, k)?));
                }
                Ok(if ty == 2 { STMultiple(m) } else { STAlternate(m) })
            }
            (4, 1) => {
                let cov = dec_coverage(b, o + r16(b, o + 2)? as usize)?;
                let n = r16(b, o + 4)? as usize;
                if n != cov.len() {
                    return Err(bad("ligature subst: count != coverage"));
                }
                let mut m = vec![];
                for i in 0..n {
                    let so = o + r16(b, o + 6 + 2 * i)? as usize;
                    let k = r16(b, so)? as usize;
                    let mut ligs = vec![];
                    for j in 0..k {
                        let lo = so + r16(b, so + 2 + 2 * j)? as usize;
                        let lig = r16(b, lo)?;
                        let cc = r16(b, lo + 2)? as usize;
                        if cc == 0 {
                            return Err(bad("ligature with componentCount 0"));
                        }
                        ligs.push((r16s(b, lo + 4, cc - 1)?, lig));
                    }
                    m.push((cov[i], ligs));
                }
                Ok(STLigature(m))
            }
            (5, 1) => {
                let cov = dec_coverage(b, o + r16(b, o + 2)? as usize)?;
                let n = r16(b, o + 4)? as usize;
                if n != cov.len() {
                    return Err(bad("context 1: ruleSetCount != coverage"));
                }
                let mut rules = vec![];
                for i in 0..n {
                    let off = r16(b, o + 6 + 2 * i)? as usize;
                    if off == 0 {
                        continue;
                    }
                    let so = o + off;
                    let k = r16(b, so)? as usize;
                    for j in 0..k {
                        let ro = so + r16(b, so + 2 + 2 * j)? as usize;
                        let gc = r16(b, ro)? as usize;
                        let rc = r16(b, ro + 2)? as usize;
                        if gc == 0 {
                            return Err(bad("context rule with glyphCount 0"));
                        }
                        let mut input = vec![vec![cov[i]]];
                        input.extend(singletons(&r16s(b, ro + 4, gc - 1)?));
                        rules.push(ChainRule { back: vec![], input, look: vec![], recs: dec_seq_records(b, ro + 4 + 2 * (gc - 1), rc)? });
                    }
                }
                Ok(STChain(rules))
            }
            (5, 2) => {
                let cov = dec_coverage(b, o + r16(b, o + 2)? as usize)?;
                let cd = dec_classdef(b, o + r16(b, o + 4)? as usize)?;
                let n = r16(b, o + 6)? as usize;
                let mut rules = vec![];
                for c in 0..n {
                    let off = r16(b, o + 8 + 2 * c)? as usize;
                    if off == 0 {
                        continue;
                    }
                    let so = o + off;
                    let k = r16(b, so)? as usize;
                    let first: Vec<Glyph> = cov.iter().cloned().filter(|&g| class_in(&cd, g) == c as u32).collect();
                    for j in 0..k {
                        let ro = so + r16(b, so + 2 + 2 * j)? as usize;
                        let gc = r16(b, ro)? as usize;
                        let rc = r16(b, ro + 2)? as usize;
                        if gc == 0 {
                            return Err(bad("context class rule with glyphCount 0"));
                        }
                        let mut input = vec![first.clone()];
                        input.extend(r16s(b, ro + 4, gc - 1)?.iter().map(|&cl| class_set(&cd, cl, ng)));
                        rules.push(ChainRule { back: vec![], input, look: vec![], recs: dec_seq_records(b, ro + 4 + 2 * (gc - 1), rc)? });
                    }
                }
                Ok(STChain(rules))
            }
            (5, 3) => {
                let gc = r16(b, o + 2)? as usize;
                let rc = r16(b, o + 4)? as usize;
                let mut input = vec![];
                for i in 0..gc {
                    input.push(dec_coverage(b, o + r16(b, o + 6 + 2 * i)? as usize)?);
                }
                Ok(STChain(vec![ChainRule { back: vec![], input, look: vec![], recs: dec_seq_records(b, o + 6 + 2 * gc, rc)? }]))
            }
            (6, 1) => {
                let cov = dec_coverage(b, o + r16(b, o + 2)? as usize)?;
                let n = r16(b, o + 4)? as usize;
                if n != cov.len() {
                    return Err(bad("chain context 1: ruleSetCount != coverage"));
                }
                let mut rules = vec![];
                for i in 0..n {
                    let off = r16(b, o + 6 + 2 * i)? as usize;
                    if off == 0 {
                        continue;
                    }
                    let so = o + off;
                    let k = r16(b, so)? as usize;
                    for j in 0..k {
                        let mut p = so + r16(b, so + 2 + 2 * j)? as usize;
                        let bc = r16(b, p)? as usize;
                        let back = singletons(&r16s(b, p + 2, bc)?);
                        p += 2 + 2 * bc;
                        let ic = r16(b, p)? as usize;
                        if ic == 0 {
                            return Err(bad("chain rule with inputGlyphCount 0"));
                        }
                        let mut input = vec![vec![cov[i]]];
                        input.extend(singletons(&r16s(b, p + 2, ic - 1)?));
                        p += 2 + 2 * (ic - 1);
                        let lc = r16(b, p)? as usize;
                        let look = singletons(&r16s(b, p + 2, lc)?);
                        p += 2 + 2 * lc;
                        let rc = r16(b, p)? as usize;
                        rules.push(ChainRule { back, input, look, recs: dec_seq_records(b, p + 2, rc)? });
                    }
                }
                Ok(STChain(rules))
            }
            (6, 2) => {
                let cov = dec_coverage(b, o + r16(b, o + 2)? as usize)?;
                let cdo = |k: usize| -> R<Vec<(Glyph, u32)>> {
                    let off = r16(b, o + 4 + 2 * k)? as usize;
                    if off == 0 { Ok(vec![]) } else { dec_classdef(b, o + off) }
                };
                let bcd = cdo(0)?;
                let icd = cdo(1)?;
                let lcd = cdo(2)?;
                let n = r16(b, o + 10)? as usize;
                let mut rules = vec![];
                for c in 0..n {
                    let off = r16(b, o + 12 + 2 * c)? as usize;
                    if off == 0 {
                        continue;
                    }
                    let so = o + off;
                    let k = r16(b, so)? as usize;
                    let first: Vec<Glyph> = cov.iter().cloned().filter(|&g| class_in(&icd, g) == c as u32).collect();
                    for j in 0..k {
                        let mut p = so + r16(b, so + 2 + 2 * j)? as usize;
                        let bc = r16(b, p)? as usize;
                        let back: Vec<Vec<Glyph>> = r16s(b, p + 2, bc)?.iter().map(|&cl| class_set(&bcd, cl, ng)).collect();
                        p += 2 + 2 * bc;
                        let ic = r16(b, p)? as usize;
                        if ic == 0 {
                            return Err(bad("chain class rule with inputGlyphCount 0"));
                        }
                        let mut input = vec![first.clone()];
                        input.extend(r16s(b, p + 2, ic - 1)?.iter().map(|&cl| class_set(&icd, cl, ng)));
                        p += 2 + 2 * (ic - 1);
                        let lc = r16(b, p)? as usize;
                        let look: Vec<Vec<Glyph>> = r16s(b, p + 2, lc)?.iter().map(|&cl| class_set(&lcd, cl, ng)).collect();
                        p += 2 + 2 * lc;
                        let rc = r16(b, p)? as usize;
                        rules.push(ChainRule { back, input, look, recs: dec_seq_records(b, p + 2, rc)? });
                    }
                }
                Ok(STChain(rules))
            }
            (6, 3) => {
                let mut p = o + 2;
                let covs = |p: &mut usize| -> R<Vec<Vec<Glyph>>> {
                    let n = r16(b, *p)? as usize;
                    let mut out = vec![];
                    for i in 0..n {
                        out.push(dec_coverage(b, o + r16(b, *p + 2 + 2 * i)? as usize)?);
                    }
                    *p += 2 + 2 * n;
                    Ok(out)
                };
                let back = covs(&mut p)?;
                let input = covs(&mut p)?;
                let look = covs(&mut p)?;
                let rc = r16(b, p)? as usize;
                Ok(STChain(vec![ChainRule { back, input, look, recs: dec_seq_records(b, p + 2, rc)? }]))
            }
            _ => Err(unsup(&format!("GSUB lookup type {} format {}", ty, fmt))),
        }
    } else {
        match (ty, fmt) {
            (1, 1) => {
                let cov = dec_coverage(b, o + r16(b, o + 2)? as usize)?;
                let vf = r16(b, o + 4)?;
                let v = dec_value(b, o + 6, vf)?;
                Ok(STSinglePos(cov.iter().map(|&g| (g, v)).collect()))
            }
            (1, 2) => {
                let cov = dec_coverage(b, o + r16(b, o + 2)? as usize)?;
                let vf = r16(b, o + 4)?;
                let n = r16(b, o + 6)? as usize;
                if n != cov.len() {
                    return Err(bad("single pos 2: count != coverage"));
                }
                let sz = value_size(vf);
                let mut m = vec![];
                for i in 0..n {
                    m.push((cov[i], dec_value(b, o + 8 + sz * i, vf)?));
                }
                Ok(STSinglePos(m))
            }
            (2, 1) => {
                let cov = dec_coverage(b, o + r16(b, o + 2)? as usize)?;
                let vf1 = r16(b, o + 4)?;
                let vf2 = r16(b, o + 6)?;
                let n = r16(b, o + 8)? as usize;
                if n != cov.len() {
                    return Err(bad("pair pos 1: pairSetCount != coverage"));
                }
                let (s1, s2) = (value_size(vf1), value_size(vf2));
                let mut m = vec![];
                for i in 0..n {
                    let so = o + r16(b, o + 10 + 2 * i)? as usize;
                    let k = r16(b, so)? as usize;
                    let mut ps = vec![];
                    for j in 0..k {
                        let ro = so + 2 + j * (2 + s1 + s2);
                        ps.push((r16(b, ro)?, (dec_value(b, ro + 2, vf1)?, dec_value(b, ro + 2 + s1, vf2)?)));
                    }
                    m.push((cov[i], ps));
                }
                Ok(STPairGlyph(vf2 != 0, m))
            }
            (2, 2) => {
                let cov = dec_coverage(b, o + r16(b, o + 2)? as usize)?;
                let vf1 = r16(b, o + 4)?;
                let vf2 = r16(b, o + 6)?;
                let cd1 = dec_classdef(b, o + r16(b, o + 8)? as usize)?;
                let cd2 = dec_classdef(b, o + r16(b, o + 10)? as usize)?;
                let c1 = r16(b, o + 12)? as usize;
                let c2 = r16(b, o + 14)? as usize;
                let (s1, s2) = (value_size(vf1), value_size(vf2));
                let mut recs = vec![];
                for i in 0..c1 {
                    let mut row = vec![];
                    for j in 0..c2 {
                        let ro = o + 16 + (i * c2 + j) * (s1 + s2);
                        row.push((dec_value(b, ro, vf1)?, dec_value(b, ro + s1, vf2)?));
                    }
                    recs.push(row);
                }
                Ok(STPairClassRaw(vf2 != 0, cov, cd1, cd2, recs))
            }
            _ => Err(unsup(&format!("GPOS lookup type {} format {}", ty, fmt))),
        }
    }
}

fn dec_lookup(b: &[u8], lo: usize, is_gpos: bool, marksets: &[Vec<Glyph>], attach: &[(Glyph, u32)], ng: u32) -> R<Lookup> {
    let ty = r16(b, lo)?;
    let flag = r16(b, lo + 2)?;
    let n = r16(b, lo + 4)? as usize;
    // MarkAttachmentType: the marks whose GDEF mark attachment class is the one in the high byte
    let mattach: Option<Vec<Glyph>> = if flag >> 8 != 0 {
        let c = (flag >> 8) as u32;
        let mut v: Vec<Glyph> = attach.iter().filter(|(_, k)| *k == c).map(|(g, _)| *g).collect();
        v.sort();
        Some(v)
    } else {
        None
    };
    if flag & 0xe0 != 0 {
        return Err(unsup(&format!("lookup flag with reserved bits {:#x}", flag)));
    }
    let ext_ty = if is_gpos { 9 } else { 7 };
    let mut subs = vec![];
    for i in 0..n {
        let so = lo + r16(b, lo + 6 + 2 * i)? as usize;
        let (ty2, so2) = if ty == ext_ty {
            if r16(b, so)? != 1 {
                return Err(bad("extension subtable format"));
            }
            let t2 = r16(b, so + 2)?;
            if t2 == ext_ty {
                return Err(bad("extension of an extension"));
            }
            (t2, so + r32(b, so + 4)? as usize)
        } else {
            (ty, so)
        };
        subs.push(dec_subtable(b, so2, ty2, is_gpos, ng)?);
    }
    let filter = if flag & 0x10 != 0 {
        let idx = r16(b, lo + 6 + 2 * n)? as usize;
        match marksets.get(idx) {
            Some(s) => Some(s.clone()),
            None => return Err(bad(&format!("markFilteringSet {} not in GDEF MarkGlyphSetsDef", idx))),
        }
    } else {
        None
    };
    Ok(Lookup { flag: mkF(flag & 1 != 0, flag & 2 != 0, flag & 4 != 0, flag & 8 != 0, filter, mattach), subs })
}

fn dec_layout(b: &[u8], is_gpos: bool, marksets: &[Vec<Glyph>], attach: &[(Glyph, u32)], ng: u32) -> R<OtTable> {
    let major = r16(b, 0)?;
    let minor = r16(b, 2)?;
    if major != 1 || minor > 1 {
        return Err(unsup(&format!("layout table version {}.{}", major, minor)));
    }
    let slo = r16(b, 4)? as usize;
    let flo = r16(b, 6)? as usize;
    let llo = r16(b, 8)? as usize;
    if minor == 1 && r32(b, 10)? != 0 {
        return Err(unsup("FeatureVariations"));
    }
    let mut t = OtTable::default();
    // LookupList
    if llo != 0 {
        let n = r16(b, llo)? as usize;
        for i in 0..n {
            let lo = llo + r16(b, llo + 2 + 2 * i)? as usize;
            t.lookups.push(dec_lookup(b, lo, is_gpos, marksets, attach, ng)?);
        }
    }
    // FeatureList
    if flo != 0 {
        let n = r16(b, flo)? as usize;
        for i in 0..n {
            let tg = r32(b, flo + 2 + 6 * i)?;
            let fo = flo + r16(b, flo + 6 + 6 * i)? as usize;
            // featureParamsOffset is not interpreted
            let k = r16(b, fo + 2)? as usize;
            t.features.push((tg, r16s(b, fo + 4, k)?.iter().map(|&x| x as usize).collect()));
        }
    }
    // ScriptList
    if slo != 0 {
        let n = r16(b, slo)? as usize;
        let langsys = |lo: usize| -> R<Vec<usize>> {
            // lookupOrderOffset (reserved), requiredFeatureIndex, featureIndexCount, indices
            let req = r16(b, lo + 2)?;
            let k = r16(b, lo + 4)? as usize;
            let mut v: Vec<usize> = vec![];
            if req != 0xffff {
                v.push(req as usize);
            }
            v.extend(r16s(b, lo + 6, k)?.iter().map(|&x| x as usize));
            Ok(v)
        };
        for i in 0..n {
            let stag = r32(b, slo + 2 + 6 * i)?;
            let so = slo + r16(b, slo + 6 + 6 * i)? as usize;
            let dl = r16(b, so)? as usize;
            if dl != 0 {
                t.langsys.push(((stag, dflt), langsys(so + dl)?));
            }
            let k = r16(b, so + 2)? as usize;
            for j in 0..k {
                let ltag = r32(b, so + 4 + 6 * j)?;
                let lo = so + r16(b, so + 8 + 6 * j)? as usize;
                t.langsys.push(((stag, ltag), langsys(lo)?));
            }
        }
    }
    Ok(t)
}

/// GDEF: glyph classes, mark glyph sets, mark attachment classes
fn dec_gdef(b: &[u8]) -> R<(Gdef, Vec<Vec<Glyph>>, Vec<(Glyph, u32)>)> {
    let major = r16(b, 0)?;
    let minor = r16(b, 2)?;
    if major != 1 {
        return Err(unsup(&format!("GDEF version {}.{}", major, minor)));
    }
    let gco = r16(b, 4)? as usize;
    let mut gd: Gdef = if gco != 0 { dec_classdef(b, gco)? } else { vec![] };
    gd.sort();
    let mao = r16(b, 10)? as usize;
    let attach: Vec<(Glyph, u32)> = if mao != 0 { dec_classdef(b, mao)? } else { vec![] };
    let mut sets = vec![];
    if minor >= 2 {
        let mo = r16(b, 12)? as usize;
        if mo != 0 {
            if r16(b, mo)? != 1 {
                return Err(bad("MarkGlyphSetsDef format"));
            }
            let n = r16(b, mo + 2)? as usize;
            for i in 0..n {
                sets.push(dec_coverage(b, mo + r32(b, mo + 4 + 4 * i)? as usize)?);
            }
        }
    }
    Ok((gd, sets, attach))
}

fn decode_font(bytes: &[u8], ng: u32) -> R<OtFont> {
    let (gdef, sets, attach) = match sfnt::table(bytes, b"GDEF") {
        Some(t) => dec_gdef(t)?,
        None => (vec![], vec![], vec![]),
    };
    let gsub = match sfnt::table(bytes, b"GSUB") {
        Some(t) => dec_layout(t, false, &sets, &attach, ng)?,
        None => OtTable::default(),
    };
    let gpos = match sfnt::table(bytes, b"GPOS") {
        Some(t) => dec_layout(t, true, &sets, &attach, ng)?,
        None => OtTable::default(),
    };
    Ok(OtFont { gsub, gpos, gdef })
}

// ---- human-readable dump of the decoded tables (debug mode) ---------------------------------------
fn show_glyphs(names: &[&str], l: &[Glyph]) -> String {
    format!("[{}]", l.iter().map(|&g| gname(names, g)).collect::<Vec<_>>().join(" "))
}
fn show_value(v: &Value) -> String {
    format!("<{} {} {} {}>", v.xp, v.yp, v.xa, v.ya)
}
fn show_subtable(names: &[&str], st: &Subtable) -> String {
    let gn = |g: Glyph| gname(names, g);
    match st {
        STSingle(m) => format!("Single {{{}}}", m.iter().map(|(a, b)| format!("{}->{}", gn(*a), gn(*b))).collect::<Vec<_>>().join(", ")),
        STMultiple(m) => format!("Multiple {{{}}}", m.iter().map(|(a, s)| format!("{}->{}", gn(*a), show_glyphs(names, s))).collect::<Vec<_>>().join(", ")),
        STAlternate(m) => format!("Alternate {{{}}}", m.iter().map(|(a, s)| format!("{}->{}", gn(*a), show_glyphs(names, s))).collect::<Vec<_>>().join(", ")),
        STLigature(m) => format!(
            "Ligature {{{}}}",
            m.iter()
                .map(|(a, ligs)| format!("{}: {}", gn(*a), ligs.iter().map(|(c, l)| format!("+{}->{}", show_glyphs(names, c), gn(*l))).collect::<Vec<_>>().join(" | ")))
                .collect::<Vec<_>>()
                .join("; ")
        ),
        STChain(rules) => format!(
            "Chain {{\n{}\n      }}",
            rules
                .iter()
                .map(|r| format!(
                    "        back(closest first)={} input={} look={} recs={:?}",
                    r.back.iter().map(|s| show_glyphs(names, s)).collect::<Vec<_>>().join(""),
                    r.input.iter().map(|s| show_glyphs(names, s)).collect::<Vec<_>>().join(""),
                    r.look.iter().map(|s| show_glyphs(names, s)).collect::<Vec<_>>().join(""),
                    r.recs
                ))
                .collect::<Vec<_>>()
                .join("\n")
        ),
        STSinglePos(m) => format!("SinglePos {{{}}}", m.iter().map(|(a, v)| format!("{} {}", gn(*a), show_value(v))).collect::<Vec<_>>().join(", ")),
        STPairGlyph(second, m) => format!(
            "PairGlyph second={} {{{}}}",
            second,
            m.iter()
                .map(|(a, ps)| format!("{}: {}", gn(*a), ps.iter().map(|(b, (v1, v2))| format!("{} {} {}", gn(*b), show_value(v1), show_value(v2))).collect::<Vec<_>>().join(" | ")))
                .collect::<Vec<_>>()
                .join("; ")
        ),
        STPairClass(..) => "PairClass (builder form)".to_string(),
        STPairClassRaw(second, cov, cd1, cd2, recs) => format!(
            "PairClassRaw second={} cov={} cd1={{{}}} cd2={{{}}} recs={}",
            second,
            show_glyphs(names, cov),
            cd1.iter().map(|(g, c)| format!("{}:{}", gn(*g), c)).collect::<Vec<_>>().join(" "),
            cd2.iter().map(|(g, c)| format!("{}:{}", gn(*g), c)).collect::<Vec<_>>().join(" "),
            recs.iter().map(|row| format!("[{}]", row.iter().map(|(v1, v2)| format!("{}{}", show_value(v1), show_value(v2))).collect::<Vec<_>>().join(" "))).collect::<Vec<_>>().join(" ")
        ),
    }
}
fn show_table(names: &[&str], name: &str, t: &OtTable) -> String {
    let mut s = format!("{}:\n", name);
    for (i, lk) in t.lookups.iter().enumerate() {
        s.push_str(&format!(
            "  lookup {} flag(rtl={} ibase={} ilig={} imark={} filter={} mattach={})\n",
            i,
            lk.flag.rtl,
            lk.flag.ibase,
            lk.flag.ilig,
            lk.flag.imark,
            match &lk.flag.filter {
                Some(f) => show_glyphs(names, f),
                None => "-".into(),
            },
            match &lk.flag.mattach {
                Some(f) => show_glyphs(names, f),
                None => "-".into(),
            }
        ));
        for st in &lk.subs {
            s.push_str(&format!("      {}\n", show_subtable(names, st)));
        }
    }
    for (i, (tg, lks)) in t.features.iter().enumerate() {
        s.push_str(&format!("  feature {} '{}' lookups {:?}\n", i, tag_text(*tg), lks));
    }
    for ((sc, lg), fi) in &t.langsys {
        s.push_str(&format!("  langsys {}/{} features {:?}\n", tag_text(*sc), tag_text(*lg), fi));
    }
    s
}
fn show_font(names: &[&str], f: &OtFont) -> String {
    format!(
        "{}{}GDEF classes: {}\n",
        show_table(names, "GSUB", &f.gsub),
        show_table(names, "GPOS", &f.gpos),
        f.gdef.iter().map(|(g, c)| format!("{}:{}", gname(names, *g), c)).collect::<Vec<_>>().join(" ")
    )
}
fn show_pitems(names: &[&str], l: &[PItem]) -> String {
    l.iter().map(|(g, v)| if *v == vzero { gname(names, *g) } else { format!("{}{}", gname(names, *g), show_value(v)) }).collect::<Vec<_>>().join(" ")
}
fn show_sel(s: &Selection) -> String {
    format!("{}/{} feats=[{}] alt={}", tag_text(s.script), tag_text(s.lang), s.feats.iter().map(|t| tag_text(*t)).collect::<Vec<_>>().join(","), s.alt)
}

// =================================================================================================
// generator
// =================================================================================================
#[derive(Clone, Copy, PartialEq, Eq, Debug)]
enum Theme {
    Chain,
    Liga,
    Flags,
    Kern,
    Ctx,
    LangSys,
    Range,
    Mixed,
}
fn theme_name(t: Theme) -> &'static str {
    match t {
        Theme::Chain => "simple",
        Theme::Liga => "liga",
        Theme::Flags => "flags",
        Theme::Kern => "kern",
        Theme::Ctx => "ctx",
        Theme::LangSys => "langsys",
        Theme::Range => "ranges",
        Theme::Mixed => "mixed",
    }
}

#[derive(Clone, Debug)]
struct NamedInfo {
    name: u32,
    kind: Option<Kind>, // None = empty lookup
    dom: Vec<Glyph>,    // glyphs the lookup does something at
}

const RANGES: &[(&str, &str)] = &[
    ("a", "c"),
    ("a", "e"),
    ("b", "d"),
    ("c", "e"),
    ("a", "b"),
    ("x", "z"),
    ("x", "y"),
    ("A.sc", "C.sc"),
    ("A.sc", "D.sc"),
    ("B.sc", "D.sc"),
    ("g01", "g03"),
    ("g01", "g04"),
    ("g02", "g05"),
    ("g01", "g05"),
    ("g03", "g04"),
    ("g02", "g04"),
];

struct Gen<'r> {
    rng: &'r mut Rng,
    theme: Theme,
    focus: Vec<Glyph>,
    outs: Vec<Glyph>,
    marks: Vec<Glyph>,
    use_flags: bool,
    use_ranges: bool,
    use_scripts: bool,
    conflict: bool,
    conflicts_made: usize,
    env: Env, // classes under the specification's reading (incl = true)
    class_names: Vec<u32>,
    named: Vec<NamedInfo>,
    next_class: u32,
    next_lookup: u32,
    w: [u64; 7], // single multi alt liga chain possingle pospair
    gm: Vec<Str>,
    has_alt: bool,
    inl_hist: Vec<(Glyph, Glyph)>, // inline single substitutions of the contextual lookup being generated
    hot: Option<u32>,       // a class that rules refer to by name and that is redefined along the way
    hot_marks: Option<u32>, // the same for a class of marks used by lookupflag statements
    attach_parts: [Vec<Glyph>; 2], // the MarkAttachmentType classes of this program (disjoint: GDEF gives a mark one class)
}

impl<'r> Gen<'r> {
    fn new(rng: &'r mut Rng, theme: Theme, conflict: bool) -> Self {
        let letters = [G_A, G_B, G_C, G_D, G_E];
        let mut focus: Vec<Glyph>;
        let mut outs: Vec<Glyph> = vec![G_X, G_Y, G_Z];
        let mut marks: Vec<Glyph> = vec![];
        let mut use_flags = false;
        let mut use_ranges = rng.chance(1, 8);
        let mut use_scripts = rng.chance(1, 6);
        let pick_part = rng.chance(1, 2);
        let w: [u64; 7];
        match theme {
            Theme::Chain => {
                let mut l = letters.to_vec();
                rng.shuffle(&mut l);
                focus = l[..rng.range(3, 5) as usize].to_vec();
                outs.extend([G_ASC, G_ASC + 1, G_ASC + 2]);
                w = [40, 15, 8, 8, 6, 4, 4];
            }
            Theme::Liga => {
                focus = vec![G_F, G_I, G_L];
                focus.push(*rng.pick(&[G_A, G_B, G_X]));
                if rng.chance(1, 3) {
                    focus.push(G_FI);
                }
                outs = vec![G_FI, G_FL, G_X, G_Y, G_Z];
                w = [15, 8, 2, 50, 12, 3, 3];
            }
            Theme::Flags => {
                focus = if rng.chance(1, 2) { vec![G_A, G_B, G_F, G_I] } else { vec![G_F, G_I, G_L, G_A] };
                outs = vec![G_FI, G_FL, G_X, G_Y];
                marks = vec![G_ACUTE, G_GRAVE];
                use_flags = true;
                w = [10, 5, 2, 30, 18, 8, 25];
            }
            Theme::Kern => {
                let mut l = vec![G_A, G_B, G_C, G_D, G_X, G_Y];
                rng.shuffle(&mut l);
                focus = l[..rng.range(3, 5) as usize].to_vec();
                if rng.chance(1, 4) {
                    marks = vec![G_ACUTE];
                    use_flags = true;
                }
                w = [6, 2, 1, 3, 2, 22, 64];
            }
            Theme::Ctx => {
                let mut l = vec![G_A, G_B, G_C, G_D, G_E, G_X];
                rng.shuffle(&mut l);
                focus = l[..rng.range(3, 5) as usize].to_vec();
                if rng.chance(1, 3) {
                    focus = vec![G_F, G_I, G_L, G_A];
                    outs = vec![G_FI, G_FL, G_X, G_Y, G_Z];
                }
                if rng.chance(1, 5) {
                    marks = vec![G_ACUTE];
                    use_flags = true;
                }
                w = [14, 8, 3, 10, 60, 2, 3];
            }
            Theme::LangSys => {
                let mut l = letters.to_vec();
                rng.shuffle(&mut l);
                focus = l[..rng.range(3, 4) as usize].to_vec();
                use_scripts = true;
                w = [45, 8, 4, 8, 8, 10, 17];
            }
            Theme::Range => {
                use_ranges = true;
                focus = match rng.below(4) {
                    0 => vec![G_G01, G_G01 + 1, G_G01 + 2, G_G01 + 3, G_A],
                    1 => vec![G_G01 + 1, G_G01 + 2, G_G01 + 3, G_G01 + 4],
                    2 => vec![G_A, G_B, G_C, G_G01 + 2, G_G01 + 3],
                    _ => vec![G_A, G_B, G_C, G_D, G_E],
                };
                outs.extend([G_ASC, G_ASC + 1, G_ASC + 2, G_ASC + 3]);
                w = [40, 8, 6, 6, 12, 12, 16];
            }
            Theme::Mixed => {
                let mut l = vec![G_A, G_B, G_C, G_F, G_I, G_X];
                rng.shuffle(&mut l);
                focus = l[..rng.range(4, 5) as usize].to_vec();
                outs = vec![G_FI, G_FL, G_X, G_Y, G_Z];
                if rng.chance(1, 3) {
                    marks = vec![G_ACUTE];
                    use_flags = true;
                }
                w = [20, 10, 5, 15, 20, 10, 20];
            }
        }
        if theme != Theme::Range && theme != Theme::LangSys && rng.chance(1, 10) {
            use_ranges = true;
        }
        if theme == Theme::LangSys {
            use_scripts = true;
        } else if theme == Theme::Ctx || theme == Theme::Flags {
            use_scripts = use_scripts && rng.chance(1, 2);
        }
        Gen {
            rng,
            theme,
            focus,
            outs,
            marks,
            use_flags,
            use_ranges,
            use_scripts,
            conflict,
            conflicts_made: 0,
            env: vec![],
            class_names: vec![],
            named: vec![],
            next_class: 1,
            next_lookup: 1,
            w,
            gm: GLYPHS.iter().map(|s| to_str(s)).collect(),
            has_alt: false,
            inl_hist: vec![],
            hot: None,
            hot_marks: None,
            attach_parts: if pick_part { [vec![G_ACUTE], vec![G_GRAVE, G_DOTB]] } else { [vec![G_ACUTE, G_GRAVE], vec![G_DOTB]] },
        }
    }

    fn rs(&self) -> Rs<'_> {
        Rs { incl: true, gm: &self.gm, delp: true, eskip: true, refc: true, mixs: true }
    }
    fn resolve(&self, items: &[CItem]) -> Vec<Glyph> {
        resolve_items(self.rs(), &self.env, items).unwrap_or_default()
    }
    fn rg(&self, o: &Goc) -> RGoc {
        resolve_goc(self.rs(), &self.env, o).unwrap_or(RC(vec![]))
    }
    fn rl(&self, o: &Goc) -> Vec<Glyph> {
        rgoc_list(&self.rg(o))
    }

    /// a glyph of the focus alphabet (rarely a mark in play or another glyph)
    fn fg(&mut self) -> Glyph {
        if !self.marks.is_empty() && self.rng.chance(1, 14) {
            return *self.rng.pick(&self.marks);
        }
        if self.rng.chance(1, 16) {
            return *self.rng.pick(&self.outs);
        }
        *self.rng.pick(&self.focus)
    }
    /// an output glyph: often again a focus glyph, so that lookups feed each other
    fn og(&mut self) -> Glyph {
        if self.rng.chance(1, 2) { *self.rng.pick(&self.focus) } else { *self.rng.pick(&self.outs) }
    }
    fn distinct_focus(&mut self, k: usize) -> Vec<Glyph> {
        let mut l = self.focus.clone();
        if self.rng.chance(1, 5) {
            for &o in &self.outs.clone() {
                if !l.contains(&o) {
                    l.push(o);
                }
            }
        }
        self.rng.shuffle(&mut l);
        l.truncate(k.max(1));
        l
    }
    fn range_item(&mut self) -> CItem {
        // prefer a range that touches the focus alphabet
        let mut cands: Vec<(&str, &str)> = vec![];
        for &(a, b) in RANGES {
            let names = range_named_spec(&to_str(a), &to_str(b)).unwrap_or_default();
            let gs = lookup_all(&self.gm, &names).unwrap_or_default();
            let hits = gs.iter().filter(|g| self.focus.contains(g)).count();
            if hits >= 2 {
                cands.push((a, b));
            }
        }
        let (a, b) = if cands.is_empty() || self.rng.chance(1, 6) { *self.rng.pick(RANGES) } else { *self.rng.pick(&cands) };
        IRange(to_str(a), to_str(b))
    }
    /// glyph class items resolving (under the specification's reading) to between kmin and kmax + glyphs
    fn class_items(&mut self, kmin: usize, kmax: usize) -> Vec<CItem> {
        if let Some(h) = self.hot {
            if self.rng.chance(1, 2) && !self.resolve(&[IRef(h)]).is_empty() {
                let mut v = vec![IRef(h)];
                if self.rng.chance(1, 5) {
                    let g = self.fg();
                    if !self.resolve(&v).contains(&g) {
                        v.push(IGlyph(g));
                    }
                }
                return v;
            }
        }
        let k = self.rng.range(kmin as i64, kmax as i64) as usize;
        let r = self.rng.below(100);
        if self.use_ranges && r < if self.theme == Theme::Range { 55 } else { 30 } {
            let mut v = vec![self.range_item()];
            if self.rng.chance(1, 4) {
                let g = self.fg();
                if !self.resolve(&v).contains(&g) {
                    if self.rng.chance(1, 2) { v.push(IGlyph(g)) } else { v.insert(0, IGlyph(g)) }
                }
            }
            v
        } else if !self.class_names.is_empty() && r < 70 && self.rng.chance(1, 2) {
            let c = *self.rng.pick(&self.class_names);
            let mut v = vec![IRef(c)];
            if self.rng.chance(1, 4) {
                let g = self.fg();
                if !self.resolve(&v).contains(&g) {
                    v.push(IGlyph(g));
                }
            }
            v
        } else {
            self.distinct_focus(k).into_iter().map(IGlyph).collect()
        }
    }
    fn class_goc(&mut self, kmin: usize, kmax: usize) -> Goc {
        OClass(self.class_items(kmin, kmax))
    }
    /// glyph, or with probability pc/100 a class
    fn goc(&mut self, pc: u64) -> Goc {
        if self.rng.below(100) < pc { self.class_goc(2, 3) } else { OGlyph(self.fg()) }
    }
    /// a class literal of exactly n distinct glyphs, disjoint from `avoid` when possible
    fn class_of_len(&mut self, n: usize, prefer_outs: bool) -> Goc {
        let mut pool: Vec<Glyph> = if prefer_outs { self.outs.clone() } else { self.focus.clone() };
        for &g in self.focus.iter().chain(self.outs.iter()).chain([G_ASC, G_ASC + 1, G_ASC + 2, G_ASC + 3, G_X, G_Y, G_Z].iter()) {
            if !pool.contains(&g) {
                pool.push(g);
            }
        }
        let head = pool.len().min(n + 2);
        let mut h = pool[..head].to_vec();
        self.rng.shuffle(&mut h);
        let mut v: Vec<Glyph> = h;
        for &g in &pool[head..] {
            v.push(g);
        }
        v.truncate(n);
        // an alphabetic range of the right length sometimes
        if self.use_ranges && self.rng.chance(1, 3) {
            let opts: Vec<(&str, &str)> = RANGES
                .iter()
                .cloned()
                .filter(|(a, b)| !a.starts_with('g') && range_named_spec(&to_str(a), &to_str(b)).map(|l| l.len()) == Some(n))
                .collect();
            if !opts.is_empty() {
                let (a, b) = *self.rng.pick(&opts);
                return OClass(vec![IRange(to_str(a), to_str(b))]);
            }
        }
        OClass(v.into_iter().map(IGlyph).collect())
    }
    fn value(&mut self) -> Value {
        let r = self.rng.below(100);
        if r < 10 {
            vzero
        } else if r < 70 {
            mkV(0, 0, *self.rng.pick(&[-50i64, -30, -20, -10, 10, 15, 25, 40]), 0)
        } else {
            mkV(self.rng.range(-3, 3) * 5, self.rng.range(-2, 2) * 10, self.rng.range(-4, 4) * 5, if self.rng.chance(1, 3) { self.rng.range(-2, 2) * 5 } else { 0 })
        }
    }
    fn sflag(&mut self) -> SFlag {
        let r = self.rng.below(100);
        let mut f = SFlag { rtl: false, ibase: false, ilig: false, imark: false, filter: None, mattach: None };
        if r < 40 {
            f.imark = true;
        } else if r < 52 {
            f.ilig = true;
        } else if r < 60 {
            f.ibase = true;
        } else if r < 78 {
            if let Some(h) = self.hot_marks {
                if self.rng.chance(2, 3) {
                    f.filter = Some(vec![IRef(h)]);
                    return f;
                }
            }
            let m = if self.marks.is_empty() { G_ACUTE } else { *self.rng.pick(&self.marks) };
            let mut items = vec![IGlyph(m)];
            if self.rng.chance(1, 4) {
                items.push(IGlyph(G_DOTB));
            }
            f.filter = Some(items);
        } else if r < 86 {
            f.imark = true;
            f.ilig = true;
        } else if r < 90 {
            f.rtl = true;
            f.imark = self.rng.chance(1, 2);
        } else if r < 94 {
            f.rtl = true;
            f.ibase = true;
            f.ilig = true;
            f.imark = true;
            f.filter = Some(vec![IGlyph(G_ACUTE)]);
        } else if r < 98 {
            let k = self.rng.below(2) as usize;
            f.mattach = Some(self.attach_parts[k].iter().map(|g| IGlyph(*g)).collect());
        }
        // else: all false = `lookupflag 0;`
        f
    }
    /// two lookupflag states that differ only in the class of UseMarkFilteringSet / MarkAttachmentType
    /// (or not at all): rules of one type after each of them are two lookups (one, if the states are equal)
    fn flag_pair(&mut self) -> (SFlag, SFlag) {
        const SETS: [&[Glyph]; 6] = [&[G_ACUTE], &[G_DOTB], &[G_GRAVE], &[G_ACUTE, G_GRAVE], &[G_GRAVE, G_DOTB], &[G_ACUTE, G_DOTB]];
        let items = |l: &[Glyph]| -> Vec<CItem> { l.iter().map(|g| IGlyph(*g)).collect() };
        let mut base = SFlag { rtl: false, ibase: false, ilig: false, imark: false, filter: None, mattach: None };
        if self.rng.chance(1, 6) {
            base.rtl = true;
        }
        if self.rng.chance(1, 8) {
            base.ilig = true;
        }
        let i = self.rng.below(6) as usize;
        let mut j = self.rng.below(5) as usize;
        if j >= i {
            j += 1;
        }
        let (mut f1, mut f2) = (base.clone(), base.clone());
        match self.rng.below(100) {
            0..=54 => {
                f1.filter = Some(items(SETS[i]));
                f2.filter = Some(items(SETS[j]));
            }
            55..=69 => {
                f1.mattach = Some(items(&self.attach_parts[0]));
                f2.mattach = Some(items(&self.attach_parts[1]));
            }
            70..=79 => {
                let k = self.rng.below(2) as usize;
                f1.mattach = Some(items(&self.attach_parts[k]));
                f2.mattach = f1.mattach.clone();
                f1.filter = Some(items(SETS[i]));
                f2.filter = Some(items(SETS[j]));
            }
            80..=89 => {
                // the same state twice (the set written in another order): one lookup
                f1.filter = Some(items(SETS[i]));
                let mut rev: Vec<Glyph> = SETS[i].to_vec();
                rev.reverse();
                f2.filter = Some(items(&rev));
            }
            _ => {
                // filter set against none / against IgnoreMarks
                f1.filter = Some(items(SETS[i]));
                if self.rng.chance(1, 2) {
                    f2.imark = true;
                }
            }
        }
        if self.rng.chance(1, 2) { (f1, f2) } else { (f2, f1) }
    }
    fn def_class(&mut self) -> (u32, Vec<CItem>) {
        // a new name, or (1 in 4) a redefinition of an existing one
        let name = if !self.class_names.is_empty() && self.rng.chance(1, 4) {
            *self.rng.pick(&self.class_names)
        } else {
            let n = self.next_class;
            self.next_class += 1;
            n
        };
        let items = self.class_items(2, 3);
        let c = self.resolve(&items);
        self.env.insert(0, (name, c));
        if !self.class_names.contains(&name) {
            self.class_names.push(name);
        }
        (name, items)
    }

    /// redefine the hot class (or the hot class of marks) with different contents: from scratch, or in
    /// the incremental form `@c = [@c more];`.  Rules generated from here on see the new definition.
    fn redefine_hot(&mut self) -> Option<(u32, Vec<CItem>)> {
        let marks = self.hot_marks.is_some() && (self.hot.is_none() || self.rng.chance(1, 3));
        let name = if marks { self.hot_marks? } else { self.hot? };
        let cur = self.resolve(&[IRef(name)]);
        let pool: Vec<Glyph> = if marks {
            vec![G_ACUTE, G_GRAVE, G_DOTB]
        } else {
            let mut l = self.focus.clone();
            l.extend(self.outs.iter().copied().filter(|g| !self.focus.contains(g)));
            l
        };
        let fresh: Vec<Glyph> = pool.iter().copied().filter(|g| !cur.contains(g)).collect();
        let items: Vec<CItem> = if !fresh.is_empty() && self.rng.chance(1, 2) {
            // incremental
            let g = *self.rng.pick(&fresh);
            if self.rng.chance(2, 3) { vec![IRef(name), IGlyph(g)] } else { vec![IGlyph(g), IRef(name)] }
        } else {
            let mut l = pool.clone();
            self.rng.shuffle(&mut l);
            let k = if marks { self.rng.range(1, 2) } else { self.rng.range(2, 3) } as usize;
            l.truncate(k.min(l.len()).max(1));
            let mut a = l.clone();
            a.sort();
            let mut b = cur.clone();
            b.sort();
            if a == b {
                return None;
            }
            l.into_iter().map(IGlyph).collect()
        };
        let c = self.resolve(&items);
        self.env.insert(0, (name, c));
        Some((name, items))
    }

    // ---- rule runs --------------------------------------------------------------------------------
    fn run_single(&mut self, n: usize, used: &mut Vec<(Glyph, Vec<Glyph>)>) -> Vec<Rule> {
        let mut out = vec![];
        for _ in 0..n {
            for _try in 0..6 {
                let r = self.rng.below(100);
                let (t, rp): (Goc, Goc) = if r < 55 {
                    (OGlyph(self.fg()), OGlyph(self.og()))
                } else if r < 72 {
                    (self.class_goc(2, 3), OGlyph(self.og()))
                } else if r < 78 {
                    // class by one-glyph class
                    (self.class_goc(2, 3), OClass(vec![IGlyph(self.og())]))
                } else {
                    let t = self.class_goc(2, 4);
                    let n = self.rl(&t).len();
                    if n == 0 {
                        continue;
                    }
                    let po = self.rng.chance(1, 2);
                    let rp = self.class_of_len(n, po);
                    (t, rp)
                };
                let (tg, rl) = match single_pairs(&self.rg(&t), &self.rg(&rp)) {
                    Some(x) => x,
                    None => continue,
                };
                if tg.is_empty() {
                    continue;
                }
                // a target listed twice in one class is a conflict of its own
                let mut local: Vec<(Glyph, Vec<Glyph>)> = used.clone();
                let mut ok = true;
                for (a, b) in tg.iter().zip(rl.iter()) {
                    match assoc(*a, &local) {
                        Some(x) => {
                            if x != &vec![*b] {
                                ok = false
                            }
                        }
                        None => local.push((*a, vec![*b])),
                    }
                }
                if !ok {
                    continue;
                }
                *used = local;
                out.push(RSingle(t, rp));
                break;
            }
        }
        out
    }
    fn run_multi(&mut self, n: usize, used: &mut Vec<(Glyph, Vec<Glyph>)>) -> Vec<Rule> {
        let mut out = vec![];
        for _ in 0..n {
            for _try in 0..6 {
                let r = self.rng.below(100);
                let rule = if r < 18 {
                    RDelete(if self.rng.chance(1, 4) { self.class_goc(2, 2) } else { OGlyph(self.fg()) })
                } else if r < 80 {
                    let k = if self.rng.chance(1, 4) { 3 } else { 2 };
                    RMulti(OGlyph(self.fg()), (0..k).map(|_| OGlyph(self.og())).collect())
                } else if r < 90 {
                    // class target, glyph replacements
                    RMulti(self.class_goc(2, 3), (0..2).map(|_| OGlyph(self.og())).collect())
                } else {
                    // class target, a class of equal length among the replacements
                    let t = self.class_goc(2, 3);
                    let n = self.rl(&t).len();
                    if n == 0 {
                        continue;
                    }
                    let c = self.class_of_len(n, true);
                    if self.rng.chance(1, 2) { RMulti(t, vec![c, OGlyph(self.og())]) } else { RMulti(t, vec![OGlyph(self.og()), c]) }
                };
                let (tg, seqs) = match &rule {
                    RDelete(t) => {
                        let tg = self.rl(t);
                        let s = tg.iter().map(|_| vec![]).collect::<Vec<Vec<Glyph>>>();
                        (tg, s)
                    }
                    RMulti(t, rp) => {
                        let rr: Vec<RGoc> = rp.iter().map(|o| self.rg(o)).collect();
                        match multi_seqs(&self.rg(t), &rr) {
                            Some(x) => x,
                            None => continue,
                        }
                    }
                    _ => continue,
                };
                if tg.is_empty() {
                    continue;
                }
                let mut local = used.clone();
                let mut ok = true;
                for (a, s) in tg.iter().zip(seqs.iter()) {
                    match assoc(*a, &local) {
                        Some(x) => {
                            if x != s {
                                ok = false
                            }
                        }
                        None => local.push((*a, s.clone())),
                    }
                }
                if !ok {
                    continue;
                }
                *used = local;
                out.push(rule);
                break;
            }
        }
        out
    }
    fn run_alt(&mut self, n: usize) -> Vec<Rule> {
        let mut out = vec![];
        let mut seen: Vec<Glyph> = vec![];
        for _ in 0..n {
            let t = self.fg();
            if seen.contains(&t) {
                continue;
            }
            seen.push(t);
            let k = self.rng.range(1, 3) as usize;
            let alts: Vec<CItem> = if self.rng.chance(1, 5) { self.class_items(2, 3) } else { (0..k).map(|_| IGlyph(self.og())).collect() };
            out.push(RAlt(t, alts));
            self.has_alt = true;
        }
        out
    }
    fn run_liga(&mut self, n: usize, entries: &mut Vec<(Vec<Glyph>, Glyph)>) -> Vec<Rule> {
        let mut out: Vec<Rule> = vec![];
        for _ in 0..n {
            for _try in 0..6 {
                let len = match self.rng.below(100) {
                    0..=54 => 2,
                    55..=92 => 3,
                    _ => 4,
                };
                let mut comps: Vec<Goc> = vec![];
                for i in 0..len {
                    let g = if i < 2 && self.rng.chance(2, 3) {
                        // few distinct openings: rules share prefixes
                        self.focus[self.rng.below(2.min(self.focus.len() as u64)) as usize + if i == 1 && self.focus.len() > 2 { 1 } else { 0 }]
                    } else {
                        self.fg()
                    };
                    if self.rng.chance(1, 9) {
                        let mut o = self.fg();
                        if o == g {
                            o = self.focus[0];
                        }
                        if o != g {
                            comps.push(OClass(vec![IGlyph(g), IGlyph(o)]));
                            continue;
                        }
                    }
                    comps.push(OGlyph(g));
                }
                let lig = if self.rng.chance(3, 4) { *self.rng.pick(&self.outs) } else { self.og() };
                let cs: Vec<Vec<Glyph>> = comps.iter().map(|c| self.rl(c)).collect();
                let new: Vec<(Vec<Glyph>, Glyph)> = sequences(&cs).into_iter().map(|s| (s, lig)).collect();
                if new.iter().any(|(s, l)| entries.iter().any(|(s2, l2)| s == s2 && l != l2)) {
                    continue;
                }
                entries.extend(new);
                out.push(RLiga(comps, lig));
                break;
            }
        }
        match self.rng.below(3) {
            0 => out.sort_by_key(|r| if let RLiga(c, _) = r { c.len() } else { 0 }),
            1 => out.sort_by_key(|r| if let RLiga(c, _) = r { 100 - c.len() } else { 0 }),
            _ => {}
        }
        out
    }
    fn gsub_named(&self) -> Vec<NamedInfo> {
        self.named.iter().filter(|n| matches!(n.kind, Some(KSingle) | Some(KMulti) | Some(KAlt) | Some(KLiga) | Some(KChain))).cloned().collect()
    }
    fn ctx_goc(&mut self) -> Goc {
        self.goc(22)
    }
    fn r_chain(&mut self) -> Rule {
        let cnt = |rng: &mut Rng| match rng.below(100) {
            0..=44 => 0usize,
            45..=84 => 1,
            _ => 2,
        };
        let nb = cnt(&mut *self.rng);
        let nl = cnt(&mut *self.rng);
        let back: Vec<Goc> = (0..nb).map(|_| self.ctx_goc()).collect();
        let look: Vec<Goc> = (0..nl).map(|_| self.ctx_goc()).collect();
        let named = self.gsub_named();
        let r = self.rng.below(100);
        if !named.is_empty() && r < 55 {
            let ni = match self.rng.below(100) {
                0..=39 => 1,
                40..=79 => 2,
                _ => 3,
            };
            let mut input: Vec<(Goc, Vec<u32>)> = vec![];
            let mut total = 0;
            for i in 0..ni {
                let k = match self.rng.below(100) {
                    0..=34 => 0,
                    35..=87 => 1,
                    _ => 2,
                };
                let k = if i == ni - 1 && total == 0 && self.rng.chance(9, 10) { k.max(1) } else { k };
                let mut lks: Vec<u32> = vec![];
                let mut dom: Vec<Glyph> = vec![];
                for _ in 0..k {
                    let nm = self.rng.pick(&named).clone();
                    lks.push(nm.name);
                    dom.extend(nm.dom);
                }
                total += k;
                let o = if !dom.is_empty() && self.rng.chance(3, 4) {
                    let g = *self.rng.pick(&dom);
                    if self.rng.chance(1, 5) {
                        let mut o2 = self.fg();
                        if o2 == g {
                            o2 = self.focus[0];
                        }
                        if o2 != g { OClass(vec![IGlyph(g), IGlyph(o2)]) } else { OGlyph(g) }
                    } else {
                        OGlyph(g)
                    }
                } else {
                    self.ctx_goc()
                };
                input.push((o, lks));
            }
            return RChain(back, input, look, InlNone);
        }
        let r2 = self.rng.below(100);
        if r2 < 36 {
            // inline single
            if !self.inl_hist.is_empty() && self.rng.chance(1, 3) {
                // a class target that repeats, not in first place, the target of an earlier inline rule of this
                // lookup, with another replacement
                let (g, r0) = *self.rng.pick(&self.inl_hist);
                let mut o = self.fg();
                for _ in 0..8 {
                    if o != g {
                        break;
                    }
                    o = self.fg();
                }
                let mut r1 = self.og();
                for _ in 0..8 {
                    if r1 != r0 {
                        break;
                    }
                    r1 = self.og();
                }
                if o != g {
                    return RChain(back, vec![(OClass(vec![IGlyph(o), IGlyph(g)]), vec![])], look, InlSub(vec![OGlyph(r1)]));
                }
            }
            if self.rng.chance(2, 5) {
                let t = self.class_goc(2, 3);
                let n = self.rl(&t).len().max(1);
                let rp = if self.rng.chance(1, 3) { self.class_of_len(n, true) } else { OGlyph(self.og()) };
                RChain(back, vec![(t, vec![])], look, InlSub(vec![rp]))
            } else {
                let (g, r) = (self.fg(), self.og());
                self.inl_hist.push((g, r));
                RChain(back, vec![(OGlyph(g), vec![])], look, InlSub(vec![OGlyph(r)]))
            }
        } else if r2 < 52 {
            // inline multiple
            let k = if self.rng.chance(1, 4) { 3 } else { 2 };
            RChain(back, vec![(OGlyph(self.fg()), vec![])], look, InlSub((0..k).map(|_| OGlyph(self.og())).collect()))
        } else if r2 < 78 {
            // inline ligature
            let n = if self.rng.chance(1, 3) { 3 } else { 2 };
            let input: Vec<(Goc, Vec<u32>)> = (0..n).map(|_| (if self.rng.chance(1, 8) { self.class_goc(2, 2) } else { OGlyph(self.fg()) }, vec![])).collect();
            let lig = *self.rng.pick(&self.outs);
            RChain(back, input, look, InlSub(vec![OGlyph(lig)]))
        } else if r2 < 92 {
            RChain(back, vec![(self.goc(15), vec![])], look, InlNull)
        } else {
            // a contextual rule without any action
            let n = self.rng.range(1, 2) as usize;
            RChain(back, (0..n).map(|_| (self.ctx_goc(), vec![])).collect(), look, InlNone)
        }
    }
    fn r_ignore(&mut self) -> Rule {
        let nb = self.rng.below(2) as usize;
        let nl = self.rng.below(2) as usize;
        let ni = self.rng.range(1, 2) as usize;
        RIgnore((0..nb).map(|_| self.ctx_goc()).collect(), (0..ni).map(|_| self.ctx_goc()).collect(), (0..nl).map(|_| self.ctx_goc()).collect())
    }
    fn run_possingle(&mut self, n: usize) -> Vec<Rule> {
        let mut out = vec![];
        let mut used: Vec<(Glyph, Value)> = vec![];
        for _ in 0..n {
            for _try in 0..5 {
                let t = self.goc(30);
                let v = self.value();
                let tg = self.rl(&t);
                if tg.is_empty() || tg.iter().any(|g| matches!(assoc(*g, &used), Some(w) if *w != v)) {
                    continue;
                }
                for g in tg {
                    used.push((g, v));
                }
                out.push(RPosSingle(t, v));
                break;
            }
        }
        out
    }
    fn run_pospair(&mut self, n: usize) -> Vec<Rule> {
        let mut out: Vec<Rule> = vec![];
        let mut classes: Vec<(Vec<Glyph>, Vec<Glyph>, Value)> = vec![];
        for _ in 0..n {
            for _try in 0..5 {
                let r = self.rng.below(100);
                let v = self.value();
                let rule = if r < 30 {
                    RPosPair(false, OGlyph(self.fg()), OGlyph(self.fg()), v)
                } else if r < 45 {
                    if self.rng.chance(1, 2) {
                        RPosPair(true, self.class_goc(2, 3), OGlyph(self.fg()), v)
                    } else if self.rng.chance(1, 2) {
                        RPosPair(true, OGlyph(self.fg()), self.class_goc(2, 3), v)
                    } else {
                        RPosPair(true, self.class_goc(2, 2), self.class_goc(2, 2), v)
                    }
                } else {
                    // class pair; sometimes re-use or overlap an earlier first class
                    let first = if !classes.is_empty() && self.rng.chance(2, 5) {
                        let prev = self.rng.pick(&classes).0.clone();
                        if self.rng.chance(1, 2) {
                            OClass(prev.iter().map(|g| IGlyph(*g)).collect())
                        } else {
                            // overlapping but different: forces a new subtable
                            let mut p: Vec<Glyph> = prev.clone();
                            let extra = self.fg();
                            if p.len() > 1 && self.rng.chance(1, 2) {
                                p.pop();
                            }
                            if !p.contains(&extra) {
                                p.push(extra);
                            }
                            OClass(p.into_iter().map(IGlyph).collect())
                        }
                    } else if self.rng.chance(1, 6) {
                        OGlyph(self.fg())
                    } else {
                        self.class_goc(1, 3)
                    };
                    let second = if matches!(first, OGlyph(_)) || self.rng.chance(4, 5) { self.class_goc(1, 3) } else { OGlyph(self.fg()) };
                    RPosPair(false, first, second, v)
                };
                if let RPosPair(false, a, b, v) = &rule {
                    let (ra, rb) = (self.rg(a), self.rg(b));
                    if rgoc_is_class(&ra) || rgoc_is_class(&rb) {
                        let (c1, c2) = (rgoc_list(&ra), rgoc_list(&rb));
                        if c1.is_empty() || c2.is_empty() {
                            continue;
                        }
                        if classes.iter().any(|(d1, d2, w)| set_eqb(&c1, d1) && set_eqb(&c2, d2) && w != v) {
                            continue;
                        }
                        classes.push((c1, c2, *v));
                    }
                }
                out.push(rule);
                break;
            }
        }
        out
    }

    /// a conflicting twin of one of the rules (same target, different result)
    fn conflict_of(&mut self, rules: &[Rule]) -> Option<Rule> {
        let cands: Vec<&Rule> = rules.iter().filter(|r| matches!(r, RSingle(..) | RMulti(..) | RAlt(..) | RPosSingle(..) | RPosPair(false, ..))).collect();
        if cands.is_empty() {
            return None;
        }
        let r = (*self.rng.pick(&cands)).clone();
        let other = |s: &mut Self, not: &[Glyph]| -> Glyph {
            for _ in 0..20 {
                let g = s.og();
                if !not.contains(&g) {
                    return g;
                }
            }
            G_Z
        };
        match r {
            RSingle(t, rp) => {
                let cur = self.rl(&rp);
                let n = self.rl(&t).len();
                if matches!(self.rg(&rp), RC(ref c) if c.len() > 1) {
                    // a rotation of the replacement class
                    let mut c = cur.clone();
                    c.rotate_left(1);
                    if c == cur || c.len() != n {
                        return None;
                    }
                    Some(RSingle(t, OClass(c.into_iter().map(IGlyph).collect())))
                } else {
                    let g = other(self, &cur);
                    Some(RSingle(t, OGlyph(g)))
                }
            }
            RMulti(t, rp) => {
                let mut rp2 = rp.clone();
                rp2.reverse();
                if rp2 == rp {
                    let cur: Vec<Glyph> = rp.iter().flat_map(|o| self.rl(o)).collect();
                    rp2[0] = OGlyph(other(self, &cur));
                }
                Some(RMulti(t, rp2))
            }
            RAlt(t, alts) => {
                let cur = self.resolve(&alts);
                let g = other(self, &cur[..1.min(cur.len())]);
                let mut a2 = vec![IGlyph(g)];
                a2.extend(alts);
                Some(RAlt(t, a2))
            }
            RPosSingle(t, v) => Some(RPosSingle(t, mkV(v.xp, v.yp, v.xa + 7, v.ya))),
            RPosPair(false, a, b, v) => {
                if rgoc_is_class(&self.rg(&a)) || rgoc_is_class(&self.rg(&b)) {
                    Some(RPosPair(false, a, b, mkV(v.xp, v.yp, v.xa + 7, v.ya)))
                } else {
                    None
                }
            }
            _ => None,
        }
    }

    /// domain (glyphs a lookup acts at) of a list of rules
    fn dom_of(&self, rules: &[Rule]) -> Vec<Glyph> {
        let mut d: Vec<Glyph> = vec![];
        for r in rules {
            let gs: Vec<Glyph> = match r {
                RSingle(t, _) | RDelete(t) | RMulti(t, _) => self.rl(t),
                RAlt(t, _) => vec![*t],
                RLiga(c, _) => c.first().map(|o| self.rl(o)).unwrap_or_default(),
                RChain(_, i, _, _) => i.first().map(|x| self.rl(&x.0)).unwrap_or_default(),
                _ => vec![],
            };
            for g in gs {
                if !d.contains(&g) {
                    d.push(g);
                }
            }
        }
        d
    }

    fn pick_kind(&mut self, gsub_only: bool) -> Kind {
        let kinds = [KSingle, KMulti, KAlt, KLiga, KChain, KPosSingle, KPosPair];
        let lim = if gsub_only { 5 } else { 7 };
        let total: u64 = self.w[..lim].iter().sum();
        let mut x = self.rng.below(total);
        for i in 0..lim {
            if x < self.w[i] {
                return kinds[i];
            }
            x -= self.w[i];
        }
        KSingle
    }

    /// one run of rules of a kind (the statements of one lookup, or more when flags split it);
    /// returns the statements, the kind the lookup ends up with, and its domain
    fn gen_run(&mut self, kind: Kind, in_named: bool) -> (Vec<LStmt>, Vec<Glyph>) {
        // a redefinition of the hot class right before the run: its rules use the new contents
        let pre: Option<LStmt> = if (self.hot.is_some() || self.hot_marks.is_some()) && self.rng.chance(1, 3) {
            self.redefine_hot().map(|(n, items)| LClassDef(n, items))
        } else {
            None
        };
        let mut rules: Vec<Rule> = vec![];
        match kind {
            KSingle => {
                let mut used = vec![];
                let n = self.rng.range(1, 4) as usize;
                rules.extend(self.run_single(n, &mut used));
                let r = self.rng.below(100);
                if r < 14 {
                    // promotion to a multiple-substitution lookup
                    let mut used_m: Vec<(Glyph, Vec<Glyph>)> = used.clone();
                    let k = self.rng.range(1, 2) as usize;
                    rules.extend(self.run_multi(k, &mut used_m));
                    if self.rng.chance(1, 3) {
                        rules.extend(self.run_single(1, &mut used_m));
                    }
                } else if r < 28 {
                    // promotion to a ligature lookup
                    let mut entries: Vec<(Vec<Glyph>, Glyph)> = used.iter().map(|(a, b)| (vec![*a], b[0])).collect();
                    let k = self.rng.range(1, 3) as usize;
                    rules.extend(self.run_liga(k, &mut entries));
                }
            }
            KMulti => {
                let mut used = vec![];
                let n = self.rng.range(1, 3) as usize;
                rules.extend(self.run_multi(n, &mut used));
                if self.rng.chance(1, 5) {
                    rules.extend(self.run_single(1, &mut used));
                }
            }
            KAlt => {
                let n = self.rng.range(1, 2) as usize;
                rules.extend(self.run_alt(n));
            }
            KLiga => {
                let mut entries = vec![];
                let n = self.rng.range(1, 5) as usize;
                rules.extend(self.run_liga(n, &mut entries));
                if self.rng.chance(1, 7) {
                    // a single substitution inside a ligature lookup
                    let mut used: Vec<(Glyph, Vec<Glyph>)> = entries.iter().filter(|(s, _)| s.len() == 1).map(|(s, l)| (s[0], vec![*l])).collect();
                    let s = self.run_single(1, &mut used);
                    if self.rng.chance(1, 2) {
                        rules.extend(s);
                    } else {
                        let at = self.rng.below(rules.len() as u64 + 1) as usize;
                        // only after the first ligature rule, else it would be a promotion run
                        let at = at.max(1.min(rules.len()));
                        for (i, x) in s.into_iter().enumerate() {
                            rules.insert((at + i).min(rules.len()), x);
                        }
                    }
                }
            }
            KChain => {
                self.inl_hist.clear();
                if !in_named && self.rng.chance(1, 5) {
                    rules.push(self.r_ignore());
                }
                let n = self.rng.range(1, 3) as usize;
                for _ in 0..n {
                    let r = self.r_chain();
                    rules.push(r);
                }
                if self.rng.chance(1, 8) {
                    // two inline single substitutions with different contexts: a glyph, then a class that holds
                    // the same glyph in second place and is replaced by another glyph
                    let (g, r0) = (self.fg(), self.og());
                    let mut o = self.fg();
                    let mut r1 = self.og();
                    for _ in 0..8 {
                        if o == g {
                            o = self.fg();
                        }
                        if r1 == r0 {
                            r1 = self.og();
                        }
                    }
                    if o != g && r1 != r0 {
                        let c1 = self.ctx_goc();
                        let c2 = self.ctx_goc();
                        rules.push(RChain(vec![], vec![(OGlyph(g), vec![])], vec![c1], InlSub(vec![OGlyph(r0)])));
                        let second = RChain(if self.rng.chance(1, 2) { vec![c2.clone()] } else { vec![] }, vec![(OClass(vec![IGlyph(o), IGlyph(g)]), vec![])], if self.rng.chance(1, 2) { vec![c2] } else { vec![] }, InlSub(vec![OGlyph(r1)]));
                        rules.push(second);
                    }
                }
                if !in_named && self.rng.chance(1, 12) {
                    let at = self.rng.below(rules.len() as u64) as usize;
                    let ig = self.r_ignore();
                    rules.insert(at, ig);
                }
            }
            KPosSingle => {
                let n = self.rng.range(1, 3) as usize;
                rules.extend(self.run_possingle(n));
            }
            KPosPair => {
                let n = self.rng.range(1, 5) as usize;
                rules.extend(self.run_pospair(n));
            }
        }
        if self.conflict && (self.conflicts_made == 0 || self.rng.chance(1, 4)) {
            if let Some(c) = self.conflict_of(&rules) {
                // directly after the original, or at the end of the run
                if self.rng.chance(1, 2) {
                    rules.push(c);
                } else {
                    let at = self.rng.below(rules.len() as u64 + 1) as usize;
                    rules.insert(at, c);
                }
                self.conflicts_made += 1;
            }
        }
        let dom = self.dom_of(&rules);
        let mut stmts: Vec<LStmt> = vec![];
        if let Some(p) = pre {
            stmts.push(p);
        }
        let split = if !in_named && self.use_flags && rules.len() >= 2 && self.rng.chance(1, 3) { Some(self.rng.range(1, rules.len() as i64 - 1) as usize) } else { None };
        // a run split by a lookupflag statement: half of the time the two states differ only in a class
        let pair = if split.is_some() && self.rng.chance(1, 2) { Some(self.flag_pair()) } else { None };
        if let Some((f1, _)) = &pair {
            stmts.push(LFlag(f1.clone()));
        } else if self.use_flags && self.rng.chance(if in_named { 1 } else { 3 }, if in_named { 2 } else { 5 }) {
            stmts.push(LFlag(self.sflag()));
        }
        for (i, r) in rules.into_iter().enumerate() {
            if split == Some(i) {
                match &pair {
                    Some((_, f2)) => stmts.push(LFlag(f2.clone())),
                    None => stmts.push(LFlag(self.sflag())),
                }
            }
            stmts.push(LRule(r));
        }
        if in_named && self.use_flags && self.rng.chance(1, 10) {
            // a lookupflag after the last rule of a named block is allowed
            stmts.push(LFlag(self.sflag()));
        }
        if !in_named && self.rng.chance(1, 12) {
            // a class (re)definition between rules
            let (n, items) = self.def_class();
            let at = self.rng.below(stmts.len() as u64 + 1) as usize;
            stmts.insert(at, LClassDef(n, items));
        }
        (stmts, dom)
    }

    fn gen_named(&mut self, gsub_bias: bool) -> (u32, Vec<LStmt>) {
        let name = self.next_lookup;
        self.next_lookup += 1;
        let mut kind = self.pick_kind(gsub_bias);
        if kind == KChain && self.gsub_named().is_empty() && self.rng.chance(1, 2) {
            kind = if self.rng.chance(1, 2) { KSingle } else { KLiga };
        }
        let (stmts, dom) = self.gen_run(kind, true);
        let has_rule = stmts.iter().any(|s| matches!(s, LRule(_)));
        self.named.push(NamedInfo { name, kind: if has_rule { Some(kind) } else { None }, dom });
        (name, stmts)
    }

    fn gen_feature_body(&mut self) -> Vec<FStmt> {
        let mut body: Vec<FStmt> = vec![];
        if self.rng.chance(1, 40) {
            return body; // an empty feature
        }
        let nseg = match self.rng.below(100) {
            0..=39 => 1,
            40..=74 => 2,
            75..=92 => 3,
            _ => 4,
        };
        let scripts = [tag("latn"), tag("cyrl"), tag("DFLT")];
        let langs = [tag("TRK"), tag("DEU"), tag("ROM")];
        let mut seen_script = false;
        let mut last_run: Option<Kind> = None;
        for seg in 0..nseg {
            if self.use_scripts && (seg > 0 || self.rng.chance(1, 3)) && self.rng.chance(3, 5) {
                if !seen_script || self.rng.chance(1, 3) {
                    let s = if self.rng.chance(1, 12) { scripts[2] } else { scripts[self.rng.below(2) as usize] };
                    body.push(FScript(s));
                    seen_script = true;
                    if self.rng.chance(1, 3) {
                        body.push(FLang(*self.rng.pick(&langs), self.rng.chance(1, 3)));
                    }
                } else {
                    let l = if self.rng.chance(1, 10) { dflt } else { *self.rng.pick(&langs) };
                    body.push(FLang(l, self.rng.chance(1, 3)));
                }
                last_run = None;
                if self.rng.chance(1, 8) {
                    continue; // a script/language statement without rules after it
                }
            }
            let r = self.rng.below(100);
            if !self.named.is_empty() && r < 30 {
                // references, also out of declaration order and repeated
                let k = self.rng.range(1, 3) as usize;
                let mut refs: Vec<u32> = (0..k).map(|_| self.rng.pick(&self.named).name).collect();
                if self.rng.chance(1, 3) {
                    refs.sort();
                    refs.reverse();
                }
                for n in refs {
                    body.push(FLookupRef(n));
                }
            } else if r < 42 {
                let (n, stmts) = self.gen_named(false);
                body.push(FLookupBlock(n, stmts));
                if self.rng.chance(1, 6) {
                    body.push(FLookupRef(n));
                }
            } else {
                // two runs that would fall into one lookup are generated as one run, not as two
                let merges = |a: Kind, b: Kind| a == b || matches!((a, b), (KSingle, KMulti) | (KMulti, KSingle) | (KSingle, KLiga) | (KLiga, KSingle));
                let mut kind = self.pick_kind(false);
                for _ in 0..4 {
                    match last_run {
                        Some(k0) if merges(k0, kind) => kind = self.pick_kind(false),
                        _ => break,
                    }
                }
                if matches!(last_run, Some(k0) if merges(k0, kind)) {
                    continue;
                }
                if self.use_flags && self.rng.chance(1, 4) {
                    // two runs of one rule type, nothing but a lookupflag statement between them
                    let (f1, f2) = self.flag_pair();
                    let strip = |v: Vec<LStmt>| -> Vec<LStmt> { v.into_iter().filter(|s| !matches!(s, LFlag(_))).collect() };
                    let (s1, _) = self.gen_run(kind, false);
                    let (s2, _) = self.gen_run(kind, false);
                    body.push(FS(LFlag(f1)));
                    body.extend(strip(s1).into_iter().map(FS));
                    body.push(FS(LFlag(f2)));
                    body.extend(strip(s2).into_iter().map(FS));
                    last_run = Some(kind);
                    continue;
                }
                let (stmts, _) = self.gen_run(kind, false);
                body.extend(stmts.into_iter().map(FS));
                last_run = Some(kind);
                continue;
            }
            last_run = None;
        }
        body
    }

    fn gen_program(&mut self) -> Prog {
        let mut p: Prog = vec![];
        // languagesystem statements
        let ls_choice = self.rng.below(100);
        let lat = tag("latn");
        let cyr = tag("cyrl");
        let trk = tag("TRK");
        let lss: Vec<(Tag, Tag)> = if self.use_scripts {
            match ls_choice {
                0..=19 => vec![],
                20..=34 => vec![(DFLT, dflt)],
                35..=54 => vec![(DFLT, dflt), (lat, dflt)],
                55..=69 => vec![(DFLT, dflt), (lat, dflt), (lat, trk)],
                70..=79 => vec![(lat, dflt)],
                80..=87 => vec![(lat, dflt), (lat, trk)],
                88..=93 => vec![(DFLT, dflt), (lat, trk), (cyr, dflt)],
                _ => vec![(DFLT, dflt), (lat, dflt), (lat, dflt)],
            }
        } else {
            match ls_choice {
                0..=59 => vec![],
                60..=84 => vec![(DFLT, dflt)],
                85..=94 => vec![(DFLT, dflt), (lat, dflt)],
                _ => vec![(lat, dflt)],
            }
        };
        for (s, l) in lss {
            p.push(TLangSys(s, l));
        }
        // GDEF
        let gdef = if self.use_flags && self.rng.chance(6, 7) {
            let base: Vec<CItem> = if self.rng.chance(2, 3) { self.focus.iter().filter(|g| ![G_FI, G_FL].contains(g)).map(|g| IGlyph(*g)).collect() } else { vec![] };
            let lig: Vec<CItem> = if self.rng.chance(3, 4) { vec![IGlyph(G_FI), IGlyph(G_FL)] } else { vec![] };
            let mark: Vec<CItem> = vec![IGlyph(G_ACUTE), IGlyph(G_GRAVE), IGlyph(G_DOTB)];
            Some(TGdef(base, lig, mark, vec![]))
        } else {
            None
        };
        let gdef_first = self.rng.chance(2, 3);
        if gdef_first {
            if let Some(g) = &gdef {
                p.push(g.clone());
            }
        }
        // top-level classes
        let ncls = match self.rng.below(100) {
            0..=49 => 0,
            50..=79 => 1,
            _ => 2,
        };
        for _ in 0..ncls {
            let (n, items) = self.def_class();
            p.push(TClassDef(n, items));
        }
        // a class that rules use by name before and after it is redefined (1 program in 3)
        if self.rng.chance(1, 3) {
            let (n, items) = self.def_class();
            p.push(TClassDef(n, items));
            self.hot = Some(n);
            if self.use_flags && self.rng.chance(1, 2) {
                let n = self.next_class;
                self.next_class += 1;
                let m = *self.rng.pick(&[G_ACUTE, G_GRAVE, G_DOTB]);
                self.env.insert(0, (n, vec![m]));
                self.class_names.push(n);
                p.push(TClassDef(n, vec![IGlyph(m)]));
                self.hot_marks = Some(n);
            }
        }
        // top-level named lookups
        let nnamed = match self.theme {
            Theme::Ctx => self.rng.range(1, 4),
            Theme::Kern | Theme::Range => self.rng.range(0, 1),
            _ => self.rng.range(0, 3),
        } as usize;
        for _ in 0..nnamed {
            let bias = self.theme == Theme::Ctx || self.rng.chance(1, 2);
            let (n, stmts) = self.gen_named(bias);
            p.push(TLookup(n, stmts));
            if self.rng.chance(1, 8) {
                let (n, items) = self.def_class();
                p.push(TClassDef(n, items));
            }
        }
        // features
        let pool = ["liga", "calt", "ccmp", "smcp", "kern", "dist", "rlig", "locl", "salt", "test"];
        let nfeat = match self.rng.below(100) {
            0..=44 => 1,
            45..=84 => 2,
            _ => 3,
        };
        let mut tags: Vec<Tag> = vec![];
        for _ in 0..nfeat {
            let t = if !tags.is_empty() && self.rng.chance(1, 6) { *self.rng.pick(&tags) } else { tag(*self.rng.pick(&pool)) };
            tags.push(t);
            let body = self.gen_feature_body();
            p.push(TFeature(t, body));
            if self.rng.chance(1, 2) {
                if let Some((n, items)) = self.redefine_hot() {
                    p.push(TClassDef(n, items));
                }
            }
        }
        if !gdef_first {
            if let Some(g) = gdef {
                p.push(g);
            }
        }
        p
    }
}

/// an invalid construct appended to a valid program: fea-rs must reject the file
fn make_invalid(rng: &mut Rng, p: &mut Prog) -> &'static str {
    let a = || OGlyph(G_A);
    let b = || OGlyph(G_B);
    let cls = |l: &[Glyph]| OClass(l.iter().map(|g| IGlyph(*g)).collect());
    let feat = |body: Vec<FStmt>| TFeature(tag("test"), body);
    match rng.below(11) {
        0 => {
            p.push(feat(vec![FS(LRule(RSingle(OClass(vec![IRef(99)]), a())))]));
            "undefined-class"
        }
        1 => {
            p.push(feat(vec![FLookupRef(99)]));
            "undefined-lookup"
        }
        2 => {
            p.push(feat(vec![FS(LRule(RSingle(cls(&[G_A, G_B]), cls(&[G_C, G_D, G_E]))))]));
            "class-length-mismatch"
        }
        3 => {
            p.push(feat(vec![FS(LRule(RSingle(a(), cls(&[G_B, G_C]))))]));
            "glyph-by-class"
        }
        4 => {
            p.push(TLookup(90, vec![LRule(RSingle(a(), b()))]));
            p.push(TLookup(90, vec![LRule(RSingle(b(), a()))]));
            p.push(feat(vec![FLookupRef(90)]));
            "duplicate-lookup-name"
        }
        5 => {
            let second = match rng.below(3) {
                0 => RPosSingle(a(), mkV(0, 0, 10, 0)),
                1 => RAlt(G_A, vec![IGlyph(G_B), IGlyph(G_C)]),
                _ => RChain(vec![], vec![(a(), vec![])], vec![b()], InlSub(vec![OGlyph(G_C)])),
            };
            p.push(TLookup(91, vec![LRule(RSingle(a(), b())), LRule(second)]));
            p.push(feat(vec![FLookupRef(91)]));
            "mixed-rule-types-in-block"
        }
        6 => {
            p.push(feat(vec![FS(LRule(RLiga(vec![OGlyph(G_F), OGlyph(G_I)], G_X))), FS(LRule(RLiga(vec![OGlyph(G_F), OGlyph(G_I)], G_Y)))]));
            "ligature-conflict"
        }
        7 => {
            let fl = SFlag { rtl: false, ibase: false, ilig: false, imark: true, filter: None, mattach: None };
            p.push(TLookup(92, vec![LRule(RSingle(a(), b())), LFlag(fl), LRule(RSingle(b(), a()))]));
            p.push(feat(vec![FLookupRef(92)]));
            "lookupflag-between-rules"
        }
        8 => {
            p.push(TLookup(93, vec![LRule(RSingle(a(), b()))]));
            p.push(feat(vec![FS(LRule(RChain(vec![], vec![(a(), vec![93])], vec![], InlSub(vec![OGlyph(G_C)]))))]));
            "inline-and-named"
        }
        9 => {
            p.push(TLookup(94, vec![LRule(RPosSingle(a(), mkV(0, 0, 10, 0)))]));
            p.push(feat(vec![FS(LRule(RChain(vec![], vec![(a(), vec![94])], vec![b()], InlNone)))]));
            "gpos-lookup-in-gsub-context"
        }
        _ => {
            // a range with a member that is not in the font
            p.push(feat(vec![FS(LRule(RSingle(OClass(vec![IRange(to_str("f"), to_str("i"))]), a())))]));
            "range-member-missing"
        }
    }
}

/// known crashers

/// fixed programs run first on every run: the minimal inputs of the defects seen so far, and a few
/// constructions worth pinning (their `kind` is `corpus:<name>`)
fn corpus() -> Vec<(Prog, String)> {
    let g = |x: Glyph| OGlyph(x);
    let cls = |v: &[Glyph]| OClass(v.iter().map(|&x| IGlyph(x)).collect());
    let val = |xa: i64| mkV(0, 0, xa, 0);
    let t = tag("test");
    let r = |x: Rule| FS(LRule(x));
    vec![
        (vec![TFeature(t, vec![r(RSingle(g(G_A), g(G_B))), r(RSingle(g(G_A), g(G_C)))])], "corpus:later-rule-wins-single".into()),
        (
            vec![TFeature(
                t,
                vec![
                    r(RChain(vec![], vec![(g(G_C), vec![])], vec![g(G_X)], InlSub(vec![g(G_X)]))),
                    r(RChain(vec![], vec![(cls(&[G_X, G_C]), vec![])], vec![g(G_C)], InlSub(vec![g(G_B)]))),
                ],
            )],
            "corpus:inline-single-overwrite".into(),
        ),
        (
            vec![TFeature(
                t,
                vec![
                    r(RChain(vec![], vec![(g(G_A), vec![])], vec![g(G_X)], InlSub(vec![g(G_B), g(G_C)]))),
                    r(RChain(vec![], vec![(cls(&[G_A, G_D]), vec![])], vec![g(G_Y)], InlSub(vec![g(G_E), g(G_F)]))),
                ],
            )],
            "corpus:inline-multiple-split".into(),
        ),
        (
            vec![TFeature(
                t,
                vec![
                    r(RChain(vec![], vec![(g(G_F), vec![]), (g(G_I), vec![])], vec![], InlSub(vec![g(G_FI)]))),
                    r(RChain(vec![], vec![(g(G_F), vec![]), (g(G_I), vec![]), (g(G_L), vec![])], vec![], InlSub(vec![g(G_FL)]))),
                ],
            )],
            "corpus:inline-ligature-shared".into(),
        ),
        (
            vec![
                TLookup(95, vec![LRule(RChain(vec![], vec![(g(G_A), vec![95])], vec![g(G_B)], InlNone))]),
                TFeature(t, vec![FLookupRef(95)]),
            ],
            "crasher:self-referencing-lookup".into(),
        ),
        (
            vec![TLookup(96, vec![]), TFeature(t, vec![r(RChain(vec![], vec![(g(G_A), vec![96])], vec![g(G_B)], InlNone))])],
            "crasher:context-names-empty-lookup".into(),
        ),
        (
            vec![TFeature(t, vec![r(RSingle(OClass(vec![IRange(to_str("g01"), to_str("g03"))]), g(G_X)))])],
            "corpus:numeric-range".into(),
        ),
        (
            vec![TLookup(1, vec![LRule(RSingle(g(G_A), g(G_B))), LRule(RDelete(g(G_C)))]), TFeature(t, vec![FLookupRef(1)])],
            "corpus:by-null-splits-named-lookup".into(),
        ),
        (vec![TFeature(t, vec![r(RMulti(g(G_A), vec![g(G_B), g(G_C)])), r(RMulti(g(G_A), vec![g(G_C), g(G_B)]))])], "corpus:later-rule-wins-multiple".into()),
        (vec![TFeature(t, vec![r(RAlt(G_A, vec![IGlyph(G_B), IGlyph(G_C)])), r(RAlt(G_A, vec![IGlyph(G_D)]))])], "corpus:later-rule-wins-alternate".into()),
        (
            vec![TFeature(t, vec![r(RSingle(g(G_A), g(G_B))), r(RSingle(g(G_A), g(G_C))), r(RLiga(vec![g(G_F), g(G_I)], G_FI))])],
            "corpus:later-rule-wins-ligature".into(),
        ),
        (vec![TFeature(t, vec![r(RPosSingle(g(G_A), val(10))), r(RPosSingle(g(G_A), val(20)))])], "corpus:later-rule-wins-single-pos".into()),
        (
            vec![TFeature(
                t,
                vec![
                    r(RPosPair(false, cls(&[G_A, G_B]), cls(&[G_C, G_D]), val(10))),
                    r(RPosPair(false, cls(&[G_B, G_A]), cls(&[G_D, G_C]), val(20))),
                ],
            )],
            "corpus:later-rule-wins-pair-pos".into(),
        ),
        (
            vec![TFeature(
                t,
                vec![
                    r(RPosPair(false, cls(&[G_A, G_B]), cls(&[G_C, G_D]), val(10))),
                    r(RPosPair(false, cls(&[G_A, G_X]), cls(&[G_B]), val(20))),
                ],
            )],
            "corpus:class-pair-second-subtable".into(),
        ),
        (
            vec![
                TGdef(vec![IGlyph(G_A), IGlyph(G_B), IGlyph(G_C)], vec![], vec![IGlyph(G_ACUTE)], vec![]),
                TFeature(
                    t,
                    vec![
                        r(RSingle(g(G_A), g(G_B))),
                        r(RLiga(vec![g(G_B), g(G_C)], G_D)),
                        FS(LFlag(SFlag { rtl: false, ibase: false, ilig: false, imark: true, filter: None, mattach: None })),
                        r(RLiga(vec![g(G_B), g(G_B)], G_A)),
                        r(RPosPair(false, g(G_A), g(G_D), val(-30))),
                        r(RPosPair(false, cls(&[G_A, G_B]), cls(&[G_C, G_D]), val(5))),
                    ],
                ),
            ],
            "corpus:flags-ligature-kerning".into(),
        ),
        // `lookup NAME;` between rules: the rules after it are a new lookup, applied after the ones before
        (
            vec![TLookup(1, vec![LRule(RSingle(g(G_X), g(G_Y)))]), TFeature(t, vec![r(RSingle(g(G_A), g(G_C))), FLookupRef(1), r(RSingle(g(G_C), g(G_D)))])],
            "corpus:lookup-reference-between-rules".into(),
        ),
        // single + multiple + ligature rules in one named block
        (
            vec![
                TLookup(1, vec![LRule(RSingle(g(G_A), g(G_B))), LRule(RMulti(g(G_C), vec![g(G_D), g(G_E)])), LRule(RLiga(vec![g(G_F), g(G_I)], G_FI))]),
                TFeature(t, vec![FLookupRef(1)]),
            ],
            "corpus:mixed-rule-types-in-named-block".into(),
        ),
        // a class of one glyph in a later input position of a context-free contextual rule
        (
            vec![
                TLookup(1, vec![LRule(RSingle(g(G_A), g(G_X)))]),
                TLookup(2, vec![LRule(RSingle(g(G_B), g(G_Y)))]),
                TFeature(t, vec![r(RChain(vec![], vec![(g(G_A), vec![1]), (cls(&[G_B]), vec![2])], vec![], InlNone))]),
            ],
            "crasher:context-format1-singleton-class".into(),
        ),
        // a class redefined between its uses: a reference means the latest definition before it
        (
            vec![
                TClassDef(1, vec![IGlyph(G_A), IGlyph(G_B)]),
                TFeature(tag("ss01"), vec![r(RSingle(OClass(vec![IRef(1)]), g(G_C)))]),
                TClassDef(1, vec![IRange(to_str("d"), to_str("f"))]),
                TFeature(tag("ss02"), vec![r(RSingle(OClass(vec![IRef(1)]), g(G_X)))]),
            ],
            "corpus:class-redefined-between-features".into(),
        ),
        (
            vec![
                TClassDef(1, vec![IGlyph(G_A), IGlyph(G_B)]),
                TFeature(
                    t,
                    vec![
                        r(RLiga(vec![OClass(vec![IRef(1)]), g(G_C)], G_X)),
                        FS(LClassDef(1, vec![IRef(1), IGlyph(G_D)])),
                        r(RPosPair(false, OClass(vec![IRef(1)]), g(G_C), val(-25))),
                        FS(LClassDef(1, vec![IGlyph(G_E), IRef(1)])),
                        r(RChain(vec![OClass(vec![IRef(1)])], vec![(g(G_C), vec![])], vec![], InlSub(vec![g(G_Y)]))),
                    ],
                ),
            ],
            "corpus:class-extended-incrementally".into(),
        ),
        // two lookupflag states that differ only in the class: the rules after each are separate lookups
        {
            let gdef = || TGdef(vec![IGlyph(G_A), IGlyph(G_B), IGlyph(G_C), IGlyph(G_D)], vec![], vec![IGlyph(G_ACUTE), IGlyph(G_GRAVE), IGlyph(G_DOTB)], vec![]);
            let fset = |m: &[Glyph]| FS(LFlag(SFlag { rtl: false, ibase: false, ilig: false, imark: false, filter: Some(m.iter().map(|x| IGlyph(*x)).collect()), mattach: None }));
            (
                vec![gdef(), TFeature(t, vec![fset(&[G_ACUTE]), r(RLiga(vec![g(G_A), g(G_B)], G_X)), fset(&[G_DOTB]), r(RLiga(vec![g(G_C), g(G_D)], G_Y))])],
                "corpus:filter-sets-back-to-back-ligature".into(),
            )
        },
        {
            let gdef = || TGdef(vec![IGlyph(G_A), IGlyph(G_B), IGlyph(G_C), IGlyph(G_D)], vec![], vec![IGlyph(G_ACUTE), IGlyph(G_GRAVE), IGlyph(G_DOTB)], vec![]);
            let fset = |m: &[Glyph]| FS(LFlag(SFlag { rtl: false, ibase: false, ilig: false, imark: false, filter: Some(m.iter().map(|x| IGlyph(*x)).collect()), mattach: None }));
            (
                vec![gdef(), TFeature(t, vec![fset(&[G_ACUTE, G_GRAVE]), r(RSingle(g(G_A), g(G_B))), fset(&[G_GRAVE]), r(RSingle(g(G_B), g(G_C))), r(RMulti(g(G_D), vec![g(G_A), g(G_A)]))])],
                "corpus:filter-sets-back-to-back-single-multiple".into(),
            )
        },
        {
            let gdef = || TGdef(vec![IGlyph(G_A), IGlyph(G_B), IGlyph(G_C), IGlyph(G_D)], vec![], vec![IGlyph(G_ACUTE), IGlyph(G_GRAVE), IGlyph(G_DOTB)], vec![]);
            let fset = |m: &[Glyph]| FS(LFlag(SFlag { rtl: false, ibase: false, ilig: false, imark: false, filter: Some(m.iter().map(|x| IGlyph(*x)).collect()), mattach: None }));
            (
                vec![gdef(), TFeature(t, vec![fset(&[G_ACUTE]), r(RPosPair(false, g(G_A), g(G_B), val(-10))), fset(&[G_DOTB]), r(RPosPair(false, g(G_A), g(G_C), val(-20))), r(RPosPair(false, cls(&[G_C, G_D]), cls(&[G_A]), val(-30)))])],
                "corpus:filter-sets-back-to-back-pair".into(),
            )
        },
        {
            let gdef = || TGdef(vec![IGlyph(G_A), IGlyph(G_B), IGlyph(G_C), IGlyph(G_D)], vec![], vec![IGlyph(G_ACUTE), IGlyph(G_GRAVE), IGlyph(G_DOTB)], vec![]);
            let fatt = |m: &[Glyph]| FS(LFlag(SFlag { rtl: false, ibase: false, ilig: false, imark: false, filter: None, mattach: Some(m.iter().map(|x| IGlyph(*x)).collect()) }));
            (
                vec![gdef(), TFeature(t, vec![fatt(&[G_ACUTE]), r(RLiga(vec![g(G_A), g(G_B)], G_X)), fatt(&[G_GRAVE, G_DOTB]), r(RLiga(vec![g(G_C), g(G_D)], G_Y)), r(RLiga(vec![g(G_A), g(G_B)], G_Z))])],
                "corpus:attachment-types-back-to-back-ligature".into(),
            )
        },
        {
            let gdef = || TGdef(vec![IGlyph(G_A), IGlyph(G_B), IGlyph(G_C), IGlyph(G_D)], vec![], vec![IGlyph(G_ACUTE), IGlyph(G_GRAVE), IGlyph(G_DOTB)], vec![]);
            let fset = |m: &[Glyph]| FS(LFlag(SFlag { rtl: false, ibase: false, ilig: false, imark: false, filter: Some(m.iter().map(|x| IGlyph(*x)).collect()), mattach: None }));
            (
                vec![gdef(), TFeature(t, vec![fset(&[G_ACUTE, G_DOTB]), r(RLiga(vec![g(G_A), g(G_B)], G_X)), fset(&[G_DOTB, G_ACUTE]), r(RLiga(vec![g(G_C), g(G_D)], G_Y))])],
                "corpus:same-filter-set-twice-one-lookup".into(),
            )
        },
    ]
}

fn make_crasher(rng: &mut Rng, p: &mut Prog) -> &'static str {
    let a = || OGlyph(G_A);
    let b = || OGlyph(G_B);
    if rng.chance(1, 2) {
        p.push(TLookup(95, vec![LRule(RChain(vec![], vec![(a(), vec![95])], vec![b()], InlNone))]));
        p.push(TFeature(tag("test"), vec![FLookupRef(95)]));
        "self-referencing-lookup"
    } else {
        p.push(TLookup(96, vec![]));
        p.push(TFeature(tag("test"), vec![FS(LRule(RChain(vec![], vec![(a(), vec![96])], vec![b()], InlNone)))]));
        "context-names-empty-lookup"
    }
}

// =================================================================================================
// driver
// =================================================================================================
fn fnv(s: &str) -> String {
    let mut h: u64 = 0xcbf29ce484222325;
    for b in s.bytes() {
        h ^= b as u64;
        h = h.wrapping_mul(0x100000001b3);
    }
    format!("{:016x}", h)
}

fn kind_name(k: Kind) -> &'static str {
    match k {
        KSingle => "single",
        KMulti => "multiple",
        KAlt => "alternate",
        KLiga => "ligature",
        KChain => "contextual",
        KPosSingle => "single-pos",
        KPosPair => "pair-pos",
    }
}

/// a contextual lookup whose inline rules hit one of the anonymous-lookup sharing defects of
/// fea-rs (lookups/contextual.rs): names the defect.  Only consulted for a minimised failing program.
fn chain_defect_key(sl: &SLookup) -> Option<&'static str> {
    if !kind_eqb(sl.kind, KChain) {
        return None;
    }
    // inline single: target glyphs beyond the first are not checked against the shared lookup when the
    // replacement is one glyph, and then overwrite an earlier rule's entry
    let mut seen: Vec<(Glyph, Glyph)> = vec![];
    for r in &sl.rules {
        if let XChain(_, _, _, Some(XISingle(t, rp, nchk))) = r {
            for (i, (a, b)) in t.iter().zip(rp.iter()).enumerate() {
                if i >= *nchk && seen.iter().any(|(a2, b2)| a2 == a && b2 != b) {
                    return Some("contextual-inline-single-overwrites-shared-lookup");
                }
            }
            seen.extend(t.iter().copied().zip(rp.iter().copied()));
        }
    }
    let multi: Vec<(Glyph, Vec<Glyph>)> = sl
        .rules
        .iter()
        .flat_map(|r| match r {
            XChain(_, _, _, Some(XIMulti(t, seqs))) => t.iter().copied().zip(seqs.iter().cloned()).collect::<Vec<_>>(),
            _ => vec![],
        })
        .collect();
    for (i, (a, s1)) in multi.iter().enumerate() {
        if multi[i + 1..].iter().any(|(a2, s2)| a2 == a && s2 != s1) {
            return Some("contextual-inline-multiple-wrong-shared-lookup");
        }
    }
    if sl.rules.iter().any(|r| matches!(r, XChain(_, _, _, Some(XILiga(..))))) {
        return Some("contextual-inline-ligature-shared-lookup");
    }
    None
}
fn wf_kind_name(k: Kind) -> &'static str {
    match k {
        KChain => "contextual-inline",
        k => kind_name(k),
    }
}

/// all glyph strings over an alphabet up to a length (as a set: Model.v strings_upto lists some twice)
fn strings_upto(alphabet: &[Glyph], n: usize) -> Vec<Vec<Glyph>> {
    let mut out: Vec<Vec<Glyph>> = vec![vec![]];
    let mut layer: Vec<Vec<Glyph>> = vec![vec![]];
    for _ in 0..n {
        let mut next = vec![];
        for s in &layer {
            for &g in alphabet {
                let mut t = s.clone();
                t.push(g);
                next.push(t);
            }
        }
        out.extend(next.iter().cloned());
        layer = next;
    }
    out
}

fn rule_stats(p: &Prog, counts: &mut BTreeMap<&'static str, usize>) -> usize {
    fn rname(r: &Rule) -> &'static str {
        match r {
            RSingle(..) => "single",
            RDelete(..) => "delete",
            RMulti(..) => "multiple",
            RAlt(..) => "alternate",
            RLiga(..) => "ligature",
            RChain(_, i, _, inl) => match inl {
                InlNone => {
                    if i.iter().any(|x| !x.1.is_empty()) {
                        "contextual-named"
                    } else {
                        "contextual-noaction"
                    }
                }
                InlNull => "contextual-inline-null",
                InlSub(r) => {
                    if i.len() > 1 {
                        "contextual-inline-ligature"
                    } else if r.len() > 1 {
                        "contextual-inline-multiple"
                    } else {
                        "contextual-inline-single"
                    }
                }
            },
            RIgnore(..) => "ignore",
            RPosSingle(..) => "single-pos",
            RPosPair(true, ..) => "pair-pos-enum",
            RPosPair(false, a, b, _) => {
                if matches!(a, OClass(_)) || matches!(b, OClass(_)) {
                    "pair-pos-class"
                } else {
                    "pair-pos-glyph"
                }
            }
        }
    }
    let mut n = 0;
    let mut on_l = |l: &LStmt, counts: &mut BTreeMap<&'static str, usize>| match l {
        LRule(r) => {
            *counts.entry(rname(r)).or_insert(0) += 1;
            n += 1;
        }
        LFlag(_) => *counts.entry("lookupflag").or_insert(0) += 1,
        LClassDef(..) => *counts.entry("classdef").or_insert(0) += 1,
    };
    for t in p {
        match t {
            TLookup(_, body) => {
                *counts.entry("named-lookup").or_insert(0) += 1;
                body.iter().for_each(|l| on_l(l, counts))
            }
            TFeature(_, body) => {
                for s in body {
                    match s {
                        FS(l) => on_l(l, counts),
                        FLookupBlock(_, b) => {
                            *counts.entry("named-lookup").or_insert(0) += 1;
                            b.iter().for_each(|l| on_l(l, counts))
                        }
                        FScript(_) => *counts.entry("script-stmt").or_insert(0) += 1,
                        FLang(..) => *counts.entry("language-stmt").or_insert(0) += 1,
                        FLookupRef(_) => *counts.entry("lookup-ref").or_insert(0) += 1,
                    }
                }
            }
            TGdef(..) => *counts.entry("gdef").or_insert(0) += 1,
            TLangSys(..) => *counts.entry("languagesystem").or_insert(0) += 1,
            TClassDef(..) => *counts.entry("classdef").or_insert(0) += 1,
        }
    }
    n
}

fn prog_uses_flags(p: &Prog) -> bool {
    p.iter().any(|t| match t {
        TGdef(..) => true,
        TLookup(_, b) => b.iter().any(|l| matches!(l, LFlag(_))),
        TFeature(_, b) => b.iter().any(|s| match s {
            FS(LFlag(_)) => true,
            FLookupBlock(_, bb) => bb.iter().any(|l| matches!(l, LFlag(_))),
            _ => false,
        }),
        _ => false,
    })
}
fn prog_has_alt(p: &Prog) -> bool {
    let l_alt = |l: &LStmt| matches!(l, LRule(RAlt(..)));
    p.iter().any(|t| match t {
        TLookup(_, b) => b.iter().any(l_alt),
        TFeature(_, b) => b.iter().any(|s| match s {
            FS(l) => l_alt(l),
            FLookupBlock(_, bb) => bb.iter().any(l_alt),
            _ => false,
        }),
        _ => false,
    })
}
fn prog_tags(p: &Prog) -> Vec<Tag> {
    let mut v = vec![];
    for t in p {
        if let TFeature(tg, _) = t {
            if !v.contains(tg) {
                v.push(*tg);
            }
        }
    }
    v
}

/// glyphs of the elaborated program in matching positions, most used first
fn used_glyphs(e: &EProg) -> Vec<(Glyph, usize)> {
    let mut c: BTreeMap<Glyph, usize> = BTreeMap::new();
    let mut add = |l: &[Glyph]| {
        for g in l {
            *c.entry(*g).or_insert(0) += 1;
        }
    };
    for sl in e.gsub.iter().chain(e.gpos.iter()) {
        for r in &sl.rules {
            match r {
                XSingle(t, _) | XMulti(t, _) | XPosSingle(t, _) => add(t),
                XAlt(t, _) => add(&[*t]),
                XLiga(cs, _) => cs.iter().for_each(|x| add(x)),
                XChain(b, i, l, _) => {
                    b.iter().for_each(|x| add(x));
                    i.iter().for_each(|x| add(&x.0));
                    l.iter().for_each(|x| add(x));
                }
                XPairE(a, b, _) | XPairC(a, b, _) => {
                    add(a);
                    add(b);
                }
            }
        }
    }
    let mut v: Vec<(Glyph, usize)> = c.into_iter().collect();
    v.sort_by(|a, b| b.1.cmp(&a.1).then(a.0.cmp(&b.0)));
    v
}

struct Stats {
    streams: BTreeMap<String, usize>,
    outcomes: BTreeMap<String, usize>,
    rule_kinds: BTreeMap<&'static str, usize>,
    violations: BTreeMap<String, usize>,
    evaluations: usize,
    strings_changed: usize,
    strings_total: usize,
    elab_none_but_accepted: usize,
    nontrivial: usize,
    max_term: usize,
    programs_with_mismatch: usize,
    minimiser_compiles: usize,
}

struct Opts {
    show: Option<usize>,
    incl: bool,
    delp: bool,
    eskip: bool,
    refc: bool,
    mixs: bool,
    isng: bool,
    imul: bool,
    ilig: bool,
}

fn is_mark(g: Glyph) -> bool {
    g == G_ACUTE || g == G_GRAVE || g == G_DOTB
}

/// does the property predicate fail for this program (same selections, same strings)?  None: fea-rs does not
/// produce a font / the tables cannot be decoded / the twin rejects.  Some(None): it holds.
fn predicate_witness(p: &Prog, sels: &[Selection], strs: &[Vec<Glyph>], gm: &[Str], names: &[&str]) -> Option<Option<(usize, Vec<Glyph>, Vec<PItem>, Vec<PItem>)>> {
    let fea = FeaP { names }.prog(p);
    let real = match compile_real(&fea, names) {
        Outcome::Font(b) => decode_font(&b, names.len() as u32).ok()?,
        _ => return None,
    };
    let es = elab_spec(gm, p)?;
    let mut best: Option<(usize, Vec<Glyph>, Vec<PItem>, Vec<PItem>)> = None;
    for (si, sel) in sels.iter().enumerate() {
        for s in strs {
            if best.as_ref().map(|b| s.len() >= b.1.len()).unwrap_or(false) {
                continue;
            }
            let a = apply_ot(&real, sel, s);
            let b = interp_fea(&es, sel, s);
            if !pitems_eqb(&a, &b) {
                best = Some((si, s.clone(), a, b));
            }
        }
    }
    Some(best)
}

/// the program without its k-th removable unit (top-level items, then statements, then statements of lookup
/// blocks inside features), or None when k is past the last unit
fn without_unit(p: &Prog, k: usize) -> Option<Prog> {
    let mut k = k;
    if k < p.len() {
        let mut q = p.clone();
        q.remove(k);
        return Some(q);
    }
    k -= p.len();
    for (ti, t) in p.iter().enumerate() {
        let n = match t {
            TLookup(_, b) => b.len(),
            TFeature(_, b) => b.len(),
            _ => 0,
        };
        if k < n {
            let mut q = p.clone();
            match &mut q[ti] {
                TLookup(_, b) => {
                    b.remove(k);
                }
                TFeature(_, b) => {
                    b.remove(k);
                }
                _ => {}
            }
            return Some(q);
        }
        k -= n;
    }
    for (ti, t) in p.iter().enumerate() {
        if let TFeature(_, b) = t {
            for (fi, f) in b.iter().enumerate() {
                if let FLookupBlock(_, lb) = f {
                    if k < lb.len() {
                        let mut q = p.clone();
                        if let TFeature(_, b2) = &mut q[ti] {
                            if let FLookupBlock(_, lb2) = &mut b2[fi] {
                                lb2.remove(k);
                            }
                        }
                        return Some(q);
                    }
                    k -= lb.len();
                }
            }
        }
    }
    None
}

fn minimise(p: &Prog, sels: &[Selection], strs: &[Vec<Glyph>], gm: &[Str], names: &[&str], compiles: &mut usize) -> (Prog, Option<(usize, Vec<Glyph>, Vec<PItem>, Vec<PItem>)>) {
    let mut cur = p.clone();
    let mut wit = None;
    let mut budget = 600usize;
    for _pass in 0..3 {
        let mut progressed = false;
        let mut k = 0;
        while let Some(cand) = without_unit(&cur, k) {
            if budget == 0 {
                return (cur, wit);
            }
            budget -= 1;
            *compiles += 1;
            match predicate_witness(&cand, sels, strs, gm, names) {
                Some(Some(w)) => {
                    cur = cand;
                    wit = Some(w);
                    progressed = true;
                }
                _ => k += 1,
            }
        }
        if !progressed {
            break;
        }
    }
    (cur, wit)
}

fn process_program(id: usize, kind: &str, prog: &Prog, rng: &mut Rng, st: &mut Stats, o: &Opts) -> bool {
    let names = GLYPHS;
    let gm: Vec<Str> = names.iter().map(|s| to_str(s)).collect();
    let fea = FeaP { names }.prog(prog);
    let quiet = o.show.is_some();
    let showing = o.show == Some(id);
    *st.streams.entry(kind.to_string()).or_insert(0) += 1;
    let nrules = rule_stats(prog, &mut st.rule_kinds);
    let outcome = compile_real(&fea, names);
    if showing {
        println!("=== case {} kind {} ===\n{}", id, kind, fea);
    }
    match outcome {
        Outcome::Panic(loc) => {
            *st.outcomes.entry("panic".into()).or_insert(0) += 1;
            // stable key: the construction for the known crashers, else the source file (no line number)
            let key = match kind.strip_prefix("crasher:") {
                Some(w) => format!("compile-panic:{}", w),
                None => format!("compile-panic:{}", loc.rsplit_once(':').map(|x| x.0).unwrap_or(&loc)),
            };
            *st.violations.entry(key.clone()).or_insert(0) += 1;
            if showing {
                println!("outcome: PANIC at {}", loc);
            }
            if !quiet {
                emit_violation(&key, format!("fea-rs panicked at {} compiling a feature file", loc), json!({"fea": fea, "kind": kind}));
            }
            false
        }
        Outcome::Rejected(msg) => {
            *st.outcomes.entry("rejected".into()).or_insert(0) += 1;
            let coq = format!(
                "case_rejected {} {} {} {} {} {} {}",
                coq_bool(o.incl),
                coq_bool(o.delp),
                coq_bool(o.eskip),
                coq_bool(o.refc),
                coq_bool(o.mixs),
                cq_gm(names),
                cq_prog(prog)
            );
            st.max_term = st.max_term.max(coq.len());
            if showing {
                println!("outcome: REJECTED\n{}\ntwin elab(incl) is {}\nCOQ: {}", msg, if elab_gen(o.incl, &gm, o.delp, o.eskip, o.refc, o.mixs, prog).is_some() { "Some" } else { "None" }, coq);
            }
            if !quiet {
                emit_case(id, kind, coq, None, nrules > 0, fnv(&fea), json!({"fea": fea, "outcome": "rejected", "pred_ok": true, "message": msg}));
            }
            true
        }
        Outcome::Font(bytes) => {
            *st.outcomes.entry("font".into()).or_insert(0) += 1;
            let real = match decode_font(&bytes, names.len() as u32) {
                Ok(f) => f,
                Err(e) => {
                    let key = if e.starts_with("unsupported") { "decode-unsupported" } else { "decode-malformed" };
                    *st.violations.entry(key.into()).or_insert(0) += 1;
                    if showing {
                        println!("outcome: FONT, decode failed: {}", e);
                    }
                    if !quiet {
                        emit_violation(key, format!("cannot decode the compiled layout tables: {}", e), json!({"fea": fea, "kind": kind}));
                    }
                    return false;
                }
            };
            let espec = elab_spec(&gm, prog);
            let eimpl = elab_gen(o.incl, &gm, o.delp, o.eskip, o.refc, o.mixs, prog);
            if espec.is_none() || eimpl.is_none() {
                st.elab_none_but_accepted += 1;
            }
            if espec.is_none() && !o.mixs && elab_gen(true, &gm, true, true, true, false, prog).is_some() {
                // the specification's reading rejects the file: a named block mixes multiple-substitution and
                // ligature rules; fea-rs splits it in two lookups and the name denotes the last one
                let key = "mixed-rule-types-in-named-block-split-lookup";
                *st.violations.entry(key.into()).or_insert(0) += 1;
                if !quiet {
                    emit_violation(
                        key,
                        "fea-rs compiles a named lookup block that holds multiple-substitution and ligature rules (any other mix of rule types is rejected): the block becomes two lookups and the name refers to the last one only".to_string(),
                        json!({"fea": fea, "kind": kind}),
                    );
                }
            } else if espec.is_none() && !o.incl && eimpl.is_some() {
                // fea-rs accepted a file that the inclusive reading of numeric ranges rejects (class lengths)
                let key = "glyph-range-numeric-excludes-end";
                *st.violations.entry(key.into()).or_insert(0) += 1;
                if !quiet {
                    emit_violation(key, "fea-rs accepts a file that is ill-formed when numeric glyph ranges include their end glyph".to_string(), json!({"fea": fea, "kind": kind}));
                }
            }
            // ---- selections ----
            let tags = prog_tags(prog);
            let mut systems: Vec<(Tag, Tag)> = vec![];
            for (k, _) in real.gsub.langsys.iter().chain(real.gpos.langsys.iter()) {
                if !systems.contains(k) {
                    systems.push(*k);
                }
            }
            if systems.is_empty() {
                systems.push((DFLT, dflt));
            }
            let mut sels: Vec<Selection> = vec![];
            for (s, l) in &systems {
                sels.push(Selection { script: *s, lang: *l, feats: tags.clone(), alt: 0 });
            }
            if prog_has_alt(prog) {
                sels.push(Selection { script: systems[0].0, lang: systems[0].1, feats: tags.clone(), alt: 1 });
            }
            if tags.len() > 1 {
                for (s, l) in &systems {
                    for t in tags.iter().take(3) {
                        sels.push(Selection { script: *s, lang: *l, feats: vec![*t], alt: 0 });
                    }
                }
            }
            sels.truncate(8);
            // ---- alphabet and strings ----
            let used: Vec<(Glyph, usize)> = match &espec {
                Some(e) => used_glyphs(e),
                None => vec![],
            };
            let mut alphabet: Vec<Glyph> = used.iter().map(|x| x.0).filter(|g| !is_mark(*g)).take(5).collect();
            if alphabet.is_empty() {
                alphabet = vec![G_A, G_B, G_C, G_D];
            }
            if prog_uses_flags(prog) {
                // every mark a lookupflag class or a rule mentions: a mark that is in one filtering set /
                // attachment class and not in another must occur between the matched glyphs
                let mut ms: Vec<Glyph> = used.iter().map(|x| x.0).filter(|g| is_mark(*g)).collect();
                if let Some(e) = &espec {
                    for sl in e.gsub.iter().chain(e.gpos.iter()) {
                        for set in [&sl.flag.filter, &sl.flag.mattach].into_iter().flatten() {
                            ms.extend(set.iter().copied().filter(|g| is_mark(*g)));
                        }
                    }
                }
                ms.sort();
                ms.dedup();
                if ms.is_empty() {
                    ms.push(G_ACUTE);
                }
                if ms.len() >= 2 {
                    alphabet.truncate(4);
                }
                alphabet.extend(ms);
            }
            let n = if alphabet.len() <= 4 { 4 } else { 3 };
            let mut extra: Vec<Vec<Glyph>> = vec![];
            for _ in 0..30 {
                let len = rng.range(5, 8) as usize;
                extra.push((0..len).map(|_| *rng.pick(&alphabet)).collect());
            }
            let mut strs = strings_upto(&alphabet, n);
            strs.extend(extra.iter().cloned());
            // ---- the property predicate ----
            let mut pred_ok = true;
            let mut first_fail: Option<(usize, Vec<Glyph>, Vec<PItem>, Vec<PItem>)> = None;
            let mut nfail = 0usize;
            let mut changed: Vec<(usize, usize)> = vec![]; // (sel index, string index) changed by shaping
            let mut any_changed = false;
            // selections that list the same lookups on both sides shape alike: evaluate once
            let mut seen_keys: Vec<(Vec<usize>, Vec<usize>, Vec<usize>, Vec<usize>, usize)> = vec![];
            if let Some(es) = &espec {
                for (si, sel) in sels.iter().enumerate() {
                    let lids = feat_lids(es, sel);
                    let key = (active_lookups(&real.gsub, sel), active_lookups(&real.gpos, sel), gsub_ids(&lids), gpos_ids(&lids), sel.alt);
                    if seen_keys.contains(&key) {
                        continue;
                    }
                    seen_keys.push(key);
                    for (xi, s) in strs.iter().enumerate() {
                        let out_real = apply_ot(&real, sel, s);
                        let out_src = interp_fea(es, sel, s);
                        st.evaluations += 1;
                        let ident = out_real.len() == s.len() && out_real.iter().zip(s.iter()).all(|(p, g)| p.0 == *g && p.1 == vzero);
                        if !ident {
                            any_changed = true;
                            if changed.len() < 400 {
                                changed.push((si, xi));
                            }
                            st.strings_changed += 1;
                        }
                        st.strings_total += 1;
                        if !pitems_eqb(&out_real, &out_src) {
                            pred_ok = false;
                            nfail += 1;
                            // keep the shortest failing string
                            if first_fail.as_ref().map(|f| s.len() < f.1.len()).unwrap_or(true) {
                                first_fail = Some((si, s.clone(), out_real, out_src));
                            }
                        }
                    }
                }
            }
            if let (Some((si, s, out_real, out_src)), Some(_es)) = (&first_fail, &espec) {
                st.programs_with_mismatch += 1;
                // classification (in this order): numeric range reading; ill-formed lookup; anything else.
                // The last two are decided on a MINIMISED program (statements deleted one at a time as long
                // as fea-rs still accepts the file and the predicate still fails on the same selections and
                // strings), so that the key names the rules that matter and not whatever else is in the file.
                let holds_under = |incl: bool, delp: bool, refc: bool| match elab_gen(incl, &gm, delp, true, refc, true, prog) {
                    Some(e0) => sels.iter().all(|sel| strs.iter().all(|s| pitems_eqb(&apply_ot(&real, sel, s), &interp_fea(&e0, sel, s)))),
                    None => false,
                };
                // an explanation by an unrepaired reading is only tried when this build has that reading
                let holds_with_excl = !o.incl && holds_under(false, true, true);
                let holds_with_split = !o.delp && !holds_with_excl && holds_under(true, false, true);
                let holds_with_ref = !o.refc && !holds_with_excl && !holds_with_split && holds_under(true, true, false);
                let mut min_fea: Option<String> = None;
                let mut witness = (*si, s.clone(), out_real.clone(), out_src.clone());
                let key = if holds_with_excl {
                    "glyph-range-numeric-excludes-end".to_string()
                } else if holds_with_split {
                    "by-null-rule-splits-lookup".to_string()
                } else if holds_with_ref {
                    "lookup-reference-does-not-close-running-lookup".to_string()
                } else {
                    let (pmin, w) = minimise(prog, &sels, &strs, &gm, names, &mut st.minimiser_compiles);
                    if let Some(w) = w {
                        witness = w;
                    }
                    min_fea = Some(FeaP { names }.prog(&pmin));
                    let em = elab_spec(&gm, &pmin);
                    let lks: Vec<SLookup> = match &em {
                        Some(e) => e.gsub.iter().chain(e.gpos.iter()).cloned().collect(),
                        None => vec![],
                    };
                    // the minimised file may show the numeric range reading alone
                    let rmin = match compile_real(min_fea.as_ref().unwrap(), names) {
                        Outcome::Font(bytes) => decode_font(&bytes, names.len() as u32).ok(),
                        _ => None,
                    };
                    let min_holds_under = |incl: bool, delp: bool, refc: bool| match (elab_gen(incl, &gm, delp, true, refc, true, &pmin), &rmin) {
                        (Some(e0), Some(rmin)) => sels.iter().all(|sel| strs.iter().all(|s| pitems_eqb(&apply_ot(rmin, sel, s), &interp_fea(&e0, sel, s)))),
                        _ => false,
                    };
                    if !o.incl && min_holds_under(false, true, true) {
                        "glyph-range-numeric-excludes-end".to_string()
                    } else if !o.delp && min_holds_under(true, false, true) {
                        "by-null-rule-splits-lookup".to_string()
                    } else if !o.refc && min_holds_under(true, true, false) {
                        "lookup-reference-does-not-close-running-lookup".to_string()
                    } else if let Some(k) = lks.iter().find_map(chain_defect_key) {
                        k.to_string()
                    } else if let Some(sl) = lks.iter().find(|sl| !wf_lookup(sl)) {
                        format!("conflicting-rules-later-wins:{}", wf_kind_name(sl.kind))
                    } else {
                        let ks: BTreeSet<&'static str> = lks.iter().map(|sl| kind_name(sl.kind)).collect();
                        format!("behaviour-mismatch:{}", ks.into_iter().collect::<Vec<_>>().join("+"))
                    }
                };
                let (wsi, ws, wreal, wsrc) = &witness;
                *st.violations.entry(key.clone()).or_insert(0) += 1;
                let desc = format!(
                    "shaping [{}] with {} gives [{}] with the compiled tables but the feature file says [{}] ({} of the checked (selection, string) pairs differ for the generated file)",
                    ws.iter().map(|g| gname(names, *g)).collect::<Vec<_>>().join(" "),
                    show_sel(&sels[*wsi]),
                    show_pitems(names, wreal),
                    show_pitems(names, wsrc),
                    nfail
                );
                if showing {
                    println!("VIOLATION {}: {}\nminimised:\n{}", key, desc, min_fea.clone().unwrap_or_default());
                }
                if !quiet {
                    emit_violation(
                        &key,
                        desc,
                        json!({"fea": min_fea.clone().unwrap_or_else(|| fea.clone()), "fea_generated": fea, "kind": kind, "selection": show_sel(&sels[*wsi]),
                               "string": ws.iter().map(|g| gname(names, *g)).collect::<Vec<_>>(),
                               "compiled": show_pitems(names, wreal), "source": show_pitems(names, wsrc), "failing_pairs": nfail}),
                    );
                }
            }
            if espec.is_none() {
                // the specification's reading rejects a file fea-rs compiled: the property fails for it
                pred_ok = false;
            }
            // ---- samples ----
            let mut samples: Vec<(usize, Vec<Glyph>, Vec<PItem>, Vec<PItem>)> = vec![];
            if let Some(es) = &espec {
                if let Some(f) = &first_fail {
                    samples.push(f.clone());
                }
                let mut picks: Vec<(usize, usize)> = vec![];
                for _ in 0..9 {
                    if !changed.is_empty() {
                        picks.push(*rng.pick(&changed));
                    }
                }
                while picks.len() < 12 {
                    picks.push((rng.below(sels.len() as u64) as usize, rng.below(strs.len() as u64) as usize));
                }
                for (si, xi) in picks {
                    if samples.len() >= 12 {
                        break;
                    }
                    let s = &strs[xi];
                    samples.push((si, s.clone(), apply_ot(&real, &sels[si], s), interp_fea(es, &sels[si], s)));
                }
            }
            let nontrivial = nrules > 0 && any_changed;
            if nontrivial {
                st.nontrivial += 1;
            }
            let coq = format!(
                "case_ok {} {} {} {} {} {} {} {} {} {} {} {} {} {} {} {} {}",
                coq_bool(o.incl),
                coq_bool(o.delp),
                coq_bool(o.eskip),
                coq_bool(o.refc),
                coq_bool(o.mixs),
                coq_bool(o.isng),
                coq_bool(o.imul),
                coq_bool(o.ilig),
                cq_gm(names),
                cq_prog(prog),
                cq_font(&real),
                coq_list(&sels, cq_sel),
                cq_glyphs(&alphabet),
                coq_nat(n),
                coq_list(&extra, |s| cq_glyphs(s)),
                coq_bool(pred_ok),
                coq_list(&samples, |(i, s, a, b)| format!("({}, {}, {}, {})", coq_nat(*i), cq_glyphs(s), cq_pitems(a), cq_pitems(b)))
            );
            st.max_term = st.max_term.max(coq.len());
            if showing {
                println!("outcome: FONT\n{}", show_font(names, &real));
                println!("twin elab(true) = {}, elab(incl={}) = {}", if espec.is_some() { "Some" } else { "None" }, o.incl, if eimpl.is_some() { "Some" } else { "None" });
                if let Some(e) = &espec {
                    for (i, sl) in e.gsub.iter().enumerate() {
                        println!("  src gsub {} {:?} flag {:?}: {:?}", i, sl.kind, sl.flag, sl.rules);
                    }
                    for (i, sl) in e.gpos.iter().enumerate() {
                        println!("  src gpos {} {:?} flag {:?}: {:?}", i, sl.kind, sl.flag, sl.rules);
                    }
                    println!("  src feats {:?}", e.feats.iter().map(|((f, s, l), ids)| (tag_text(*f), tag_text(*s), tag_text(*l), ids.clone())).collect::<Vec<_>>());
                }
                println!("sels: {}", sels.iter().map(show_sel).collect::<Vec<_>>().join(" | "));
                println!("alphabet: {} n={} strings={} pred_ok={}", show_glyphs(names, &alphabet), n, strs.len(), pred_ok);
                println!("COQ: {}", coq);
            }
            if !quiet {
                emit_case(id, kind, coq, None, nontrivial, fnv(&fea), json!({"fea": fea, "outcome": "font", "pred_ok": pred_ok}));
            }
            true
        }
    }
}

// ---- the range stream ----------------------------------------------------------------------------
fn range_names() -> Vec<String> {
    let mut v: Vec<String> = vec![".notdef".into()];
    for c in b'a'..=b'z' {
        v.push((c as char).to_string());
    }
    for c in b'A'..=b'Z' {
        v.push((c as char).to_string());
    }
    for c in b'a'..=b'z' {
        v.push(format!("{}.sc", c as char));
    }
    for i in 0..=15 {
        v.push(format!("g{:02}", i));
    }
    for i in 1..=9 {
        v.push(format!("x{}", i));
    }
    for i in 98..=103 {
        v.push(format!("n{:03}", i));
    }
    v
}

fn gen_range_pair(rng: &mut Rng, names: &[String]) -> (String, String, &'static str) {
    let lower = |rng: &mut Rng| ((b'a' + rng.below(26) as u8) as char).to_string();
    let upper = |rng: &mut Rng| ((b'A' + rng.below(26) as u8) as char).to_string();
    match rng.below(20) {
        0..=2 => {
            let (mut a, mut b) = (rng.below(26), rng.below(26));
            if a > b {
                std::mem::swap(&mut a, &mut b);
            }
            (((b'a' + a as u8) as char).to_string(), ((b'a' + b as u8) as char).to_string(), "lower")
        }
        3 => {
            let (mut a, mut b) = (rng.below(26), rng.below(26));
            if a > b {
                std::mem::swap(&mut a, &mut b);
            }
            (((b'A' + a as u8) as char).to_string(), ((b'A' + b as u8) as char).to_string(), "upper")
        }
        4..=5 => {
            let (mut a, mut b) = (rng.below(26), rng.below(26));
            if a > b {
                std::mem::swap(&mut a, &mut b);
            }
            (format!("{}.sc", (b'a' + a as u8) as char), format!("{}.sc", (b'a' + b as u8) as char), "suffixed")
        }
        6..=9 => {
            let (mut a, mut b) = (rng.below(16), rng.below(16));
            if a > b {
                std::mem::swap(&mut a, &mut b);
            }
            (format!("g{:02}", a), format!("g{:02}", b), "numeric-2")
        }
        10..=11 => {
            let (mut a, mut b) = (rng.range(1, 9), rng.range(1, 9));
            if a > b {
                std::mem::swap(&mut a, &mut b);
            }
            (format!("x{}", a), format!("x{}", b), "numeric-1")
        }
        12..=13 => {
            let (mut a, mut b) = (rng.range(98, 103), rng.range(98, 103));
            if a > b {
                std::mem::swap(&mut a, &mut b);
            }
            (format!("n{:03}", a), format!("n{:03}", b), "numeric-3")
        }
        14 => (lower(&mut *rng), upper(&mut *rng), "lower-upper"),
        15 => (upper(&mut *rng), lower(&mut *rng), "upper-lower"),
        16 => {
            // end before start
            let (mut a, mut b) = (rng.below(16), rng.below(16));
            if a < b {
                std::mem::swap(&mut a, &mut b);
            }
            if rng.chance(1, 2) { (format!("g{:02}", a), format!("g{:02}", b), "reversed") } else { (((b'a' + a as u8) as char).to_string(), ((b'a' + b as u8) as char).to_string(), "reversed") }
        }
        17 => {
            // different lengths
            let a = rng.pick(names).clone();
            let mut b = rng.pick(names).clone();
            for _ in 0..10 {
                if b.len() != a.len() {
                    break;
                }
                b = rng.pick(names).clone();
            }
            (a, b, "lengths")
        }
        18 => {
            let a = rng.pick(&names[1..]).clone();
            (a.clone(), a, "equal")
        }
        _ => {
            // anything with anything of the same length
            let a = rng.pick(&names[1..]).clone();
            let same: Vec<&String> = names[1..].iter().filter(|n| n.len() == a.len()).collect();
            let b = (*rng.pick(&same)).clone();
            (a, b, "same-length")
        }
    }
}

fn process_range(id: usize, rng: &mut Rng, names_owned: &[String], st: &mut Stats, o: &Opts) {
    let names: Vec<&str> = names_owned.iter().map(|s| s.as_str()).collect();
    let (a, b, sub) = gen_range_pair(rng, names_owned);
    let quiet = o.show.is_some();
    let showing = o.show == Some(id);
    *st.streams.entry("range".into()).or_insert(0) += 1;
    *st.rule_kinds.entry("range-pair").or_insert(0) += 1;
    let fea = format!("feature test {{ sub [{}-{}] by .notdef; }} test;\n", a, b);
    let (sa, sb) = (to_str(&a), to_str(&b));
    let spec = range_named_spec(&sa, &sb);
    let impl_: Option<Vec<Str>> = match compile_real(&fea, &names) {
        Outcome::Panic(loc) => {
            let key = format!("compile-panic:{}", loc.rsplit_once(':').map(|x| x.0).unwrap_or(&loc));
            *st.outcomes.entry("panic".into()).or_insert(0) += 1;
            *st.violations.entry(key.clone()).or_insert(0) += 1;
            if !quiet {
                emit_violation(&key, format!("fea-rs panicked at {} compiling a glyph range", loc), json!({"fea": fea, "kind": "range"}));
            }
            return;
        }
        Outcome::Rejected(_) => {
            *st.outcomes.entry("range-rejected".into()).or_insert(0) += 1;
            None
        }
        Outcome::Font(bytes) => {
            *st.outcomes.entry("range-font".into()).or_insert(0) += 1;
            match decode_font(&bytes, names.len() as u32) {
                Ok(f) => match f.gsub.lookups.first().and_then(|l| l.subs.first()) {
                    Some(STSingle(m)) => Some(m.iter().map(|(g, _)| to_str(names[*g as usize])).collect()),
                    _ => Some(vec![]),
                },
                Err(e) => {
                    let key = if e.starts_with("unsupported") { "decode-unsupported" } else { "decode-malformed" };
                    *st.violations.entry(key.into()).or_insert(0) += 1;
                    if !quiet {
                        emit_violation(key, format!("cannot decode the compiled layout tables: {}", e), json!({"fea": fea, "kind": "range"}));
                    }
                    return;
                }
            }
        }
    };
    // predicate: the expansion is the specification's range
    if impl_ != spec {
        let numeric_short = match (&impl_, &spec) {
            (Some(x), Some(y)) => y.len() == x.len() + 1 && y[..x.len()] == x[..] && y[x.len()] == sb,
            _ => false,
        };
        let key = if numeric_short { "glyph-range-numeric-excludes-end" } else { "glyph-range-wrong-expansion" };
        *st.violations.entry(key.into()).or_insert(0) += 1;
        let show = |x: &Option<Vec<Str>>| match x {
            Some(l) => format!("[{}]", l.iter().map(|s| from_str(s)).collect::<Vec<_>>().join(" ")),
            None => "rejected".to_string(),
        };
        if !quiet {
            emit_violation(
                key,
                format!("glyph range [{}-{}] is expanded to {} but should be {}", a, b, show(&impl_), show(&spec)),
                json!({"fea": fea, "kind": "range", "start": a, "end": b}),
            );
        }
    }
    let coq = format!("case_range {} {} {} {}", coq_bool(o.incl), coq_str(&a), coq_str(&b), coq_opt(&impl_, |l| coq_list(l, |s| cq_str(s))));
    st.max_term = st.max_term.max(coq.len());
    if showing {
        println!("=== case {} kind range ({}) ===\n{}impl = {:?}\nCOQ: {}", id, sub, fea, impl_.as_ref().map(|l| l.iter().map(|s| from_str(s)).collect::<Vec<_>>()), coq);
    }
    if !quiet {
        emit_case(id, "range", coq, None, impl_.is_some() || spec.is_some(), format!("r:{}-{}", a, b), json!({"fea": fea, "outcome": if impl_.is_some() { "font" } else { "rejected" }, "pred_ok": impl_ == spec, "sub": sub}));
    }
}

/// do numeric glyph ranges include their end glyph in this build of fea-rs?
fn probe_incl() -> bool {
    let fea = "feature test { sub [g01-g03] by x; } test;\n";
    match compile_real(fea, GLYPHS) {
        Outcome::Font(bytes) => match decode_font(&bytes, GLYPHS.len() as u32) {
            Ok(f) => match f.gsub.lookups.first().and_then(|l| l.subs.first()) {
                Some(STSingle(m)) => m.iter().any(|(g, _)| *g == G_G01 + 2),
                _ => true,
            },
            Err(_) => true,
        },
        _ => true,
    }
}

/// does `sub X by NULL;` join a running single-substitution lookup in this build of fea-rs?
fn probe_delp() -> bool {
    let fea = "lookup L1 { sub a by b; sub c by NULL; } L1;\nfeature test { lookup L1; } test;\n";
    match compile_real(fea, GLYPHS) {
        Outcome::Font(bytes) => match decode_font(&bytes, GLYPHS.len() as u32) {
            Ok(f) => {
                let sel = Selection { script: DFLT, lang: dflt, feats: vec![tag("test")], alt: 0 };
                let out = apply_ot(&f, &sel, &[G_A]);
                out.len() == 1 && out[0].0 == G_B
            }
            Err(_) => true,
        },
        _ => true,
    }
}

/// which of the inline-rule repairs and the empty-lookup repair does this build of fea-rs have?
/// (eskip, isng, imul, ilig), each decided on the minimal input of the defect
fn probe_inline() -> (bool, bool, bool, bool) {
    let decode = |fea: &str| match compile_real(fea, GLYPHS) {
        Outcome::Font(bytes) => decode_font(&bytes, GLYPHS.len() as u32).ok(),
        _ => None,
    };
    let eskip = matches!(compile_real("lookup L96 { } L96;\nfeature test { sub a' lookup L96 b; } test;\n", GLYPHS), Outcome::Font(_));
    // repaired: the contextual lookup and one anonymous lookup per rule
    let isng = decode("feature test { sub c' x by x; sub [x c]' c by b; } test;\n").map(|f| f.gsub.lookups.len() == 3).unwrap_or(true);
    // repaired: the second rule's anonymous lookup holds both its glyphs
    let imul = decode("feature test { sub a' x by b c; sub [a d]' y by e f; } test;\n")
        .map(|f| matches!(f.gsub.lookups.get(2).and_then(|l| l.subs.first()), Some(STMultiple(m)) if m.len() == 2))
        .unwrap_or(true);
    let ilig = decode("feature test { sub f' i' by f_i; sub f' i' l' by f_l; } test;\n").map(|f| f.gsub.lookups.len() == 3).unwrap_or(true);
    (eskip, isng, imul, ilig)
}

/// (refc, mixs): does `lookup NAME;` close the running lookup, and is a named block with multiple-substitution
/// and ligature rules rejected, in this build of fea-rs?
fn probe_refc_mixs() -> (bool, bool) {
    let refc = match compile_real("lookup L1 { sub x by y; } L1;\nfeature test { sub a by c; lookup L1; sub c by d; } test;\n", GLYPHS) {
        Outcome::Font(bytes) => match decode_font(&bytes, GLYPHS.len() as u32) {
            Ok(f) => {
                let sel = Selection { script: DFLT, lang: dflt, feats: vec![tag("test")], alt: 0 };
                let out = apply_ot(&f, &sel, &[G_A]);
                out.len() == 1 && out[0].0 == G_D
            }
            Err(_) => true,
        },
        _ => true,
    };
    let mixs = !matches!(
        compile_real("lookup L1 { sub a by b; sub c by d e; sub f i by f_i; } L1;\nfeature test { lookup L1; } test;\n", GLYPHS),
        Outcome::Font(_)
    );
    (refc, mixs)
}

fn arg_str(args: &[String], name: &str) -> Option<String> {
    args.iter().position(|a| a == name).and_then(|i| args.get(i + 1)).cloned()
}

fn main() {
    let args: Vec<String> = std::env::args().collect();
    let args = &args[1..];
    install_quiet_hook();

    // ---- debugging mode: one file ----
    if let Some(file) = arg_str(args, "--fea") {
        let fea = std::fs::read_to_string(&file).expect("cannot read the feature file");
        let gl = arg_str(args, "--glyphs").unwrap_or_else(|| GLYPHS.join(","));
        let names: Vec<&str> = gl.split(',').collect();
        match compile_real(&fea, &names) {
            Outcome::Panic(loc) => println!("PANIC at {}", loc),
            Outcome::Rejected(m) => println!("REJECTED\n{}", m),
            Outcome::Font(bytes) => match decode_font(&bytes, names.len() as u32) {
                Err(e) => println!("FONT, decode failed: {}", e),
                Ok(f) => {
                    print!("{}", show_font(&names, &f));
                    println!("COQ otfont: {}", cq_font(&f));
                    if let Some(s) = arg_str(args, "--string") {
                        let gs: Vec<Glyph> = s.split(',').filter(|x| !x.is_empty()).map(|n| names.iter().position(|m| *m == n).expect("glyph of --string not in --glyphs") as u32).collect();
                        let mut tags: Vec<Tag> = vec![];
                        for (t, _) in f.gsub.features.iter().chain(f.gpos.features.iter()) {
                            if !tags.contains(t) {
                                tags.push(*t);
                            }
                        }
                        let mut systems: Vec<(Tag, Tag)> = vec![];
                        for (k, _) in f.gsub.langsys.iter().chain(f.gpos.langsys.iter()) {
                            if !systems.contains(k) {
                                systems.push(*k);
                            }
                        }
                        for (sc, lg) in systems {
                            let sel = Selection { script: sc, lang: lg, feats: tags.clone(), alt: arg_val(args, "--alt", 0) as usize };
                            println!("apply_ot {} : {}", show_sel(&sel), show_pitems(&names, &apply_ot(&f, &sel, &gs)));
                        }
                    }
                }
            },
        }
        return;
    }

    let seed = arg_val(args, "--seed", 1);
    let n = arg_val(args, "--n", 150) as usize;
    let show = arg_str(args, "--show-case").and_then(|s| s.parse::<usize>().ok());
    let mut rng = Rng::new(seed);
    let incl = probe_incl();
    let delp = probe_delp();
    let (eskip, isng, imul, ilig) = probe_inline();
    let (refc, mixs) = probe_refc_mixs();
    let o = Opts { show, incl, delp, eskip, refc, mixs, isng, imul, ilig };
    let mut st = Stats {
        streams: BTreeMap::new(),
        outcomes: BTreeMap::new(),
        rule_kinds: BTreeMap::new(),
        violations: BTreeMap::new(),
        evaluations: 0,
        strings_changed: 0,
        strings_total: 0,
        elab_none_but_accepted: 0,
        nontrivial: 0,
        max_term: 0,
        programs_with_mismatch: 0,
        minimiser_compiles: 0,
    };
    let mut id = 0usize;
    let themes: [(Theme, u64); 8] =
        [(Theme::Ctx, 24), (Theme::Liga, 14), (Theme::Flags, 15), (Theme::Kern, 13), (Theme::Chain, 10), (Theme::LangSys, 9), (Theme::Range, 7), (Theme::Mixed, 8)];
    let total: u64 = themes.iter().map(|t| t.1).sum();
    for (prog, kind) in corpus() {
        process_program(id, &kind, &prog, &mut rng, &mut st, &o);
        id += 1;
    }
    for _ in 0..n {
        let mut x = rng.below(total);
        let mut theme = Theme::Mixed;
        for (t, w) in themes.iter() {
            if x < *w {
                theme = *t;
                break;
            }
            x -= *w;
        }
        let stream = rng.below(100);
        let (prog, kind): (Prog, String) = if stream < 7 {
            let mut g = Gen::new(&mut rng, theme, true);
            let p = g.gen_program();
            let made = g.conflicts_made;
            (p, if made > 0 { "conflict".to_string() } else { theme_name(theme).to_string() })
        } else if stream < 13 {
            let mut g = Gen::new(&mut rng, theme, false);
            let mut p = g.gen_program();
            let what = make_invalid(&mut rng, &mut p);
            (p, format!("invalid:{}", what))
        } else if stream < 15 {
            let mut g = Gen::new(&mut rng, theme, false);
            let mut p = g.gen_program();
            let what = make_crasher(&mut rng, &mut p);
            (p, format!("crasher:{}", what))
        } else {
            let mut g = Gen::new(&mut rng, theme, false);
            (g.gen_program(), theme_name(theme).to_string())
        };
        process_program(id, &kind, &prog, &mut rng, &mut st, &o);
        id += 1;
    }
    let rnames = range_names();
    for _ in 0..n / 3 {
        process_range(id, &mut rng, &rnames, &mut st, &o);
        id += 1;
    }
    if show.is_none() {
        emit_stat(json!({
            "incl_probe": incl,
            "delp_probe": delp,
            "eskip_probe": eskip,
            "refc_probe": refc,
            "mixs_probe": mixs,
            "isng_probe": isng,
            "imul_probe": imul,
            "ilig_probe": ilig,
            "programs_per_stream": st.streams,
            "outcomes": st.outcomes,
            "rule_kinds": st.rule_kinds,
            "violations_by_key": st.violations,
            "extra_evaluations": st.evaluations,
            "strings_checked": st.strings_total,
            "strings_changed_by_shaping": st.strings_changed,
            "nontrivial_programs": st.nontrivial,
            "programs_with_mismatch": st.programs_with_mismatch,
            "elab_none_but_accepted": st.elab_none_but_accepted,
            "max_term_bytes": st.max_term,
            "minimiser_compiles": st.minimiser_compiles,
        }));
    }
}
