//! C08: axis ranges and the user/design/normalized mapping survive into fvar and avar.
//!
//! Stream A (`--n` axes): axis definitions are built exactly as the front ends build them
//! (`CoordConverter::new(rows, default_idx)` / `CoordConverter::unmapped`), the real
//! `fontbe::avar::to_segment_map` (hook) and the real `Fixed: From<UserCoord>` are run on them,
//! the property predicate is evaluated on that output, and a Gallina term compares it with the model.
//! Stream B (`--fonts` designspaces): generated designspace + UFO sources are compiled by
//! `fontc::generate_font`; fvar/avar are read back with read-fonts and with skrifa's own
//! normaliser; same predicate, same model comparison, plus named-instance coordinates.
use fontbe::avar::verif_hooks::to_segment_map;
use fontdrasil::coords::{CoordConverter, DesignCoord, NormalizedCoord, UserCoord};
use fontdrasil::types::Axis;
use serde_json::json;
use skrifa::MetadataProvider;
use std::str::FromStr;
use vh::srcgen::*;
use vh::*;
use write_fonts::read::{FontRef, TableProvider};
use write_fonts::types::{Fixed, Tag};

const Q14: f64 = 1.0 / 16384.0;

#[derive(Clone, Debug)]
struct AxCase {
    kind: &'static str,
    min: f64,
    def: f64,
    max: f64,
    /// rows in source order (user, design); empty = unmapped axis
    rows: Vec<(f64, f64)>,
    default_idx: usize,
}

// ---------------------------------------------------------------------------------------------
// the source's own mapping, written from the property text (independent of fontdrasil)

/// piecewise linear through the rows sorted by user value; first row wins on equal user values;
/// outside the rows the map continues with slope 1 (what designspace/fontTools do).
fn src_user_to_design(rows: &[(f64, f64)], u: f64) -> f64 {
    let mut r = rows.to_vec();
    r.sort_by(|a, b| a.partial_cmp(b).unwrap());
    if r.is_empty() {
        return u;
    }
    if let Some(p) = r.iter().find(|p| p.0 == u) {
        return p.1;
    }
    if u < r[0].0 {
        return u + r[0].1 - r[0].0;
    }
    let l = r.len() - 1;
    if u > r[l].0 {
        return u + r[l].1 - r[l].0;
    }
    let i = r.iter().position(|p| p.0 > u).unwrap();
    let (a, b) = (r[i - 1], r[i]);
    a.1 + (u - a.0) / (b.0 - a.0) * (b.1 - a.1)
}

/// design default -> 0, design min -> -1, design max -> +1
fn src_design_norm(dmin: f64, ddef: f64, dmax: f64, d: f64) -> f64 {
    if d < ddef {
        if dmin < ddef { -(ddef - d) / (ddef - dmin) } else { d - ddef }
    } else if d > ddef {
        if dmax > ddef { (d - ddef) / (dmax - ddef) } else { d - ddef }
    } else {
        0.0
    }
}

struct SrcAxis {
    rows: Vec<(f64, f64)>,
    dmin: f64,
    ddef: f64,
    dmax: f64,
    min: f64,
    max: f64,
}

impl SrcAxis {
    fn of(c: &AxCase) -> SrcAxis {
        let rows: Vec<(f64, f64)> = if c.rows.is_empty() { vec![(c.min, c.min), (c.def, c.def), (c.max, c.max)] } else { c.rows.clone() };
        // the axis' design range is the image of its user range
        let ddef = src_user_to_design(&rows, c.def);
        let dmin = src_user_to_design(&rows, c.min);
        let dmax = src_user_to_design(&rows, c.max);
        SrcAxis { rows, dmin, ddef, dmax, min: c.min, max: c.max }
    }
    /// the user value of a design value: inverse of the (monotone) rows; on a flat run the first user value
    fn design_to_user(&self, d: f64) -> f64 {
        let mut r: Vec<(f64, f64)> = self.rows.iter().map(|p| (p.1, p.0)).collect();
        r.sort_by(|a, b| a.partial_cmp(b).unwrap());
        src_user_to_design(&r, d)
    }
    fn norm(&self, u: f64) -> f64 {
        let u = u.clamp(self.min, self.max);
        src_design_norm(self.dmin, self.ddef, self.dmax, src_user_to_design(&self.rows, u))
    }
}

// ---------------------------------------------------------------------------------------------
// the OpenType side, from the specification

fn spec_default_norm(mn: f64, df: f64, mx: f64, u: f64) -> f64 {
    let u = u.max(mn).min(mx);
    if u < df {
        -(df - u) / (df - mn)
    } else if u > df {
        (u - df) / (mx - df)
    } else {
        0.0
    }
}

/// avar segment map evaluation; on records sharing a `from` the first one is taken.
fn spec_avar(segs: &[(f64, f64)], x: f64) -> f64 {
    if segs.is_empty() {
        return x;
    }
    for (i, s) in segs.iter().enumerate() {
        if s.0 == x {
            return s.1;
        }
        if s.0 > x {
            if i == 0 {
                return x;
            }
            let p = segs[i - 1];
            return p.1 + (x - p.0) * (s.1 - p.1) / (s.0 - p.0);
        }
    }
    x
}

#[derive(Default)]
struct Tally {
    axes: usize,
    by_kind: std::collections::BTreeMap<String, usize>,
    points: usize,
    dup_from: usize,
    nonmono_accepted: usize,
    invalid_malformed_output: usize,
    fonts: usize,
    fonts_err: usize,
    instances: usize,
    instances_omitted: usize,
    skrifa_points: usize,
    viol: std::collections::BTreeMap<String, usize>,
}

fn viol(t: &mut Tally, key: &str, desc: String, extra: serde_json::Value) {
    let c = t.viol.entry(key.to_string()).or_insert(0);
    *c += 1;
    if *c <= 3 {
        emit_violation(key, desc, extra);
    }
}

fn case_json(c: &AxCase) -> serde_json::Value {
    json!({"kind": c.kind, "min": c.min, "default": c.def, "max": c.max, "rows": c.rows, "default_idx": c.default_idx})
}

#[derive(PartialEq, Clone, Copy, Debug)]
enum Class {
    /// user values strictly increasing, design non-decreasing, axis bounds = first/last row, default is a row
    Ok,
    /// as Ok, but the design value stays at the default's from the default to an end of the axis
    FlatEnd,
    /// monotone, min/default/max are rows, but there are rows beyond the axis bounds
    Outside,
    /// not a meaningful axis definition (not monotone, duplicate user values, default not a row)
    Invalid,
}

fn classify(c: &AxCase) -> Class {
    if !(c.min <= c.def && c.def <= c.max) {
        return Class::Invalid;
    }
    if c.rows.is_empty() {
        return Class::Ok;
    }
    let mut r = c.rows.clone();
    r.sort_by(|a, b| a.partial_cmp(b).unwrap());
    if !r.windows(2).all(|w| w[0].0 < w[1].0 && w[0].1 <= w[1].1) || c.default_idx >= c.rows.len() || c.rows[c.default_idx].0 != c.def {
        return Class::Invalid;
    }
    if !r.iter().any(|p| p.0 == c.min) || !r.iter().any(|p| p.0 == c.max) {
        return Class::Invalid;
    }
    if r[0].0 != c.min || r[r.len() - 1].0 != c.max {
        return Class::Outside;
    }
    if flat_through_default(c) {
        return Class::FlatEnd;
    }
    Class::Ok
}

fn well_formed(c: &AxCase) -> bool {
    matches!(classify(c), Class::Ok | Class::FlatEnd)
}

/// violation key for a failed sub-predicate `base` on an axis of class `cl`; None = not reported
fn key_for(cl: Class, base: &str) -> Option<String> {
    match cl {
        Class::Ok => Some(base.to_string()),
        Class::FlatEnd if base == "avar-required-record-missing" => Some("avar-required-record-missing-flat-end-through-default".into()),
        Class::FlatEnd => Some(base.to_string()),
        Class::Outside if base.starts_with("fvar") => Some(base.to_string()),
        Class::Outside => Some("avar-malformed-map-rows-outside-axis-bounds".into()),
        Class::Invalid => None,
    }
}

/// The property predicate on table contents: fvar triple (raw 16.16), this axis' avar records
/// (raw 2.14; None = no avar table) against the source description.
fn check_tables(t: &mut Tally, c: &AxCase, fv: (i32, i32, i32), segs: Option<&[(i16, i16)]>, wherefrom: &str, extra: &serde_json::Value) {
    let src = SrcAxis::of(c);
    let cl = classify(c);
    let j = || json!({"axis": case_json(c), "class": format!("{:?}", cl), "fvar_raw": [fv.0, fv.1, fv.2], "avar_raw": segs, "via": wherefrom, "source": extra});
    // rows beyond the axis bounds: every failed sub-predicate is one finding; collect and report once
    let outside_fails: std::cell::RefCell<Vec<String>> = std::cell::RefCell::new(Vec::new());
    let report = |t: &mut Tally, base: &str, desc: String| match key_for(cl, base) {
        Some(k) if cl == Class::Outside && !base.starts_with("fvar") => {
            let _ = k;
            outside_fails.borrow_mut().push(if base == "normalized-coordinate-differs" { desc } else { base.to_string() });
        }
        Some(k) => viol(t, &k, desc, j()),
        None => t.invalid_malformed_output += 1,
    };
    // (1) fvar bounds are the source's user bounds (nearest 16.16)
    for (name, raw, want) in [("min", fv.0, c.min), ("default", fv.1, c.def), ("max", fv.2, c.max)] {
        if (raw as f64 / 65536.0 - want).abs() > 0.5 / 65536.0 + 1e-12 {
            report(t, "fvar-bound-differs-from-source", format!("fvar {name} = {} but the source axis {name} is {want} ({wherefrom})", raw as f64 / 65536.0));
        }
    }
    if !(fv.0 <= fv.1 && fv.1 <= fv.2) {
        report(t, "fvar-bounds-unordered", format!("fvar min/default/max not ordered: {:?}", fv));
    }
    // (3) required records, monotone, inside [-1,1]
    let segq: Option<Vec<(f64, f64)>> = segs.map(|s| s.iter().map(|p| (p.0 as f64 * Q14, p.1 as f64 * Q14)).collect());
    if let Some(s) = segs {
        let show = format!("{:?}", segq.as_ref().unwrap());
        for (k, req) in [("-1:-1", (-16384i16, -16384i16)), ("0:0", (0, 0)), ("1:1", (16384, 16384))] {
            if !s.contains(&req) {
                report(t, "avar-required-record-missing", format!("avar segment map lacks the required record {k}: {show} ({wherefrom})"));
            }
        }
        if s.iter().any(|p| (p.0 as i32).abs() > 16384 || (p.1 as i32).abs() > 16384) {
            report(t, "avar-record-outside-unit-range", format!("avar record outside [-1,1]: {show} ({wherefrom})"));
        }
        if s.windows(2).any(|w| w[0].0 > w[1].0) {
            report(t, "avar-from-decreasing", format!("avar fromCoordinate decreases: {show} ({wherefrom})"));
        }
        if s.windows(2).any(|w| w[0].1 > w[1].1) {
            report(t, "avar-to-decreasing", format!("avar toCoordinate decreases: {show} ({wherefrom})"));
        }
        if s.windows(2).any(|w| w[0].0 == w[1].0) {
            t.dup_from += 1;
        }
    }
    if cl == Class::Invalid {
        return;
    }
    // (2) fvar-then-avar normalisation == source normalisation, on a grid of user coordinates:
    // rows, midpoints, just inside/outside every row, thirds, the bounds.
    let (mn, df, mx) = (fv.0 as f64 / 65536.0, fv.1 as f64 / 65536.0, fv.2 as f64 / 65536.0);
    let mut grid: Vec<f64> = vec![c.min, c.def, c.max];
    let mut us: Vec<f64> = src.rows.iter().map(|p| p.0).collect();
    us.sort_by(|a, b| a.partial_cmp(b).unwrap());
    let span = (c.max - c.min).max(1e-9);
    for w in us.windows(2) {
        grid.push((w[0] + w[1]) / 2.0);
        grid.push(w[0] + (w[1] - w[0]) / 3.0);
        grid.push(w[0] + (w[1] - w[0]) * 0.9375);
    }
    for u in &us {
        for e in [1e-9, 1e-4, 1e-2] {
            grid.push(u - span * e);
            grid.push(u + span * e);
        }
        grid.push(*u);
    }
    // one quantum of input (as a user-space distance) and of output
    let side = (c.def - c.min).max(c.max - c.def);
    let du = Q14 * side + 1.0 / 32768.0 + span * 1e-12;
    let e = Q14 + 1e-9;
    for u in grid {
        if !(u >= c.min && u <= c.max) {
            continue;
        }
        let x = spec_default_norm(mn, df, mx, u);
        let h = match &segq {
            Some(s) => spec_avar(s, x),
            None => x,
        };
        // the source mapping is monotone here, so bracketing by the two neighbours is sound
        let lo = src.norm(u - du) - e;
        let hi = src.norm(u + du) + e;
        t.points += 1;
        let g = src.norm(u);
        if !(h >= lo && h <= hi) {
            report(t, "normalized-coordinate-differs", format!("user {u}: fvar+avar give {h}, the source's own mapping gives {g} (allowed [{lo}, {hi}]) ({wherefrom})"));
            break;
        }
    }
    let fails = outside_fails.into_inner();
    if !fails.is_empty() {
        let mut rs = c.rows.clone();
        rs.sort_by(|a, b| a.partial_cmp(b).unwrap());
        viol(
            t,
            "avar-malformed-map-rows-outside-axis-bounds",
            format!(
                "axis {}..{}..{} with map rows from user {} to {} ({wherefrom}): avar = {:?}: {}",
                c.min,
                c.def,
                c.max,
                rs[0].0,
                rs[rs.len() - 1].0,
                segq,
                fails.join("; ")
            ),
            j(),
        );
    }
}

/// rows (sorted) whose design value equals the default's design value all the way to one end
/// of the axis while the user range on that side is not empty
fn flat_through_default(c: &AxCase) -> bool {
    if c.rows.is_empty() || c.default_idx >= c.rows.len() {
        return false;
    }
    let ddef = c.rows[c.default_idx].1;
    let dmin = c.rows.iter().map(|p| p.1).fold(f64::INFINITY, f64::min);
    let dmax = c.rows.iter().map(|p| p.1).fold(f64::NEG_INFINITY, f64::max);
    (c.min < c.def && dmin == ddef) || (c.def < c.max && dmax == ddef)
}

// ---------------------------------------------------------------------------------------------
// generators

fn gen_users(rng: &mut Rng, n: usize) -> (Vec<f64>, &'static str) {
    // strictly increasing user values of one "scale"
    let scale = rng.below(7);
    let mut v: Vec<f64> = Vec::new();
    let mut guard = 0;
    while v.len() < n && guard < 1000 {
        guard += 1;
        let x = match scale {
            0 => rng.range(1, 20) as f64 * 50.0,          // wght-like
            1 => 50.0 + rng.range(0, 12) as f64 * 12.5,   // wdth-like
            2 => rng.range(0, 8) as f64 / 8.0,            // 0..1
            3 => -rng.range(0, 40) as f64 / 2.0,          // slnt-like, negative
            4 => rng.range(-3000, 3000) as f64 / 10.0,    // one decimal, not binary
            5 => rng.range(0, 1000) as f64 / 1000.0 * 7.3 + 8.0, // opsz-like decimals
            _ => 400.0 + rng.range(-40, 40) as f64 * 0.001, // very close rows
        };
        let x = (x as f32) as f64; // designspace values are f32
        if !v.contains(&x) {
            v.push(x);
        }
    }
    v.sort_by(|a, b| a.partial_cmp(b).unwrap());
    (v, ["wght", "wdth", "unit", "slnt", "dec1", "opsz", "close"][scale as usize])
}

fn gen_axis(rng: &mut Rng) -> AxCase {
    let n = match rng.below(10) {
        0 => 1,
        1 | 2 => 2,
        3 | 4 => 3,
        5 | 6 => 4,
        7 => 5,
        8 => 6,
        _ => rng.range(7, 12) as usize,
    };
    let (us, _scale) = gen_users(rng, n);
    let n = us.len();
    let default_idx = match rng.below(4) {
        0 => 0,
        1 => n - 1,
        _ => rng.below(n as u64) as usize,
    };
    // design values
    let style = rng.below(10);
    let mut ds: Vec<f64> = Vec::with_capacity(n);
    let mut kind: &'static str = "general";
    match style {
        0 => {
            kind = "identity";
            ds = us.clone();
        }
        2 if n >= 4 => {
            // design = user except for one or two nudged interior rows: the un-nudged interior rows lie
            // exactly on the diagonal of the default normalisation (added after seeded change C08-1)
            kind = "mostly-identity";
            ds = us.clone();
            for _ in 0..rng.range(1, 2) {
                let i = rng.range(1, n as i64 - 2) as usize;
                let lo = ds[i - 1];
                let hi = ds[i + 1];
                let bent = ds[i] + (hi - ds[i]) * 0.3;
                if bent > lo && bent < hi {
                    ds[i] = (bent as f32) as f64;
                }
            }
        }
        1 => {
            kind = "linear";
            let s = *rng.pick(&[0.1, 2.0, 0.5, 10.0, 0.001]);
            let o = *rng.pick(&[0.0, 20.0, -5.5]);
            ds = us.iter().map(|u| ((u * s + o) as f32) as f64).collect();
        }
        _ => {
            let mut d = match rng.below(3) {
                0 => rng.range(0, 200) as f64,
                1 => rng.range(-50, 50) as f64 / 4.0,
                _ => ((rng.range(0, 3000) as f64 / 10.0) as f32) as f64,
            };
            let flat_p = *rng.pick(&[0u64, 0, 1, 3]);
            for _ in 0..n {
                ds.push(d);
                if !rng.chance(flat_p, 6) {
                    d += match rng.below(4) {
                        0 => rng.range(1, 60) as f64,
                        1 => rng.range(1, 40) as f64 / 4.0,
                        2 => ((rng.range(1, 400) as f64 / 10.0) as f32) as f64,
                        _ => rng.range(1, 8) as f64 / 1024.0,
                    };
                    d = (d as f32) as f64;
                }
            }
            if ds.windows(2).any(|w| w[0] == w[1]) {
                kind = "flat";
            }
        }
    }
    let mut rows: Vec<(f64, f64)> = us.iter().cloned().zip(ds.iter().cloned()).collect();
    let (min, def, max) = (us[0], us[default_idx], us[n - 1]);
    // adversarial variants
    let mut c = AxCase { kind, min, def, max, rows: rows.clone(), default_idx };
    match rng.below(16) {
        0 if n >= 2 => {
            // design flat from the default to one end of the axis
            let dd = rows[default_idx].1;
            if rng.chance(1, 2) {
                for r in rows.iter_mut().take(default_idx) {
                    r.1 = dd;
                }
            } else {
                for r in rows.iter_mut().skip(default_idx + 1) {
                    r.1 = dd;
                }
            }
            c.rows = rows;
            c.kind = "flat-end";
        }
        1 if n >= 3 => {
            // not monotone: swap two design values
            let i = rng.below(n as u64 - 1) as usize;
            if rows[i].1 != rows[i + 1].1 {
                let t = rows[i].1;
                rows[i].1 = rows[i + 1].1;
                rows[i + 1].1 = t;
                c.rows = rows;
                c.kind = "nonmonotone";
            }
        }
        2 if n >= 3 => {
            // rows beyond the axis bounds (Glyphs "Axis Mappings" wider than the masters)
            let lo = if default_idx > 0 && rng.chance(2, 3) { 1 } else { 0 };
            let hi = if default_idx < n - 1 && (lo == 0 || rng.chance(1, 2)) { n - 2 } else { n - 1 };
            if lo != 0 || hi != n - 1 {
                c.min = us[lo];
                c.max = us[hi];
                c.kind = "rows-outside-bounds";
            }
        }
        3 | 4 => {
            // source order is not sorted
            let d = c.rows[c.default_idx];
            rng.shuffle(&mut c.rows);
            c.default_idx = c.rows.iter().position(|r| *r == d).unwrap();
        }
        5 if style == 0 || n <= 3 => {
            // no <map> at all
            c.rows = vec![];
            c.default_idx = 0;
            c.kind = "unmapped";
        }
        _ => {}
    }
    c
}

fn build_axis(c: &AxCase, tag: &str) -> Result<Axis, String> {
    let (min, default, max) = (UserCoord::new(c.min), UserCoord::new(c.def), UserCoord::new(c.max));
    let converter = if c.rows.is_empty() {
        CoordConverter::unmapped(min, default, max)
    } else {
        CoordConverter::new(c.rows.iter().map(|(u, d)| (UserCoord::new(*u), DesignCoord::new(*d))).collect(), c.default_idx).map_err(|e| e.to_string())?
    };
    Ok(Axis { name: tag.to_string(), tag: Tag::from_str(tag).unwrap(), min, default, max, hidden: false, converter, localized_names: Default::default() })
}

fn coq_rows(rows: &[(f64, f64)]) -> String {
    coq_list(rows, |(u, d)| format!("({}, {})", coq_q(*u), coq_q(*d)))
}

fn coq_axis(c: &AxCase) -> String {
    if c.rows.is_empty() {
        format!("(mk_axis_unmapped {} {} {})", coq_q(c.min), coq_q(c.def), coq_q(c.max))
    } else {
        format!("(mk_axis {} {} {} {} {})", coq_q(c.min), coq_q(c.def), coq_q(c.max), coq_rows(&c.rows), coq_nat(c.default_idx))
    }
}

fn coq_zpts(s: &[(i16, i16)]) -> String {
    coq_list(s, |(a, b)| format!("({}, {})", coq_z(*a as i64), coq_z(*b as i64)))
}

fn panic_msg(p: Box<dyn std::any::Any + Send>) -> String {
    if let Some(s) = p.downcast_ref::<String>() {
        s.clone()
    } else if let Some(s) = p.downcast_ref::<&str>() {
        s.to_string()
    } else {
        "panic".into()
    }
}

// ---------------------------------------------------------------------------------------------
// stream A

fn stream_a(rng: &mut Rng, n: usize, id: &mut usize, t: &mut Tally) {
    for _ in 0..n {
        let c = gen_axis(rng);
        t.axes += 1;
        *t.by_kind.entry(format!("A:{}", c.kind)).or_insert(0) += 1;
        let axis = match build_axis(&c, "TEST") {
            Ok(a) => a,
            Err(e) => {
                viol(t, "converter-rejects-generated-axis", format!("CoordConverter::new failed: {e}"), case_json(&c));
                continue;
            }
        };
        let r = std::panic::catch_unwind(|| {
            let sm = to_segment_map(&axis);
            let segs: Vec<(i16, i16)> = sm.axis_value_maps.iter().map(|m| (m.from_coordinate.to_bits(), m.to_coordinate.to_bits())).collect();
            let fv: (Fixed, Fixed, Fixed) = (axis.min.into(), axis.default.into(), axis.max.into());
            // sample conversions of the converter itself, for the model comparison
            let mut samples: Vec<(f64, f64, f64, f64)> = Vec::new(); // user, design, norm, design_to_user(design)
            let mut us: Vec<f64> = axis.converter.iter().map(|(u, _, _)| u.to_f64()).collect();
            us.sort_by(|a, b| a.partial_cmp(b).unwrap());
            let mut pts: Vec<f64> = us.clone();
            for w in us.windows(2) {
                pts.push(w[0] + (w[1] - w[0]) * 0.25);
            }
            pts.push(us[0] - 3.0);
            pts.push(us[us.len() - 1] + 2.5);
            for u in pts {
                let uc = UserCoord::new(u);
                let d = uc.to_design(&axis.converter);
                let nn: NormalizedCoord = uc.to_normalized(&axis.converter);
                let back = d.to_user(&axis.converter);
                samples.push((u, d.to_f64(), nn.to_f64(), back.to_f64()));
            }
            (segs, (fv.0.to_bits(), fv.1.to_bits(), fv.2.to_bits()), samples)
        });
        let (segs, fv, samples) = match r {
            Ok(x) => x,
            Err(p) => {
                let key = if classify(&c) != Class::Invalid { "segment-map-panic" } else { "segment-map-panic-invalid-source" };
                viol(t, key, format!("to_segment_map / coordinate conversion panicked: {}", panic_msg(p)), case_json(&c));
                continue;
            }
        };
        if c.kind == "nonmonotone" {
            t.nonmono_accepted += 1;
        }
        check_tables(t, &c, fv, Some(&segs), "to_segment_map", &json!(null));
        // round trip user -> design -> user on strictly increasing maps
        if well_formed(&c) && !c.rows.is_empty() {
            let mut r = c.rows.clone();
            r.sort_by(|a, b| a.partial_cmp(b).unwrap());
            if r.windows(2).all(|w| w[0].1 < w[1].1) {
                for s in &samples {
                    if (s.3 - s.0).abs() > 1e-9 * (1.0 + s.0.abs()) {
                        viol(t, "user-design-roundtrip", format!("user {} -> design {} -> user {}", s.0, s.1, s.3), case_json(&c));
                        break;
                    }
                }
            }
        }
        // model comparison
        let samp = coq_list(&samples, |s| format!("({}, {}, {}, {})", coq_q(s.0), coq_q(s.1), coq_q(s.2), coq_q(s.3)));
        let coq = format!(
            "match {} with Some a => segmap_agrees a {} && fvar_agrees a ({}, {}, {}) && conv_agrees a {} | None => false end",
            coq_axis(&c),
            coq_zpts(&segs),
            coq_z(fv.0 as i64),
            coq_z(fv.1 as i64),
            coq_z(fv.2 as i64),
            samp
        );
        let show = format!("match {} with Some a => (to_segment_map a, fvar_axis a) | None => (None, (0,0,0)%Z) end", coq_axis(&c));
        let nontrivial = segs.len() > 3 || segs.iter().any(|p| p.0 != p.1);
        emit_case(*id, &format!("A:{}", c.kind), coq, Some(show), nontrivial, format!("{:?}", c), json!({"axis": case_json(&c), "impl_avar": segs, "impl_fvar": [fv.0, fv.1, fv.2]}));
        *id += 1;
    }
}

// ---------------------------------------------------------------------------------------------
// streams B (designspace + UFO) and C (.glyphs): whole fonts

fn glyphs_for(shift: f64) -> Vec<GlyphSrc> {
    vec![GlyphSrc::new(".notdef", 500.0).rect(50.0, 0.0, 450.0, 700.0), GlyphSrc::new("a", 600.0 + shift).uni(0x61).rect(40.0, 0.0, 400.0 + shift, 500.0)]
}

struct FontCase {
    axes: Vec<AxCase>,
    /// per instance, per axis: design coordinate; None = the instance's <location> has no
    /// <dimension> for this axis (its coordinate is then the axis default)
    instances: Vec<Vec<Option<f64>>>,
}

fn gen_instances(rng: &mut Rng, axes: &[AxCase]) -> Vec<Vec<Option<f64>>> {
    let ni = rng.below(5) as usize;
    let mut instances = Vec::new();
    for _ in 0..ni {
        let mut loc = Vec::new();
        // a third of the instances leave axes out (each axis with probability 1/2, at least one)
        let partial = rng.chance(1, 3);
        let forced = rng.below(axes.len() as u64) as usize;
        for (ai, c) in axes.iter().enumerate() {
            if partial && (ai == forced || rng.chance(1, 2)) {
                loc.push(None);
                continue;
            }
            let s = SrcAxis::of(c);
            let (lo, hi) = (s.dmin.min(s.dmax), s.dmin.max(s.dmax));
            let d = match rng.below(5) {
                0 => s.ddef,
                1 => lo,
                2 => hi,
                3 => {
                    let r = rng.pick(&s.rows).1;
                    r.clamp(lo, hi)
                }
                _ => lo + (hi - lo) * (rng.below(17) as f64 / 16.0),
            };
            loc.push(Some((d as f32) as f64));
        }
        instances.push(loc);
    }
    instances
}

fn full(v: &[f64]) -> Vec<Option<f64>> {
    v.iter().map(|x| Some(*x)).collect()
}

fn gen_font(rng: &mut Rng) -> FontCase {
    let na = *rng.pick(&[1usize, 1, 2, 2, 3]);
    let mut axes = Vec::new();
    while axes.len() < na {
        let c = gen_axis(rng);
        // point axes are dropped from fvar; they are exercised in stream A
        if c.min == c.max {
            continue;
        }
        axes.push(c);
    }
    let instances = gen_instances(rng, &axes);
    FontCase { axes, instances }
}

/// past failures and hand-picked boundary sources, always run first
fn corpus() -> Vec<FontCase> {
    let ax = |kind, min, def, max, rows: &[(f64, f64)], k| AxCase { kind, min, def, max, rows: rows.to_vec(), default_idx: k };
    vec![
        // map rows beyond the axis bounds
        FontCase { axes: vec![ax("rows-outside-bounds", 300.0, 400.0, 700.0, &[(100.0, 20.0), (300.0, 60.0), (400.0, 80.0), (700.0, 150.0), (900.0, 200.0)], 2)], instances: vec![full(&[60.0]), full(&[150.0])] },
        // design flat from the axis minimum through the default
        FontCase { axes: vec![ax("flat-end", 100.0, 400.0, 900.0, &[(100.0, 50.0), (400.0, 50.0), (900.0, 100.0)], 1)], instances: vec![full(&[50.0])] },
        // design flat from the default to the axis maximum
        FontCase { axes: vec![ax("flat-end", 100.0, 400.0, 900.0, &[(100.0, 10.0), (400.0, 50.0), (900.0, 50.0)], 1)], instances: vec![full(&[10.0])] },
        // many-to-one in the middle, default inside the flat run (ufo2ft #978 shape)
        FontCase { axes: vec![ax("flat", 100.0, 500.0, 900.0, &[(100.0, 10.0), (400.0, 50.0), (500.0, 50.0), (700.0, 80.0), (900.0, 100.0)], 2)], instances: vec![full(&[50.0]), full(&[100.0])] },
        // default at either end, non-integer values, rows not in order
        FontCase { axes: vec![ax("general", 62.5, 62.5, 100.0, &[(100.0, 100.0), (87.5, 89.25), (62.5, 70.0), (75.0, 79.5)], 2), ax("general", -12.0, 0.0, 0.0, &[(-12.0, -30.5), (-6.0, -10.25), (0.0, 0.0)], 2)], instances: vec![full(&[70.0, -30.5])] },
        // one bent stop next to a stop that lies exactly on the diagonal (seeded change C08-1)
        FontCase { axes: vec![ax("mostly-identity", 400.0, 400.0, 700.0, &[(400.0, 400.0), (500.0, 530.0), (600.0, 600.0), (700.0, 700.0)], 0)], instances: vec![full(&[600.0])] },
        FontCase { axes: vec![ax("mostly-identity", 400.0, 700.0, 700.0, &[(400.0, 400.0), (500.0, 500.0), (600.0, 630.0), (700.0, 700.0)], 3)], instances: vec![] },
        // instances that leave axes out (seeded change C08c): the coordinate is the axis default; defaults at
        // min / inside / max, none of them 0, axes with and without <map>
        FontCase {
            axes: vec![ax("general", 100.0, 400.0, 900.0, &[(100.0, 20.0), (400.0, 80.0), (900.0, 200.0)], 1), ax("unmapped", 75.0, 75.0, 125.0, &[], 0), ax("general", 8.0, 144.0, 144.0, &[(8.0, 0.0), (14.0, 30.5), (144.0, 100.0)], 2)],
            instances: vec![vec![Some(200.0), None, None], vec![None, Some(125.0), None], vec![None, None, Some(30.5)], vec![None, None, None], full(&[20.0, 100.0, 0.0])],
        },
        FontCase { axes: vec![ax("unmapped", 100.0, 100.0, 1000.0, &[], 0), ax("unmapped", 100.0, 1000.0, 1000.0, &[], 0)], instances: vec![vec![Some(1000.0), None], vec![None, Some(100.0)]] },
        FontCase { axes: vec![ax("flat", 100.0, 500.0, 900.0, &[(100.0, 10.0), (400.0, 50.0), (500.0, 50.0), (900.0, 100.0)], 2)], instances: vec![vec![None], full(&[100.0])] },
        // rows closer than one F2Dot14 step
        FontCase { axes: vec![ax("close", 100.0, 400.0, 900.0, &[(100.0, 10.0), (400.0, 50.0), (400.0078125, 60.0), (900.0, 100.0)], 1)], instances: vec![] },
    ]
}

const TAGS: [&str; 3] = ["wght", "wdth", "opsz"];
const NAMES: [&str; 3] = ["Weight", "Width", "Optical Size"];

fn designspace_of(fc: &FontCase, family: &str) -> Design {
    let mut d = Design { family: family.into(), upem: 1000, ..Default::default() };
    let srcs: Vec<SrcAxis> = fc.axes.iter().map(SrcAxis::of).collect();
    for (i, c) in fc.axes.iter().enumerate() {
        d.axes.push(AxisSrc { name: NAMES[i].into(), tag: TAGS[i].into(), min: c.min, default: c.def, max: c.max, map: c.rows.clone(), hidden: false });
    }
    // masters: the default, and one per axis at an end of its design range
    let defloc: Vec<(String, f64)> = srcs.iter().enumerate().map(|(i, s)| (NAMES[i].to_string(), s.ddef)).collect();
    d.masters.push(Master { name: "M0".into(), style: "Regular".into(), location: defloc.clone(), glyphs: glyphs_for(0.0), ..Default::default() });
    for (i, s) in srcs.iter().enumerate() {
        let far = if s.dmax != s.ddef { s.dmax } else { s.dmin };
        if far == s.ddef {
            continue;
        }
        let mut loc = defloc.clone();
        loc[i].1 = far;
        d.masters.push(Master { name: format!("M{}", i + 1), style: format!("S{}", i + 1), location: loc, glyphs: glyphs_for(40.0 + 10.0 * i as f64), ..Default::default() });
    }
    for (k, inst) in fc.instances.iter().enumerate() {
        d.instances.push(InstanceSrc { family: d.family.clone(), style: format!("I{k}"), postscript: None, location: {
            let mut l: Vec<(String, f64)> = inst.iter().enumerate().filter_map(|(i, v)| v.map(|v| (NAMES[i].to_string(), v))).collect();
            if l.is_empty() {
                // norad rejects an empty <location>; a dimension for an axis the document does not define is
                // skipped by the front end, which leaves the instance without any axis
                l.push(("No Such Axis".to_string(), 1.0));
            }
            l
        } });
    }
    d
}

fn gnum(x: f64) -> String {
    format!("{}", x)
}

/// A minimal Glyphs 3 source: one axis with an "Axis Mappings" parameter; masters at the design
/// values of rows lo / k / hi; the origin is the master at row k.
fn glyphs_source(rows: &[(f64, f64)], lo: usize, k: usize, hi: usize, instances: &[f64]) -> String {
    let mut s = String::from("{\n.appVersion = \"3436\";\n.formatVersion = 3;\naxes = (\n{\nname = Weight;\ntag = wght;\n}\n);\ncustomParameters = (\n{\nname = \"Axis Mappings\";\nvalue = {\nwght = {\n");
    for (u, d) in rows {
        s.push_str(&format!("\"{}\" = {};\n", gnum(*u), gnum(*d)));
    }
    s.push_str("};\n};\n},\n{\nname = \"Variable Font Origin\";\nvalue = mk;\n}\n);\nfamilyName = \"C08 Glyphs\";\nfontMaster = (\n");
    let mut ms: Vec<(String, f64)> = vec![("mk".into(), rows[k].1)];
    if lo != k {
        ms.push(("mlo".into(), rows[lo].1));
    }
    if hi != k {
        ms.push(("mhi".into(), rows[hi].1));
    }
    for (i, (id, d)) in ms.iter().enumerate() {
        s.push_str(&format!("{{\naxesValues = (\n{}\n);\nid = {};\nname = \"Master {}\";\n}}{}\n", gnum(*d), id, id, if i + 1 < ms.len() { "," } else { "" }));
    }
    s.push_str(");\nglyphs = (\n{\nglyphname = space;\nlayers = (\n");
    for (i, (id, _)) in ms.iter().enumerate() {
        s.push_str(&format!("{{\nlayerId = {};\nwidth = {};\n}}{}\n", id, 200 + 50 * i, if i + 1 < ms.len() { "," } else { "" }));
    }
    s.push_str(");\nunicode = 32;\n}\n);\ninstances = (\n");
    for (i, d) in instances.iter().enumerate() {
        s.push_str(&format!("{{\naxesValues = (\n{}\n);\nname = \"Inst {}\";\n}}{}\n", gnum(*d), i, if i + 1 < instances.len() { "," } else { "" }));
    }
    s.push_str(");\nunitsPerEm = 1000;\nversionMajor = 1;\nversionMinor = 1;\n}\n");
    s
}

/// One compiled font against its source description. `glyphs_instances`: the Glyphs front end
/// takes instance locations through design -> normalized -> design -> user.
#[allow(clippy::too_many_arguments)]
fn check_font(t: &mut Tally, id: &mut usize, stream: &str, label: String, fc: &FontCase, tags: &[&str], out: Outcome, src_json: serde_json::Value, glyphs_instances: bool) {
    t.fonts += 1;
    let all_reportable = fc.axes.iter().all(|c| classify(c) != Class::Invalid);
    let all_wf = fc.axes.iter().all(well_formed);
    let bytes = match out {
        Outcome::Font(b) => b,
        Outcome::Error(e) => {
            t.fonts_err += 1;
            // the message names the scratch directory; keep only what follows the path
            let tail = e.rsplit("': ").next().unwrap_or(&e).to_string();
            *t.by_kind.entry(format!("{stream}:error:{}", tail.chars().take(60).collect::<String>())).or_insert(0) += 1;
            if all_wf {
                viol(t, "compile-error-on-wellformed-axes", format!("fontc rejects a source with well-formed axis maps: {e}"), src_json);
            }
            return;
        }
        Outcome::Panic(p) => {
            let key = if all_reportable { "compile-panic" } else { "compile-panic-invalid-source" };
            viol(t, key, format!("fontc panicked: {p}"), src_json);
            return;
        }
    };
    if fc.axes.iter().any(|c| c.kind == "nonmonotone") {
        t.nonmono_accepted += 1;
    }
    let font = match FontRef::new(&bytes) {
        Ok(f) => f,
        Err(e) => {
            viol(t, "font-unreadable", format!("{e}"), src_json);
            return;
        }
    };
    let fvar = match font.fvar() {
        Ok(f) => f,
        Err(e) => {
            viol(t, "fvar-missing", format!("variable source but no fvar: {e}"), src_json);
            return;
        }
    };
    let fax = fvar.axes().unwrap();
    if fax.len() != fc.axes.len() {
        viol(t, "fvar-axis-count", format!("{} axes in fvar, {} in the source", fax.len(), fc.axes.len()), src_json);
        return;
    }
    let srcs: Vec<SrcAxis> = fc.axes.iter().map(SrcAxis::of).collect();
    let avar = font.avar().ok();
    let mut coq_parts: Vec<String> = Vec::new();
    let mut all_segs: Vec<Option<Vec<(i16, i16)>>> = Vec::new();
    for (i, c) in fc.axes.iter().enumerate() {
        let a = &fax[i];
        if a.axis_tag().to_string() != tags[i] {
            viol(t, "fvar-axis-order", format!("axis {i} is {} not {}", a.axis_tag(), tags[i]), src_json.clone());
        }
        let fv = (a.min_value().to_bits(), a.default_value().to_bits(), a.max_value().to_bits());
        let segs: Option<Vec<(i16, i16)>> = avar.as_ref().and_then(|av| {
            av.axis_segment_maps().iter().nth(i).and_then(|m| m.ok()).map(|m| m.axis_value_maps().iter().map(|r| (r.from_coordinate().to_bits(), r.to_coordinate().to_bits())).collect())
        });
        if avar.is_some() && segs.is_none() {
            viol(t, "avar-axis-record-missing", format!("avar present but no segment map for axis {i}"), src_json.clone());
        }
        check_tables(t, c, fv, segs.as_deref(), &format!("compiled font, {stream}"), &src_json);
        *t.by_kind.entry(format!("{stream}:{}", c.kind)).or_insert(0) += 1;
        t.axes += 1;
        coq_parts.push(format!(
            "match {} with Some a => fvar_agrees a ({}, {}, {}) && {} | None => false end",
            coq_axis(c),
            coq_z(fv.0 as i64),
            coq_z(fv.1 as i64),
            coq_z(fv.2 as i64),
            match &segs {
                Some(s) => format!("segmap_agrees a {}", coq_zpts(s)),
                None => "segmap_identity_z a".to_string(),
            }
        ));
        all_segs.push(segs);
    }
    // the real consumer: skrifa's own fvar+avar normalisation against the source mapping
    if all_wf {
        let axes = font.axes();
        'pts: for (i, c) in fc.axes.iter().enumerate() {
            let s = &srcs[i];
            let mut us: Vec<f64> = s.rows.iter().map(|p| p.0).collect();
            us.sort_by(|a, b| a.partial_cmp(b).unwrap());
            us.push(c.def);
            let more: Vec<f64> = us.windows(2).map(|w| (w[0] + w[1]) / 2.0).collect();
            us.extend(more);
            let side = (c.def - c.min).max(c.max - c.def);
            let du = 2.0 * Q14 * side + 1.0 / 16384.0;
            for u in us {
                if !(u >= c.min && u <= c.max) {
                    continue;
                }
                let loc = axes.location([(tags[i], u as f32)]);
                let h = loc.coords()[i].to_f32() as f64;
                let (lo, hi) = (s.norm(u - du) - 2.0 * Q14, s.norm(u + du) + 2.0 * Q14);
                t.skrifa_points += 1;
                if !(h >= lo && h <= hi) {
                    viol(t, "normalized-coordinate-differs-skrifa", format!("axis {} user {u}: skrifa normalises to {h}, the source's own mapping gives {} (allowed [{lo}, {hi}])", tags[i], s.norm(u)), src_json.clone());
                    break 'pts;
                }
            }
        }
    }
    // (4) named instances
    let insts = fvar.instances().unwrap();
    let mut inst_terms: Vec<String> = Vec::new();
    if insts.len() != fc.instances.len() {
        viol(t, "fvar-instance-count", format!("{} instances in fvar, {} in the source", insts.len(), fc.instances.len()), src_json.clone());
    } else {
        for (k, inst) in fc.instances.iter().enumerate() {
            let rec = insts.get(k).unwrap();
            for (i, c) in fc.axes.iter().enumerate() {
                let raw = rec.coordinates[i].get().to_bits();
                let a = &fax[i];
                t.instances += 1;
                let s = &srcs[i];
                let got = raw as f64 / 65536.0;
                let inst_json = || json!({"instance_index": k, "instance_location": inst, "axis": tags[i], "axis_definition": case_json(c), "fvar_coordinate": got, "fvar_axis": [a.min_value().to_f64(), a.default_value().to_f64(), a.max_value().to_f64()], "source": src_json});
                match inst[i] {
                    None => {
                        // the instance does not mention this axis: the coordinate is the axis default
                        t.instances_omitted += 1;
                        if (got - c.def).abs() > 0.5 / 65536.0 + 1e-12 {
                            viol(
                                t,
                                "instance-omitted-axis-not-at-default",
                                format!("instance {k} gives no location for axis {}: fvar coordinate is {got}, the axis default is {} (axis range [{}, {}])", tags[i], c.def, c.min, c.max),
                                inst_json(),
                            );
                        }
                        if !(raw >= a.min_value().to_bits() && raw <= a.max_value().to_bits()) {
                            viol(t, "instance-outside-axis-range", format!("instance {k} axis {} (not given in the source): coordinate {got} outside fvar range [{}, {}]", tags[i], a.min_value(), a.max_value()), inst_json());
                        }
                        inst_terms.push(format!("match {} with Some a => inst_agrees a None {} | None => false end", coq_axis(c), coq_z(raw as i64)));
                    }
                    Some(dv) => {
                        let in_src_range = dv >= s.dmin.min(s.dmax) && dv <= s.dmin.max(s.dmax);
                        if in_src_range && well_formed(c) {
                            if !(raw >= a.min_value().to_bits() && raw <= a.max_value().to_bits()) {
                                viol(
                                    t,
                                    "instance-outside-axis-range",
                                    format!("instance {k} axis {}: coordinate {got} outside fvar range [{}, {}] although its design location {dv} lies in the axis' design range", tags[i], a.min_value(), a.max_value()),
                                    inst_json(),
                                );
                            }
                            // ... and it is the user value the source's own mapping gives for that design value
                            let want = s.design_to_user(dv);
                            if (got - want).abs() > 0.5 / 65536.0 + 1e-7 * (1.0 + want.abs()) {
                                viol(
                                    t,
                                    "instance-coordinate-differs-from-source",
                                    format!("instance {k} axis {}: fvar coordinate {got}, but design {dv} is user {want} in the source's mapping", tags[i]),
                                    inst_json(),
                                );
                            }
                        }
                        let conv = if glyphs_instances { format!("(norm_to_user (aconv a) (design_to_norm (aconv a) {}))", coq_q(dv)) } else { format!("(design_to_user (aconv a) {})", coq_q(dv)) };
                        inst_terms.push(format!("match {} with Some a => near16u {} {} | None => false end", coq_axis(c), conv, coq_z(raw as i64)));
                    }
                }
            }
        }
    }
    let mut coq = coq_parts.join(" && ");
    for it in inst_terms {
        coq.push_str(" && ");
        coq.push_str(&it);
    }
    let nontrivial = all_segs.iter().any(|s| s.as_ref().is_some_and(|s| s.iter().any(|p| p.0 != p.1)));
    emit_case(*id, &format!("{stream}:font"), coq, None, nontrivial, format!("{label}:{:?}", fc.axes), json!({"axes": fc.axes.iter().map(case_json).collect::<Vec<_>>(), "instances": fc.instances, "impl_avar": all_segs}));
    *id += 1;
}

fn stream_b(rng: &mut Rng, n: usize, id: &mut usize, t: &mut Tally) {
    let fixed = corpus();
    let nfixed = fixed.len();
    let mut it = fixed.into_iter();
    for fi in 0..n + nfixed {
        let fc = match it.next() {
            Some(f) => f,
            None => gen_font(rng),
        };
        let d = designspace_of(&fc, &format!("F{fi}"));
        let dir = scratch_dir("c08");
        let path = d.write_designspace(dir.path());
        let out = compile_path(&path, None, None);
        let src_json = json!({"designspace": d.designspace_xml(), "masters": d.masters.iter().map(|m| json!({"name": m.name, "location": m.location})).collect::<Vec<_>>(), "axes": fc.axes.iter().map(case_json).collect::<Vec<_>>(), "instances": fc.instances});
        check_font(t, id, "B", format!("ds{fi}"), &fc, &TAGS, out, src_json, false);
    }
}

fn stream_c(rng: &mut Rng, n: usize, id: &mut usize, t: &mut Tally) {
    let mut done = 0;
    let mut guard = 0;
    while done < n && guard < n * 50 + 50 {
        guard += 1;
        let mut c = gen_axis(rng);
        if c.rows.len() < 2 || c.kind == "nonmonotone" {
            continue;
        }
        let mut rows = c.rows.clone();
        rows.sort_by(|a, b| a.partial_cmp(b).unwrap());
        let nr = rows.len();
        // masters sit on rows whose design value is unique (the front end finds the user bounds by design value)
        let uniq: Vec<usize> = (0..nr).filter(|&i| rows.iter().filter(|r| r.1 == rows[i].1).count() == 1).collect();
        if uniq.len() < 2 {
            continue;
        }
        // mostly the full range; sometimes masters inside the mapped range
        let (lo, hi) = if rng.chance(3, 4) && uniq[0] == 0 && uniq[uniq.len() - 1] == nr - 1 { (0, nr - 1) } else { (uniq[0], uniq[uniq.len() - 1]) };
        let inner: Vec<usize> = uniq.iter().cloned().filter(|&i| i >= lo && i <= hi).collect();
        let k = *rng.pick(&inner);
        if rows.iter().all(|r| r.0 == r.1) {
            continue; // identity mappings are dropped by the front end ("unmapped")
        }
        c.rows = rows.clone();
        c.default_idx = k;
        c.min = rows[lo].0;
        c.def = rows[k].0;
        c.max = rows[hi].0;
        if lo != 0 || hi != nr - 1 {
            c.kind = "rows-outside-bounds";
        }
        let mut insts: Vec<f64> = vec![];
        if rng.chance(1, 2) {
            insts.push(rows[k].1);
            if lo != k {
                insts.push(rows[lo].1);
            }
        }
        let text = glyphs_source(&rows, lo, k, hi, &insts);
        let dir = scratch_dir("c08g");
        let path = dir.path().join("C08.glyphs");
        std::fs::write(&path, &text).unwrap();
        let out = compile_path(&path, None, None);
        let fc = FontCase { axes: vec![c], instances: insts.iter().map(|d| vec![Some(*d)]).collect() };
        let src_json = json!({"glyphs_source": text, "axes": fc.axes.iter().map(case_json).collect::<Vec<_>>(), "instances": fc.instances});
        check_font(t, id, "C", format!("glyphs{done}"), &fc, &["wght"], out, src_json, true);
        done += 1;
    }
}

fn main() {
    let args: Vec<String> = std::env::args().collect();
    let args = &args[1..];
    let seed = arg_val(args, "--seed", 1);
    let n = arg_val(args, "--n", 300) as usize;
    let nf = arg_val(args, "--fonts", 20) as usize;
    let ng = arg_val(args, "--glyphs", 10) as usize;
    if std::env::var("VH_LOUD").is_err() {
        quiet_panics();
    }
    let mut rng = Rng::new(seed);
    let mut t = Tally::default();
    let mut id = 0usize;
    // whole fonts first, so that the first recorded instance of a violation key carries a full source
    stream_b(&mut rng, nf, &mut id, &mut t);
    stream_c(&mut rng, ng, &mut id, &mut t);
    stream_a(&mut rng, n, &mut id, &mut t);
    emit_stat(json!({
        "axes": t.axes, "axis_kinds": t.by_kind, "user_points_checked": t.points, "skrifa_points_checked": t.skrifa_points,
        "maps_with_duplicate_from_after_quantisation": t.dup_from,
        "nonmonotone_sources_accepted_without_error": t.nonmono_accepted, "failed_subpredicates_on_invalid_sources_not_reported": t.invalid_malformed_output,
        "fonts_compiled": t.fonts, "fonts_rejected": t.fonts_err,
        "instance_coordinates": t.instances, "instance_coordinates_for_omitted_axes": t.instances_omitted, "violations_by_key": t.viol, "extra_evaluations": t.points + t.skrifa_points
    }));
}
