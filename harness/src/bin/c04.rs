//! C04: advances (hmtx+HVAR, vmtx+VVAR, gvar phantom points) and global metrics (OS/2, hhea, vhea,
//! post + MVAR) of a compiled variable font at every master location, against the source.
//!
//! Every case is one generated designspace compiled by the real `fontc::generate_font`.  The font is
//! decoded with read-fonts; item variation stores are evaluated at each master location by an exact
//! rational evaluator written here from the specification and by read-fonts' own evaluator; the
//! property predicate is evaluated on those numbers.  The Gallina terms hand the decoded delta sets,
//! default fields and the source description to the model (FV.C04.Check).
use serde_json::json;
use std::collections::BTreeMap;
use vh::srcgen::{compile_path, quiet_panics, scratch_dir, AxisSrc, Design, GlyphSrc, Master, Outcome};
use vh::*;
use write_fonts::read::tables::variations::{DeltaSetIndex, DeltaSetIndexMap, FloatItemDeltaTarget, ItemVariationStore};
use write_fonts::read::types::{F2Dot14, FWord, GlyphId, Tag};
use write_fonts::read::{FontRef, TableProvider};

// ------------------------------------------------------------------------------------------------
// exact rationals (i128, checked; None = overflow, the caller falls back to f64)
// ------------------------------------------------------------------------------------------------
#[derive(Clone, Copy, Debug, PartialEq)]
struct Rat(i128, i128);
fn gcd(a: i128, b: i128) -> i128 {
    let (mut a, mut b) = (a.abs(), b.abs());
    while b != 0 {
        let t = a % b;
        a = b;
        b = t;
    }
    a
}
impl Rat {
    fn new(n: i128, d: i128) -> Rat {
        assert!(d != 0);
        let g = gcd(n, d).max(1);
        let s = if d < 0 { -1 } else { 1 };
        Rat(s * n / g, s * d / g)
    }
    fn int(n: i128) -> Rat {
        Rat(n, 1)
    }
    fn mul(self, o: Rat) -> Option<Rat> {
        let a = Rat::new(self.0, o.1);
        let b = Rat::new(o.0, self.1);
        Some(Rat::new(a.0.checked_mul(b.0)?, a.1.checked_mul(b.1)?))
    }
    fn add(self, o: Rat) -> Option<Rat> {
        let g = gcd(self.1, o.1).max(1);
        let l = (self.1 / g).checked_mul(o.1)?;
        let n = self.0.checked_mul(o.1 / g)?.checked_add(o.0.checked_mul(self.1 / g)?)?;
        Some(Rat::new(n, l))
    }
    fn sub(self, o: Rat) -> Option<Rat> {
        self.add(Rat(-o.0, o.1))
    }
    fn f(self) -> f64 {
        self.0 as f64 / self.1 as f64
    }
    fn abs_le(self, n: i128, d: i128) -> bool {
        // |self| <= n/d
        self.0.abs().checked_mul(d).map(|l| l <= n * self.1).unwrap_or(false)
    }
    fn coq(self) -> String {
        if self.0 < 0 { format!("(({}) # {})%Q", self.0, self.1) } else { format!("({} # {})%Q", self.0, self.1) }
    }
}

// ------------------------------------------------------------------------------------------------
// item variation store, decoded; evaluation written from the specification
// ------------------------------------------------------------------------------------------------
type Region = Vec<(i64, i64, i64)>; // per axis (start, peak, end), raw F2Dot14
type Row = Vec<(Region, i64)>;

#[derive(Clone, Debug, Default)]
struct Ivs {
    regions: Vec<Region>,
    data: Vec<(Vec<usize>, Vec<Vec<i64>>)>,
}

fn decode_ivs(st: &ItemVariationStore) -> Option<Ivs> {
    let rl = st.variation_region_list().ok()?;
    let mut regions = Vec::new();
    for r in rl.variation_regions().iter() {
        let r = r.ok()?;
        regions.push(
            r.region_axes()
                .iter()
                .map(|a| (a.start_coord().to_bits() as i64, a.peak_coord().to_bits() as i64, a.end_coord().to_bits() as i64))
                .collect(),
        );
    }
    let mut data = Vec::new();
    for d in st.item_variation_data().iter() {
        match d {
            Some(Ok(d)) => {
                let ris: Vec<usize> = d.region_indexes().iter().map(|x| x.get() as usize).collect();
                let rows = (0..d.item_count()).map(|i| d.delta_set(i).map(|v| v as i64).collect()).collect();
                data.push((ris, rows));
            }
            _ => data.push((Vec::new(), Vec::new())),
        }
    }
    Some(Ivs { regions, data })
}

impl Ivs {
    fn row(&self, idx: (usize, usize)) -> Option<Row> {
        let (ris, rows) = self.data.get(idx.0)?;
        let row = rows.get(idx.1)?;
        if row.len() != ris.len() {
            return None;
        }
        ris.iter().zip(row).map(|(ri, d)| Some((self.regions.get(*ri)?.clone(), *d))).collect()
    }
}

/// "Variation regions": scalar of one axis
fn axis_scalar(a: (i64, i64, i64), c: i64) -> Rat {
    let (s, p, e) = a;
    if p < s || e < p {
        return Rat::int(1);
    }
    if s < 0 && e > 0 && p != 0 {
        return Rat::int(1);
    }
    if p == 0 {
        return Rat::int(1);
    }
    if c < s || c > e {
        return Rat::int(0);
    }
    if c == p {
        return Rat::int(1);
    }
    if c < p {
        Rat::new((c - s) as i128, (p - s) as i128)
    } else {
        Rat::new((e - c) as i128, (e - p) as i128)
    }
}
fn region_scalar(r: &Region, coords: &[i64]) -> Option<Rat> {
    let mut acc = Rat::int(1);
    for (i, a) in r.iter().enumerate() {
        acc = acc.mul(axis_scalar(*a, coords.get(i).copied().unwrap_or(0)))?;
    }
    Some(acc)
}
fn row_eval(row: &Row, coords: &[i64]) -> Option<Rat> {
    let mut acc = Rat::int(0);
    for (r, d) in row {
        if *d != 0 {
            acc = acc.add(region_scalar(r, coords)?.mul(Rat::int(*d as i128))?)?;
        }
    }
    Some(acc)
}
fn row_eval_f64(row: &Row, coords: &[i64]) -> f64 {
    row.iter()
        .map(|(r, d)| r.iter().enumerate().map(|(i, a)| axis_scalar(*a, coords.get(i).copied().unwrap_or(0)).f()).product::<f64>() * *d as f64)
        .sum()
}

fn coq_region(r: &Region) -> String {
    coq_list(r, |(s, p, e)| format!("({}, {}, {})", coq_z(*s), coq_z(*p), coq_z(*e)))
}
fn coq_row(row: &Row) -> String {
    coq_list(row, |(r, d)| format!("({}, {})", coq_region(r), coq_z(*d)))
}
fn coq_ivs(st: &Ivs) -> String {
    format!(
        "(mkIvs {} {})",
        coq_list(&st.regions, coq_region),
        coq_list(&st.data, |(ris, rows)| format!(
            "(mkIvd {} {})",
            coq_list(ris, |i| coq_nat(*i)),
            coq_list(rows, |row| coq_list(row, |d| coq_z(*d)))
        ))
    )
}

fn dsim(map: &Option<Vec<(usize, usize)>>, gid: usize) -> (usize, usize) {
    match map {
        None => (0, gid),
        Some(es) => es.get(gid).copied().or(es.last().copied()).unwrap_or((0, 0)),
    }
}
fn decode_map(m: Option<DeltaSetIndexMap>, n: usize) -> Option<Vec<(usize, usize)>> {
    let m = m?;
    let count = match &m {
        DeltaSetIndexMap::Format0(f) => f.map_count() as usize,
        DeltaSetIndexMap::Format1(f) => f.map_count() as usize,
    };
    // entries beyond map_count repeat the last one; decode exactly map_count entries
    Some((0..count.min(n.max(count))).map(|i| m.get(i as u32).map(|d| (d.outer as usize, d.inner as usize)).unwrap_or((0, 0))).collect())
}

// ------------------------------------------------------------------------------------------------
// source description
// ------------------------------------------------------------------------------------------------
#[derive(Clone, Copy, Debug, PartialEq, Eq, PartialOrd, Ord)]
enum Metric {
    Ascender, Descender, HheaAscender, HheaDescender, HheaLineGap, VheaAscender, VheaDescender, VheaLineGap,
    Os2TypoAscender, Os2TypoDescender, Os2TypoLineGap, Os2WinAscent, Os2WinDescent, CapHeight, CaretSlopeRise,
    CaretSlopeRun, CaretOffset, VheaCaretSlopeRise, VheaCaretSlopeRun, VheaCaretOffset, UnderlineThickness,
    UnderlinePosition, XHeight, StrikeoutPosition, StrikeoutSize, SubscriptXOffset, SubscriptXSize, SubscriptYOffset,
    SubscriptYSize, SuperscriptXOffset, SuperscriptXSize, SuperscriptYOffset, SuperscriptYSize,
}
use Metric::*;
const ALL_METRICS: [Metric; 33] = [
    Ascender, Descender, HheaAscender, HheaDescender, HheaLineGap, VheaAscender, VheaDescender, VheaLineGap,
    Os2TypoAscender, Os2TypoDescender, Os2TypoLineGap, Os2WinAscent, Os2WinDescent, CapHeight, CaretSlopeRise,
    CaretSlopeRun, CaretOffset, VheaCaretSlopeRise, VheaCaretSlopeRun, VheaCaretOffset, UnderlineThickness,
    UnderlinePosition, XHeight, StrikeoutPosition, StrikeoutSize, SubscriptXOffset, SubscriptXSize, SubscriptYOffset,
    SubscriptYSize, SuperscriptXOffset, SuperscriptXSize, SuperscriptYOffset, SuperscriptYSize,
];
impl Metric {
    fn mvar_tag(self) -> Option<&'static [u8; 4]> {
        Some(match self {
            Os2TypoAscender => b"hasc", Os2TypoDescender => b"hdsc", Os2TypoLineGap => b"hlgp", Os2WinAscent => b"hcla",
            Os2WinDescent => b"hcld", VheaAscender => b"vasc", VheaDescender => b"vdsc", VheaLineGap => b"vlgp",
            CaretSlopeRise => b"hcrs", CaretSlopeRun => b"hcrn", CaretOffset => b"hcof", VheaCaretSlopeRise => b"vcrs",
            VheaCaretSlopeRun => b"vcrn", VheaCaretOffset => b"vcof", XHeight => b"xhgt", CapHeight => b"cpht",
            SubscriptXSize => b"sbxs", SubscriptYSize => b"sbys", SubscriptXOffset => b"sbxo", SubscriptYOffset => b"sbyo",
            SuperscriptXSize => b"spxs", SuperscriptYSize => b"spys", SuperscriptXOffset => b"spxo",
            SuperscriptYOffset => b"spyo", StrikeoutSize => b"strs", StrikeoutPosition => b"stro",
            UnderlineThickness => b"unds", UnderlinePosition => b"undo",
            _ => return None,
        })
    }
    /// fontinfo.plist key for the explicit value, and whether the UFO spec types it as an integer
    fn ufo_key(self) -> Option<(&'static str, bool)> {
        Some(match self {
            Os2TypoAscender => ("openTypeOS2TypoAscender", true), Os2TypoDescender => ("openTypeOS2TypoDescender", true),
            Os2TypoLineGap => ("openTypeOS2TypoLineGap", true), Os2WinAscent => ("openTypeOS2WinAscent", true),
            Os2WinDescent => ("openTypeOS2WinDescent", true), StrikeoutPosition => ("openTypeOS2StrikeoutPosition", true),
            StrikeoutSize => ("openTypeOS2StrikeoutSize", true), SubscriptXOffset => ("openTypeOS2SubscriptXOffset", true),
            SubscriptXSize => ("openTypeOS2SubscriptXSize", true), SubscriptYOffset => ("openTypeOS2SubscriptYOffset", true),
            SubscriptYSize => ("openTypeOS2SubscriptYSize", true), SuperscriptXOffset => ("openTypeOS2SuperscriptXOffset", true),
            SuperscriptXSize => ("openTypeOS2SuperscriptXSize", true), SuperscriptYOffset => ("openTypeOS2SuperscriptYOffset", true),
            SuperscriptYSize => ("openTypeOS2SuperscriptYSize", true), HheaAscender => ("openTypeHheaAscender", true),
            HheaDescender => ("openTypeHheaDescender", true), HheaLineGap => ("openTypeHheaLineGap", true),
            CaretSlopeRise => ("openTypeHheaCaretSlopeRise", true), CaretSlopeRun => ("openTypeHheaCaretSlopeRun", true),
            CaretOffset => ("openTypeHheaCaretOffset", true), UnderlineThickness => ("postscriptUnderlineThickness", false),
            UnderlinePosition => ("postscriptUnderlinePosition", false), VheaAscender => ("openTypeVheaVertTypoAscender", true),
            VheaDescender => ("openTypeVheaVertTypoDescender", true), VheaLineGap => ("openTypeVheaVertTypoLineGap", true),
            VheaCaretSlopeRise => ("openTypeVheaCaretSlopeRise", true), VheaCaretSlopeRun => ("openTypeVheaCaretSlopeRun", true),
            VheaCaretOffset => ("openTypeVheaCaretOffset", true),
            _ => return None,
        })
    }
    fn unsigned_field(self) -> bool {
        matches!(self, Os2WinAscent | Os2WinDescent)
    }
    fn is_vhea(self) -> bool {
        matches!(self, VheaAscender | VheaDescender | VheaLineGap | VheaCaretSlopeRise | VheaCaretSlopeRun | VheaCaretOffset)
    }
    fn coq(self) -> String {
        format!("{:?}", self)
    }
}

#[derive(Clone, Debug, Default)]
struct FontInfo {
    ascender: Option<f64>,
    descender: Option<f64>,
    x_height: Option<f64>,
    cap_height: Option<f64>,
    italic_angle: Option<f64>,
    explicit: BTreeMap<Metric, f64>,
}

/// tan(-angle) as `adjust_offset` uses it
fn slant(fi: &FontInfo) -> f64 {
    let a = fi.italic_angle.unwrap_or(0.0);
    if a.abs() >= f64::EPSILON { (-a).to_radians().tan() } else { 0.0 }
}

/// the metric value a master's fontinfo gives (ufo2fontir GlobalMetricsWork + populate_defaults),
/// written with the same f64 operations
fn ufo_metric(upem: f64, fi: &FontInfo, m: Metric) -> f64 {
    let ex = |m: Metric| fi.explicit.get(&m).copied();
    let asc = fi.ascender.unwrap_or(0.8 * upem);
    let desc = fi.descender.unwrap_or(-0.2 * upem);
    let xh = fi.x_height.unwrap_or(0.5 * upem);
    let line_gap = ex(Os2TypoLineGap).unwrap_or((upem * 1.2 + desc - asc).max(0.0));
    let sub_x_size = ex(SubscriptXSize).unwrap_or(upem * 0.65);
    let sub_y_size = ex(SubscriptYSize).unwrap_or(upem * 0.60);
    let sub_y_off = ex(SubscriptYOffset).unwrap_or(upem * 0.075);
    let sup_y_off = ex(SuperscriptYOffset).unwrap_or(upem * 0.35);
    let und_thick = ex(UnderlineThickness).unwrap_or(0.05 * upem);
    let t = slant(fi);
    let adjust = |o: f64| if t != 0.0 { o * t } else { 0.0 };
    match m {
        Ascender => asc,
        Descender => desc,
        Os2TypoLineGap => line_gap,
        Os2TypoAscender => ex(m).unwrap_or(asc),
        Os2TypoDescender => ex(m).unwrap_or(desc),
        HheaAscender => ex(m).unwrap_or(asc + line_gap),
        HheaDescender => ex(m).unwrap_or(desc),
        HheaLineGap => ex(m).unwrap_or(0.0),
        Os2WinAscent => ex(m).unwrap_or(asc + line_gap),
        Os2WinDescent => ex(m).unwrap_or(desc.abs()),
        CapHeight => fi.cap_height.unwrap_or(0.7 * upem),
        XHeight => xh,
        CaretSlopeRise => ex(m).unwrap_or(upem),
        CaretSlopeRun => ex(m).unwrap_or(adjust(upem)),
        CaretOffset => ex(m).unwrap_or(0.0),
        SubscriptXSize => sub_x_size,
        SubscriptYSize => sub_y_size,
        SubscriptXOffset => ex(m).unwrap_or(adjust(-sub_y_off)),
        SubscriptYOffset => sub_y_off,
        SuperscriptXSize => ex(m).unwrap_or(sub_x_size),
        SuperscriptYSize => ex(m).unwrap_or(sub_y_size),
        SuperscriptXOffset => ex(m).unwrap_or(adjust(sup_y_off)),
        SuperscriptYOffset => sup_y_off,
        UnderlineThickness => und_thick,
        UnderlinePosition => ex(m).unwrap_or(-0.075 * upem),
        StrikeoutSize => ex(m).unwrap_or(und_thick),
        StrikeoutPosition => ex(m).unwrap_or(if xh != 0.0 { xh * 0.6 } else { upem * 0.22 }),
        VheaCaretSlopeRise => ex(m).unwrap_or(0.0),
        VheaCaretSlopeRun => ex(m).unwrap_or(1.0),
        VheaCaretOffset => ex(m).unwrap_or(0.0),
        VheaAscender | VheaDescender | VheaLineGap => ex(m).unwrap_or(0.0),
    }
}

fn ot_round(x: f64) -> i64 {
    (x + 0.5).floor() as i64
}

#[derive(Clone, Debug)]
struct MasterCfg {
    name: String,
    design: Vec<f64>,
    sparse: bool,
    fi: FontInfo,
}
#[derive(Clone, Debug)]
struct GlyphCfg {
    name: String,
    /// (master index, width, height)
    srcs: Vec<(usize, f64, f64)>,
    empty: bool,
    class: &'static str,
}
#[derive(Clone, Debug)]
struct Cfg {
    axes: Vec<(String, String, f64, f64, f64)>, // name, tag, min, def, max
    dyadic: bool,
    upem: u32,
    masters: Vec<MasterCfg>,
    glyphs: Vec<GlyphCfg>,
    vertical: bool,
    layout: &'static str,
}

impl Cfg {
    fn span(&self, ax: usize, v: f64) -> f64 {
        let (_, _, min, def, max) = &self.axes[ax];
        if v > *def { max - def } else { def - min }
    }
    /// common denominator of the normalized coordinates
    fn denom(&self) -> i64 {
        if self.dyadic {
            return 16384;
        }
        let mut d: i128 = 1;
        for (_, _, min, def, max) in &self.axes {
            for s in [def - min, max - def] {
                if s > 0.0 {
                    let s = s as i128;
                    d = d / gcd(d, s) * s;
                }
            }
        }
        d as i64
    }
    /// normalized location scaled by the common denominator
    fn scaled(&self, m: usize) -> Vec<i64> {
        let d = self.denom();
        self.masters[m]
            .design
            .iter()
            .enumerate()
            .map(|(i, v)| {
                let def = self.axes[i].3;
                if *v == def { 0 } else { ((v - def) as i64) * d / (self.span(i, *v) as i64) }
            })
            .collect()
    }
    /// normalized location as the F2Dot14 coordinates a renderer evaluates the font at
    fn f2dot14(&self, m: usize) -> Vec<i64> {
        self.masters[m]
            .design
            .iter()
            .enumerate()
            .map(|(i, v)| {
                let def = self.axes[i].3;
                if *v == def { 0 } else { F2Dot14::from_f32(((v - def) / self.span(i, *v)) as f32).to_bits() as i64 }
            })
            .collect()
    }
    fn default_master(&self) -> usize {
        0
    }
    fn global_masters(&self) -> Vec<usize> {
        (0..self.masters.len()).filter(|i| !self.masters[*i].sparse).collect()
    }
}

// ------------------------------------------------------------------------------------------------
// generation
// ------------------------------------------------------------------------------------------------
fn gen_axes(rng: &mut Rng, dyadic: bool) -> Vec<(String, String, f64, f64, f64)> {
    let n = match rng.below(10) {
        0..=4 => 1,
        5..=8 => 2,
        _ => 3,
    };
    let names = [("Weight", "wght"), ("Width", "wdth"), ("Optical", "opsz")];
    (0..n)
        .map(|i| {
            let def = 400.0;
            let (neg, pos) = if dyadic {
                (*rng.pick(&[0.0, 0.0, 64.0, 256.0]), *rng.pick(&[128.0, 512.0, 1024.0]))
            } else {
                (*rng.pick(&[0.0, 300.0, 250.0]), *rng.pick(&[500.0, 300.0, 600.0]))
            };
            (names[i].0.to_string(), names[i].1.to_string(), def - neg, def, def + pos)
        })
        .collect()
}

/// a coordinate on one axis, off the default
fn gen_coord(rng: &mut Rng, ax: &(String, String, f64, f64, f64), dyadic: bool, end_only: bool) -> f64 {
    let (_, _, min, def, max) = ax;
    let neg = def - min > 0.0 && rng.chance(1, 3);
    let span = if neg { def - min } else { max - def };
    let frac: (f64, f64) = if end_only {
        (1.0, 1.0)
    } else if dyadic {
        *rng.pick(&[(1.0, 1.0), (1.0, 2.0), (1.0, 4.0), (3.0, 4.0), (1.0, 8.0), (5.0, 8.0), (3.0, 16.0)])
    } else {
        *rng.pick(&[(1.0, 1.0), (1.0, 2.0), (1.0, 4.0), (1.0, 5.0), (3.0, 10.0), (2.0, 3.0), (1.0, 3.0)])
    };
    let off = (span * frac.0 / frac.1).floor().max(1.0);
    if neg { def - off } else { def + off }
}

fn gen_layout(rng: &mut Rng, axes: &[(String, String, f64, f64, f64)], dyadic: bool) -> (Vec<Vec<f64>>, Vec<Vec<f64>>, &'static str) {
    let n = axes.len();
    let def: Vec<f64> = axes.iter().map(|a| a.3).collect();
    let mut global = vec![def.clone()];
    let push = |v: Vec<f64>, l: &mut Vec<Vec<f64>>| {
        if !l.contains(&v) {
            l.push(v);
        }
    };
    // every axis needs a master off the default on it
    for i in 0..n {
        let mut v = def.clone();
        v[i] = gen_coord(rng, &axes[i], dyadic, true);
        push(v, &mut global);
    }
    let kind = rng.below(6);
    let name = match kind {
        0 => "axis-ends",
        1 => {
            // both ends where the axis has a negative side, plus on-axis intermediates
            for i in 0..n {
                let mut v = def.clone();
                v[i] = if axes[i].3 - axes[i].2 > 0.0 { axes[i].2 } else { gen_coord(rng, &axes[i], dyadic, false) };
                push(v, &mut global);
            }
            "on-axis"
        }
        2 => {
            // corners
            if n >= 2 {
                let mut v = def.clone();
                for i in 0..n {
                    v[i] = axes[i].4;
                }
                push(v, &mut global);
                if n == 3 && rng.chance(1, 2) {
                    let mut v = def.clone();
                    v[0] = axes[0].4;
                    v[1] = axes[1].4;
                    push(v, &mut global);
                }
            }
            "corners"
        }
        3 => {
            // on-axis intermediates
            for _ in 0..rng.range(1, 2) {
                let i = rng.below(n as u64) as usize;
                let mut v = def.clone();
                v[i] = gen_coord(rng, &axes[i], dyadic, false);
                push(v, &mut global);
            }
            "intermediate"
        }
        4 => {
            // interior points
            for _ in 0..rng.range(1, 2) {
                let v: Vec<f64> = (0..n).map(|i| if rng.chance(1, 4) { def[i] } else { gen_coord(rng, &axes[i], dyadic, false) }).collect();
                push(v, &mut global);
            }
            "interior"
        }
        _ => {
            for _ in 0..rng.range(1, 3) {
                let v: Vec<f64> = (0..n)
                    .map(|i| match rng.below(3) {
                        0 => def[i],
                        1 => gen_coord(rng, &axes[i], dyadic, true),
                        _ => gen_coord(rng, &axes[i], dyadic, false),
                    })
                    .collect();
                push(v, &mut global);
            }
            "mixed"
        }
    };
    // sparse (glyph-only) masters
    let mut sparse = Vec::new();
    if rng.chance(1, 2) {
        for _ in 0..rng.range(1, 2) {
            let v: Vec<f64> = (0..n).map(|i| if n > 1 && rng.chance(1, 3) { def[i] } else { gen_coord(rng, &axes[i], dyadic, false) }).collect();
            if !global.contains(&v) && !sparse.contains(&v) {
                sparse.push(v);
            }
        }
    }
    (global, sparse, name)
}

fn quarter(rng: &mut Rng, lo: i64, hi: i64) -> f64 {
    rng.range(lo * 4, hi * 4) as f64 / 4.0
}

fn gen_fontinfo(rng: &mut Rng, base: &FontInfo, is_default: bool, vertical: bool, vary: u64) -> FontInfo {
    // `base` is the default master's fontinfo; other masters perturb it, drop keys or add keys
    let mut fi = if is_default { FontInfo::default() } else { base.clone() };
    let perturb = |rng: &mut Rng, v: f64, int: bool| -> f64 {
        match rng.below(5) {
            0 => v,
            1 => v + rng.range(-60, 60) as f64,
            2 => v + if int { rng.range(-3, 3) as f64 } else { rng.range(-6, 6) as f64 / 4.0 },
            3 => v + if int { rng.range(-400, 400) as f64 } else { rng.range(-400, 400) as f64 + 0.5 },
            _ => v - 1.0,
        }
    };
    if is_default {
        if rng.chance(2, 3) { fi.ascender = Some(quarter(rng, 600, 1000)); }
        if rng.chance(2, 3) { fi.descender = Some(-quarter(rng, 100, 400)); }
        // x-height: integers or .25/.75 (0.6 * x is then never a rounding tie)
        if rng.chance(2, 3) { fi.x_height = Some(rng.range(300, 600) as f64 + *rng.pick(&[0.0, 0.25, 0.75])); }
        if rng.chance(2, 3) { fi.cap_height = Some(rng.range(1200, 1600) as f64 / 2.0); }
        if rng.chance(1, 5) { fi.italic_angle = Some(-(rng.range(4, 40) as f64) / 2.0); }
        for m in ALL_METRICS {
            if let Some((_, int)) = m.ufo_key() {
                if m.is_vhea() { continue; }
                if rng.chance(1, 3) {
                    let v = match m {
                        Os2TypoAscender | HheaAscender | Os2WinAscent => rng.range(700, 1100) as f64,
                        Os2TypoDescender | HheaDescender => -(rng.range(150, 350) as f64),
                        Os2WinDescent => rng.range(150, 350) as f64,
                        Os2TypoLineGap | HheaLineGap => rng.range(0, 200) as f64,
                        CaretSlopeRise => rng.range(900, 1100) as f64,
                        CaretSlopeRun => rng.range(0, 300) as f64,
                        CaretOffset => rng.range(-50, 50) as f64,
                        UnderlineThickness => quarter(rng, 20, 100),
                        UnderlinePosition => -quarter(rng, 50, 200),
                        StrikeoutSize => rng.range(20, 100) as f64,
                        _ => rng.range(50, 700) as f64,
                    };
                    let _ = int;
                    fi.explicit.insert(m, v);
                }
            }
        }
        if vertical {
            fi.explicit.insert(VheaAscender, rng.range(400, 600) as f64);
            fi.explicit.insert(VheaDescender, -(rng.range(400, 600) as f64));
            fi.explicit.insert(VheaLineGap, rng.range(0, 100) as f64);
            if rng.chance(1, 2) { fi.explicit.insert(VheaCaretSlopeRun, rng.range(0, 3) as f64); }
            if rng.chance(1, 3) { fi.explicit.insert(VheaCaretOffset, rng.range(-20, 20) as f64); }
        }
        return fi;
    }
    // vary: 0 = identical to the default master, 1 = a few keys, 2 = many
    if vary == 0 {
        return fi;
    }
    let p = if vary == 1 { 5 } else { 2 };
    if rng.chance(1, p) { fi.ascender = fi.ascender.map(|v| perturb(rng, v, false)).or(Some(quarter(rng, 600, 1000))); }
    if rng.chance(1, p) { fi.descender = fi.descender.map(|v| perturb(rng, v, false).min(-1.0)).or(Some(-quarter(rng, 100, 400))); }
    if rng.chance(1, p) { fi.x_height = Some(rng.range(300, 600) as f64 + *rng.pick(&[0.0, 0.25, 0.75])); }
    if rng.chance(1, p) { fi.cap_height = fi.cap_height.map(|v| perturb(rng, v, false)).or(Some(rng.range(1200, 1600) as f64 / 2.0)); }
    if rng.chance(1, 2 * p) { fi.ascender = None; }
    if rng.chance(1, 2 * p) { fi.x_height = None; }
    if rng.chance(1, 3 * p) { fi.italic_angle = if fi.italic_angle.is_some() { None } else { Some(-(rng.range(4, 40) as f64) / 2.0) }; }
    for m in ALL_METRICS {
        if let Some((_, int)) = m.ufo_key() {
            if m.is_vhea() && !vertical { continue; }
            if !rng.chance(1, p) { continue; }
            match fi.explicit.get(&m).copied() {
                Some(v) => {
                    if rng.chance(1, 6) && !(vertical && matches!(m, VheaAscender | VheaDescender | VheaLineGap)) {
                        fi.explicit.remove(&m); // explicit in the default master, derived here
                    } else {
                        let mut nv = perturb(rng, v, int);
                        if int { nv = nv.floor(); }
                        if matches!(m, Os2WinAscent | Os2WinDescent) { nv = nv.max(0.0); }
                        fi.explicit.insert(m, nv);
                    }
                }
                None => {
                    if rng.chance(1, 3) {
                        // derived in the default master, explicit here
                        let v = match m {
                            Os2TypoDescender | HheaDescender | UnderlinePosition => -(rng.range(50, 350) as f64),
                            _ => rng.range(0, 900) as f64,
                        };
                        fi.explicit.insert(m, v);
                    }
                }
            }
        }
    }
    fi
}

fn gen_cfg(rng: &mut Rng, idx: usize) -> Cfg {
    let dyadic = !rng.chance(1, 4);
    let axes = gen_axes(rng, dyadic);
    let (global, sparse, layout) = gen_layout(rng, &axes, dyadic);
    let vertical = rng.chance(1, 3);
    let upem = *rng.pick(&[1000u32, 1000, 1000, 2048, 16]);
    let vary = rng.below(3);
    let mut masters: Vec<MasterCfg> = Vec::new();
    let base = gen_fontinfo(rng, &FontInfo::default(), true, vertical, vary);
    for (i, d) in global.iter().enumerate() {
        let fi = if i == 0 { base.clone() } else { gen_fontinfo(rng, &base, false, vertical, vary) };
        masters.push(MasterCfg { name: format!("M{}", i), design: d.clone(), sparse: false, fi });
    }
    for (i, d) in sparse.iter().enumerate() {
        masters.push(MasterCfg { name: format!("S{}", i), design: d.clone(), sparse: true, fi: FontInfo::default() });
    }
    let nm = masters.len();
    let globals: Vec<usize> = (0..global.len()).collect();
    let sparses: Vec<usize> = (global.len()..nm).collect();

    // advances of one glyph over its masters, by class
    let adv = |rng: &mut Rng, class: &str, ms: &[usize]| -> Vec<f64> {
        let base = rng.range(100, 1200) as f64;
        ms.iter()
            .enumerate()
            .map(|(k, _)| match class {
                "constant" => base,
                "linear" => base + 40.0 * k as f64,
                "random" => rng.range(0, 2000) as f64,
                "half" => rng.range(100, 900) as f64 + 0.5,
                "quarter" => quarter(rng, 100, 900),
                "near" => base + rng.range(-1, 1) as f64 + *rng.pick(&[0.0, 0.5, 0.49, 0.51]),
                "zero" => if k == 0 { 0.0 } else { rng.range(0, 3) as f64 * 300.0 },
                // u16 / i16 limits: default near one end, deltas within i16
                // u16 limit: all masters within 3000 of the top of the range
                "high" => 65535.0 - rng.range(0, 3000) as f64 - if k == 0 { 0.0 } else { 0.5 },
                // i16 limit of one delta: the glyph has two masters (see below)
                "bigdelta" => if k == 0 { 32768.0 } else { 32768.0 + *rng.pick(&[32767.0, -32768.0, 32766.5, -32768.5, 32766.0]) },
                _ => base,
            })
            .collect()
    };
    const CLASSES: [&str; 9] = ["constant", "linear", "random", "half", "quarter", "near", "zero", "high", "bigdelta"];
    let mut glyphs: Vec<GlyphCfg> = Vec::new();
    // .notdef: in every master, in the default master only (first glyph, one source: the dense
    // copy), or absent (fontc generates it)
    let notdef_mode = rng.below(4);
    if notdef_mode <= 1 {
        let ms: Vec<usize> = if notdef_mode == 0 { globals.clone() } else { vec![0] };
        let class = *rng.pick(&CLASSES[..8]);
        let w = adv(rng, class, &ms);
        let hclass = *rng.pick(&["constant", "linear", "random", "half"]);
        let h = adv(rng, hclass, &ms);
        glyphs.push(GlyphCfg { name: ".notdef".into(), srcs: ms.iter().enumerate().map(|(k, m)| (*m, w[k], h[k])).collect(), empty: false, class });
    }
    let ng = rng.range(2, 6) as usize;
    for gi in 0..ng {
        let class = *rng.pick(&CLASSES);
        // which masters define the glyph
        let mut ms: Vec<usize> = match rng.below(6) {
            0 => vec![0],                                                          // default only
            1 => globals.iter().copied().filter(|m| *m == 0 || rng.chance(2, 3)).collect(), // missing from some masters
            _ => globals.clone(),
        };
        for s in &sparses {
            if rng.chance(1, 2) {
                ms.push(*s);
            }
        }
        if class == "bigdelta" {
            // one delta at the i16 limit: default plus one other master
            ms = vec![0, rng.range(1, nm as i64 - 1) as usize];
        }
        let w = adv(rng, class, &ms);
        let hclass = *rng.pick(&["constant", "linear", "random", "half", "near"]);
        let h = adv(rng, hclass, &ms);
        glyphs.push(GlyphCfg {
            name: format!("g{}", gi),
            srcs: ms.iter().enumerate().map(|(k, m)| (*m, w[k], h[k])).collect(),
            empty: rng.chance(1, 5),
            class,
        });
    }
    // a sparse master nobody uses would be an empty layer: give it to the last glyph
    for s in &sparses {
        if !glyphs.iter().any(|g| g.srcs.iter().any(|x| x.0 == *s)) {
            // (close to the glyph's default advance: every delta stays inside i16)
            if glyphs.iter().all(|g| g.class == "bigdelta") {
                let g = glyphs.last_mut().unwrap();
                g.class = "constant";
                g.srcs = vec![(0, 500.0, 500.0)];
            }
            let g = glyphs.iter_mut().rev().find(|g| g.class != "bigdelta").unwrap();
            let (w0, h0) = (g.srcs[0].1, g.srcs[0].2);
            let dw = rng.range(-300, 300) as f64;
            g.srcs.push((*s, (w0 + dw).clamp(0.0, 65535.0), (h0 + dw).clamp(0.0, 65535.0)));
        }
    }
    let _ = idx;
    Cfg { axes, dyadic, upem, masters, glyphs, vertical, layout }
}

fn plist_num(v: f64, int: bool) -> String {
    if int || v == v.trunc() { format!("<integer>{}</integer>", v as i64) } else { format!("<real>{}</real>", v) }
}

fn fontinfo_entries(fi: &FontInfo) -> Vec<(String, String)> {
    let mut out = Vec::new();
    // srcgen writes ascender/descender/capHeight/xHeight defaults unless the key is present;
    // an absent key is what is wanted here, so the four keys are always emitted explicitly or
    // suppressed through a sentinel handled in `build_design`
    if let Some(v) = fi.ascender { out.push(("ascender".into(), plist_num(v, false))); }
    if let Some(v) = fi.descender { out.push(("descender".into(), plist_num(v, false))); }
    if let Some(v) = fi.x_height { out.push(("xHeight".into(), plist_num(v, false))); }
    if let Some(v) = fi.cap_height { out.push(("capHeight".into(), plist_num(v, false))); }
    if let Some(v) = fi.italic_angle { out.push(("italicAngle".into(), plist_num(v, false))); }
    for (m, v) in &fi.explicit {
        let (k, int) = m.ufo_key().unwrap();
        out.push((k.to_string(), plist_num(*v, int)));
    }
    out
}

fn build_design(c: &Cfg, family: &str) -> Design {
    let axes = c.axes.iter().map(|(n, t, min, def, max)| AxisSrc { name: n.clone(), tag: t.clone(), min: *min, default: *def, max: *max, ..Default::default() }).collect();
    let mut masters = Vec::new();
    for (mi, m) in c.masters.iter().enumerate() {
        let mut glyphs = Vec::new();
        for g in &c.glyphs {
            if let Some((_, w, h)) = g.srcs.iter().find(|s| s.0 == mi) {
                let mut gs = GlyphSrc::new(&g.name, *w);
                gs.height = Some(*h);
                if !g.empty {
                    let k = mi as f64;
                    gs = gs.rect(10.0 + k, 0.0, 110.0 + 7.0 * k, 200.0 + 3.0 * k);
                }
                if g.name.starts_with('g') {
                    gs = gs.uni(0x61 + g.name[1..].parse::<u32>().unwrap());
                }
                glyphs.push(gs);
            }
        }
        let order: Vec<String> = c.glyphs.iter().map(|g| g.name.clone()).collect();
        masters.push(Master {
            name: m.name.clone(),
            style: m.name.clone(),
            location: c.axes.iter().zip(&m.design).map(|(a, v)| (a.0.clone(), *v)).collect(),
            glyphs,
            fontinfo: if m.sparse { Vec::new() } else { fontinfo_entries(&m.fi) },
            glyph_order: if mi == 0 { Some(order) } else { None },
            layer_of: if m.sparse { Some(c.masters[0].name.clone()) } else { None },
            ..Default::default()
        });
    }
    Design { family: family.into(), upem: c.upem, axes, masters, ..Default::default() }
}

/// srcgen fills ascender/descender/capHeight/xHeight with fixed defaults when the key is missing;
/// this check needs the keys to be really absent, so the written plist is edited afterwards
fn strip_default_keys(dir: &std::path::Path, c: &Cfg) {
    for m in c.masters.iter().filter(|m| !m.sparse) {
        let p = dir.join(format!("{}.ufo", m.name)).join("fontinfo.plist");
        let Ok(s) = std::fs::read_to_string(&p) else { continue };
        let mut out = String::new();
        for line in s.lines() {
            let drop = (m.fi.ascender.is_none() && line == "<key>ascender</key><integer>800</integer>")
                || (m.fi.descender.is_none() && line == "<key>descender</key><integer>-200</integer>")
                || (m.fi.cap_height.is_none() && line == "<key>capHeight</key><integer>700</integer>")
                || (m.fi.x_height.is_none() && line == "<key>xHeight</key><integer>500</integer>");
            if !drop {
                out.push_str(line);
                out.push('\n');
            }
        }
        std::fs::write(&p, out).unwrap();
    }
}

// ------------------------------------------------------------------------------------------------
// decoded font
// ------------------------------------------------------------------------------------------------
struct VarTable {
    st: Ivs,
    map: Option<Vec<(usize, usize)>>,
}
struct Decoded {
    names: Vec<String>,
    hadv: Vec<i64>,
    vadv: Option<Vec<i64>>,
    hvar: Option<VarTable>,
    vvar: Option<VarTable>,
    mvar: Option<(Ivs, BTreeMap<[u8; 4], (usize, usize)>)>,
    fields: BTreeMap<Metric, i64>,
    /// per glyph: per gvar tuple, region and the deltas of the four phantom points
    phantom: Vec<Vec<(Region, [(i64, i64); 4])>>,
    axis_tags: Vec<String>,
}

fn decode(bytes: &[u8]) -> Result<Decoded, String> {
    let font = FontRef::new(bytes).map_err(|e| format!("FontRef: {e}"))?;
    let n = font.maxp().map_err(|e| e.to_string())?.num_glyphs() as usize;
    let post = font.post().map_err(|e| e.to_string())?;
    let names: Vec<String> = (0..n).map(|g| post.glyph_name(write_fonts::read::types::GlyphId16::new(g as u16)).unwrap_or("?").to_string()).collect();
    let hmtx = font.hmtx().map_err(|e| e.to_string())?;
    let hadv = (0..n).map(|g| hmtx.advance(GlyphId::new(g as u32)).unwrap_or(0) as i64).collect();
    let vadv = font.vmtx().ok().map(|v| (0..n).map(|g| v.advance(GlyphId::new(g as u32)).unwrap_or(0) as i64).collect());
    let axis_tags = match font.fvar() {
        Ok(f) => f.axes().map_err(|e| e.to_string())?.iter().map(|a| a.axis_tag().to_string()).collect(),
        Err(_) => Vec::new(),
    };
    let hvar = match font.hvar() {
        Ok(h) => Some(VarTable {
            st: decode_ivs(&h.item_variation_store().map_err(|e| e.to_string())?).ok_or("HVAR store")?,
            map: decode_map(h.advance_width_mapping().and_then(|m| m.ok()), n),
        }),
        Err(_) => None,
    };
    let vvar = match font.vvar() {
        Ok(h) => Some(VarTable {
            st: decode_ivs(&h.item_variation_store().map_err(|e| e.to_string())?).ok_or("VVAR store")?,
            map: decode_map(h.advance_height_mapping().and_then(|m| m.ok()), n),
        }),
        Err(_) => None,
    };
    let mvar = match font.mvar() {
        Ok(m) => {
            let st = match m.item_variation_store() {
                Some(s) => decode_ivs(&s.map_err(|e| e.to_string())?).ok_or("MVAR store")?,
                None => Ivs::default(),
            };
            let mut recs = BTreeMap::new();
            for r in m.value_records() {
                recs.insert(r.value_tag().to_be_bytes(), (r.delta_set_outer_index() as usize, r.delta_set_inner_index() as usize));
            }
            Some((st, recs))
        }
        Err(_) => None,
    };
    let mut fields = BTreeMap::new();
    if let Ok(o) = font.os2() {
        fields.insert(Os2TypoAscender, o.s_typo_ascender() as i64);
        fields.insert(Os2TypoDescender, o.s_typo_descender() as i64);
        fields.insert(Os2TypoLineGap, o.s_typo_line_gap() as i64);
        fields.insert(Os2WinAscent, o.us_win_ascent() as i64);
        fields.insert(Os2WinDescent, o.us_win_descent() as i64);
        if let Some(v) = o.sx_height() { fields.insert(XHeight, v as i64); }
        if let Some(v) = o.s_cap_height() { fields.insert(CapHeight, v as i64); }
        fields.insert(SubscriptXSize, o.y_subscript_x_size() as i64);
        fields.insert(SubscriptYSize, o.y_subscript_y_size() as i64);
        fields.insert(SubscriptXOffset, o.y_subscript_x_offset() as i64);
        fields.insert(SubscriptYOffset, o.y_subscript_y_offset() as i64);
        fields.insert(SuperscriptXSize, o.y_superscript_x_size() as i64);
        fields.insert(SuperscriptYSize, o.y_superscript_y_size() as i64);
        fields.insert(SuperscriptXOffset, o.y_superscript_x_offset() as i64);
        fields.insert(SuperscriptYOffset, o.y_superscript_y_offset() as i64);
        fields.insert(StrikeoutSize, o.y_strikeout_size() as i64);
        fields.insert(StrikeoutPosition, o.y_strikeout_position() as i64);
    }
    if let Ok(h) = font.hhea() {
        fields.insert(HheaAscender, h.ascender().to_i16() as i64);
        fields.insert(HheaDescender, h.descender().to_i16() as i64);
        fields.insert(HheaLineGap, h.line_gap().to_i16() as i64);
        fields.insert(CaretSlopeRise, h.caret_slope_rise() as i64);
        fields.insert(CaretSlopeRun, h.caret_slope_run() as i64);
        fields.insert(CaretOffset, h.caret_offset() as i64);
    }
    if let Ok(h) = font.vhea() {
        fields.insert(VheaAscender, h.ascender().to_i16() as i64);
        fields.insert(VheaDescender, h.descender().to_i16() as i64);
        fields.insert(VheaLineGap, h.line_gap().to_i16() as i64);
        fields.insert(VheaCaretSlopeRise, h.caret_slope_rise() as i64);
        fields.insert(VheaCaretSlopeRun, h.caret_slope_run() as i64);
        fields.insert(VheaCaretOffset, h.caret_offset() as i64);
    }
    fields.insert(UnderlinePosition, post.underline_position().to_i16() as i64);
    fields.insert(UnderlineThickness, post.underline_thickness().to_i16() as i64);

    // gvar phantom points
    let mut phantom = vec![Vec::new(); n];
    if let (Ok(gvar), Ok(glyf), Ok(loca)) = (font.gvar(), font.glyf(), font.loca(None)) {
        let nax = gvar.axis_count() as usize;
        for g in 0..n {
            let gid = GlyphId::new(g as u32);
            let npts = match loca.get_glyf(gid, &glyf) {
                Ok(Some(write_fonts::read::tables::glyf::Glyph::Simple(s))) => s.num_points(),
                Ok(Some(write_fonts::read::tables::glyf::Glyph::Composite(c))) => c.components().count(),
                _ => 0,
            };
            let Ok(Some(vd)) = gvar.glyph_variation_data(gid) else { continue };
            for t in vd.tuples() {
                let peak = t.peak();
                let (is, ie) = (t.intermediate_start(), t.intermediate_end());
                let mut region = Vec::new();
                for a in 0..nax {
                    let p = peak.get(a).map(|v| v.to_bits() as i64).unwrap_or(0);
                    let (s, e) = match (&is, &ie) {
                        (Some(s), Some(e)) => (s.get(a).map(|v| v.to_bits() as i64).unwrap_or(0), e.get(a).map(|v| v.to_bits() as i64).unwrap_or(0)),
                        _ => (p.min(0), p.max(0)),
                    };
                    region.push((s, p, e));
                }
                let mut d = [(0i64, 0i64); 4];
                for td in t.deltas() {
                    let ix = td.position as usize;
                    if ix >= npts && ix < npts + 4 {
                        d[ix - npts] = (td.x_delta as i64, td.y_delta as i64);
                    }
                }
                phantom[g].push((region, d));
            }
        }
    }
    Ok(Decoded { names, hadv, vadv, hvar, vvar, mvar, fields, phantom, axis_tags })
}

// ------------------------------------------------------------------------------------------------
// Gallina printers for the source
// ------------------------------------------------------------------------------------------------
fn coq_loc(l: &[i64]) -> String {
    coq_list(l, |v| coq_z(*v))
}
fn coq_fontinfo(fi: &FontInfo) -> String {
    let o = |v: &Option<f64>| coq_opt(v, |x| coq_q(*x));
    let ex: Vec<(Metric, f64)> = fi.explicit.iter().map(|(m, v)| (*m, *v)).collect();
    format!(
        "(mk_fontinfo {} {} {} {} {} {})",
        o(&fi.ascender),
        o(&fi.descender),
        o(&fi.x_height),
        o(&fi.cap_height),
        coq_q(slant(fi)),
        coq_list(&ex, |(m, v)| format!("({}, {})", m.coq(), coq_q(*v)))
    )
}

struct Stats {
    sources: usize,
    built: usize,
    errors: usize,
    glyph_master_pairs: usize,
    metric_master_pairs: usize,
    direct_store: usize,
    indirect_store: usize,
    vertical: usize,
    sparse_glyphs: usize,
    notdef_dense: usize,
    notdef_synth: usize,
    mvar_records: usize,
    inexact_eval: usize,
    over_half: usize,
    static_builds: usize,
    layouts: BTreeMap<String, usize>,
}

fn main() {
    let args: Vec<String> = std::env::args().collect();
    let args = &args[1..];
    let seed = arg_val(args, "--seed", 1);
    let n = arg_val(args, "--n", 40) as usize;
    quiet_panics();
    let mut rng = Rng::new(seed);
    let mut id = 0usize;
    let mut st = Stats {
        sources: 0, built: 0, errors: 0, glyph_master_pairs: 0, metric_master_pairs: 0, direct_store: 0, indirect_store: 0,
        vertical: 0, sparse_glyphs: 0, notdef_dense: 0, notdef_synth: 0, mvar_records: 0, inexact_eval: 0, over_half: 0,
        static_builds: 0, layouts: BTreeMap::new(),
    };
    let dir = scratch_dir("c04");
    if let Some(i) = args.iter().position(|a| a == "--probe") {
        // manual probe (not part of the check): one two-master design, glyph g0 with the given
        // default / other-master widths; prints the usual violation lines
        let w0: f64 = args[i + 1].parse().unwrap();
        let w1: f64 = args[i + 2].parse().unwrap();
        let mk = |name: &str, v: f64| MasterCfg { name: name.into(), design: vec![v], sparse: false, fi: FontInfo::default() };
        let c = Cfg {
            axes: vec![("Weight".into(), "wght".into(), 400.0, 400.0, 912.0)],
            dyadic: true,
            upem: 1000,
            masters: vec![mk("M0", 400.0), mk("M1", 912.0)],
            glyphs: vec![GlyphCfg { name: "g0".into(), srcs: vec![(0, w0, 1000.0), (1, w1, 1000.0)], empty: false, class: "probe" }],
            vertical: false,
            layout: "probe",
        };
        let sub = dir.path().join("probe");
        let path = build_design(&c, "Probe").write_designspace(&sub);
        strip_default_keys(&sub, &c);
        match compile_path(&path, None, None) {
            Outcome::Font(b) => {
                let d = decode(&b).unwrap();
                eprintln!("hmtx {:?} hvar rows {:?} phantom {:?}", d.hadv, d.hvar.as_ref().map(|t| (0..d.names.len()).map(|g| t.st.row(dsim(&t.map, g))).collect::<Vec<_>>()), d.phantom);
                check_font(&c, &d, &b, &json!({"probe": [w0, w1]}), &mut st, &mut id, 0);
            }
            other => eprintln!("{:?}", other),
        }
        return;
    }
    let only: Option<usize> = args.iter().position(|a| a == "--only").and_then(|i| args.get(i + 1)).and_then(|v| v.parse().ok());
    for ci in 0..n {
        let c = gen_cfg(&mut rng, ci);
        st.sources += 1;
        *st.layouts.entry(format!("{}ax-{}{}", c.axes.len(), c.layout, if c.dyadic { "" } else { "-decimal" })).or_default() += 1;
        let sub = dir.path().join(format!("s{}", ci));
        let mut design = build_design(&c, &format!("Fam{}", ci));
        if rng.chance(1, 2) {
            // the default master need not be the first <source>
            rng.shuffle(&mut design.masters);
        }
        let static_pick = rng.below(c.global_masters().len() as u64) as usize;
        let do_static = rng.chance(1, 3);
        if let Some(o) = only {
            // --only <source index>: replay one source of the stream (case ids differ from the full run)
            if o != ci { continue; }
        }
        let path = design.write_designspace(&sub);
        strip_default_keys(&sub, &c);
        let srcjson = json!({
            "axes": c.axes, "dyadic": c.dyadic, "upem": c.upem, "vertical": c.vertical,
            "masters": c.masters.iter().map(|m| json!({"name": m.name, "design": m.design, "sparse": m.sparse,
                "fontinfo": fontinfo_entries(&m.fi)})).collect::<Vec<_>>(),
            "glyphs": c.glyphs.iter().map(|g| json!({"name": g.name, "class": g.class, "empty": g.empty,
                "sources": g.srcs.iter().map(|(m, w, h)| json!({"master": c.masters[*m].name, "width": w, "height": h})).collect::<Vec<_>>()})).collect::<Vec<_>>(),
        });
        let bytes = match compile_path(&path, None, None) {
            Outcome::Font(b) => b,
            Outcome::Error(e) => {
                st.errors += 1;
                emit_violation("valid-source-rejected", format!("fontc rejects a valid designspace: {}", e), json!({"source": srcjson}));
                continue;
            }
            Outcome::Panic(p) => {
                emit_violation("build-panics", format!("fontc panics on a valid designspace: {}", p), json!({"source": srcjson}));
                continue;
            }
        };
        let d = match decode(&bytes) {
            Ok(d) => d,
            Err(e) => {
                emit_violation("font-undecodable", format!("read-fonts cannot decode the compiled font: {}", e), json!({"source": srcjson}));
                continue;
            }
        };
        st.built += 1;
        check_font(&c, &d, &bytes, &srcjson, &mut st, &mut id, ci);
        if do_static {
            check_static(&c, static_pick, &sub, &srcjson, &mut st, &mut id, ci);
        }
        let _ = std::fs::remove_dir_all(&sub);
    }
    emit_stat(json!({
        "sources": st.sources, "built": st.built, "build_errors": st.errors,
        "glyph_master_pairs_checked": st.glyph_master_pairs, "metric_master_pairs_checked": st.metric_master_pairs,
        "hvar_direct_store": st.direct_store, "hvar_indirect_store": st.indirect_store, "vertical_fonts": st.vertical,
        "sparse_glyphs": st.sparse_glyphs, "notdef_dense_copy": st.notdef_dense, "notdef_generated": st.notdef_synth,
        "mvar_value_records": st.mvar_records, "evaluations_in_f64_after_i128_overflow": st.inexact_eval,
        "master_values_off_by_more_than_half": st.over_half, "static_master_builds": st.static_builds,
        "layouts": st.layouts,
        "extra_evaluations": st.glyph_master_pairs + st.metric_master_pairs,
    }));
}

/// value of base + row at coords: exact when possible
fn eval_at(base: i64, row: &Row, coords: &[i64], st: &mut Stats) -> (f64, Option<Rat>) {
    match row_eval(row, coords).and_then(|r| r.add(Rat::int(base as i128))) {
        Some(r) => (r.f(), Some(r)),
        None => {
            st.inexact_eval += 1;
            (base as f64 + row_eval_f64(row, coords), None)
        }
    }
}

fn coq_glyphs(c: &Cfg, d: &Decoded, synth: bool) -> String {
    // in font glyph order
    let origin = coq_loc(&c.scaled(0));
    let masters = coq_masters(c);
    let gs: Vec<String> = d
        .names
        .iter()
        .map(|name| match c.glyphs.iter().find(|g| &g.name == name) {
            Some(g) => format!(
                "(mk_glyph {} {})",
                coq_bool(name == ".notdef"),
                coq_list(&g.srcs, |(m, w, h)| format!("({}, {}, Some {})", coq_loc(&c.scaled(*m)), coq_q(*w), coq_q(*h)))
            ),
            None => {
                assert!(synth && name == ".notdef");
                format!("(synth_notdef {} {} {})", coq_q(c.upem as f64), origin, masters)
            }
        })
        .collect();
    format!("[{}]", gs.join("; "))
}
fn coq_masters(c: &Cfg) -> String {
    let gm = c.global_masters();
    coq_list(&gm, |m| format!("({}, {})", coq_loc(&c.scaled(*m)), coq_fontinfo(&c.masters[*m].fi)))
}

#[allow(clippy::too_many_arguments)]
fn check_font(c: &Cfg, d: &Decoded, bytes: &[u8], src: &serde_json::Value, st: &mut Stats, id: &mut usize, ci: usize) {
    let font = FontRef::new(bytes).unwrap();
    let dd = c.denom();
    let tags: Vec<String> = c.axes.iter().map(|a| a.1.clone()).collect();
    if d.axis_tags != tags {
        emit_violation("fvar-axis-order", format!("fvar axes {:?} differ from the designspace axes {:?}", d.axis_tags, tags), json!({"source": src}));
        return;
    }
    let synth = !c.glyphs.iter().any(|g| g.name == ".notdef");
    if synth { st.notdef_synth += 1; }
    if c.vertical { st.vertical += 1; }
    let nglobal = c.global_masters().len();
    let f2 = |m: usize| -> Vec<F2Dot14> { c.f2dot14(m).iter().map(|v| F2Dot14::from_bits(*v as i16)).collect() };

    // ---- advances ---------------------------------------------------------------------------
    for vertical in [false, true] {
        if vertical && !c.vertical { continue; }
        let (what, tbl, base) = if vertical {
            ("vmtx+VVAR advance height", &d.vvar, d.vadv.clone().unwrap_or_default())
        } else {
            ("hmtx+HVAR advance width", &d.hvar, d.hadv.clone())
        };
        let Some(tbl) = tbl else {
            emit_violation(if vertical { "vvar-missing" } else { "hvar-missing" }, format!("variable font without {}", if vertical { "VVAR although vertical metrics are built" } else { "HVAR" }), json!({"source": src}));
            continue;
        };
        if base.len() != d.names.len() {
            emit_violation("vmtx-missing", "vertical metrics requested but no vmtx".into(), json!({"source": src}));
            continue;
        }
        if !vertical {
            if tbl.map.is_some() { st.indirect_store += 1 } else { st.direct_store += 1 }
        }
        let mut rows: Vec<Row> = Vec::new();
        let mut probes: Vec<String> = Vec::new();
        for (gid, name) in d.names.iter().enumerate() {
            let row = match tbl.st.row(dsim(&tbl.map, gid)) {
                Some(r) => r,
                None => {
                    emit_violation("delta-set-index-out-of-range", format!("{}: the delta-set index of glyph {} does not exist in the store", what, name), json!({"source": src, "glyph": name}));
                    Vec::new()
                }
            };
            // master locations of the glyph and the source advance there
            let srcs: Vec<(usize, f64)> = match c.glyphs.iter().find(|g| &g.name == name) {
                Some(g) => {
                    if g.srcs.len() != nglobal || g.srcs.iter().any(|s| c.masters[s.0].sparse) { st.sparse_glyphs += 1; }
                    if gid == 0 && name == ".notdef" && g.srcs.len() == 1 && !vertical { st.notdef_dense += 1; }
                    g.srcs.iter().map(|(m, w, h)| (*m, if vertical { *h } else { *w })).collect()
                }
                // generated .notdef: width upem/2 wherever it has a source; checked at every global master
                None if !vertical => c.global_masters().iter().map(|m| (*m, (c.upem as f64 * 0.5).floor())).collect(),
                None => Vec::new(),
            };
            for (m, adv) in &srcs {
                let coords = c.f2dot14(*m);
                let (v, exact) = eval_at(base[gid], &row, &coords, st);
                let expect = ot_round(*adv).clamp(0, 65535);
                st.glyph_master_pairs += 1;
                let err = (v - expect as f64).abs();
                let input = json!({"source": src, "glyph": name, "master": c.masters[*m].name, "normalized_f2dot14": coords,
                                   "font_value": v, "rounded_source_advance": expect, "source_advance": adv});
                if *m == c.default_master() && err != 0.0 {
                    emit_violation(
                        if vertical { "default-advance-height-not-exact" } else { "default-advance-width-not-exact" },
                        format!("{} of {} at the default location is {} but the default master's rounded advance is {}", what, name, v, expect),
                        input.clone(),
                    );
                } else if err > 1.0 {
                    emit_violation(
                        if vertical { "advance-height-differs-from-master" } else { "advance-width-differs-from-master" },
                        format!("{} of {} at master {} is {} but that master's rounded advance is {}", what, name, c.masters[*m].name, v, expect),
                        input.clone(),
                    );
                } else if err > 0.5 + 1e-9 {
                    st.over_half += 1;
                }
                // read-fonts' evaluators must agree with the exact one: the float one closely, the
                // integer one (what skrifa adds to the advance) after rounding
                let idx = dsim(&tbl.map, gid);
                let own = v - base[gid] as f64;
                let sum_abs = row.iter().map(|(_, d)| d.abs() as f64).sum::<f64>();
                let rf_store = if vertical { font.vvar().ok().and_then(|t| t.item_variation_store().ok()) } else { font.hvar().ok().and_then(|t| t.item_variation_store().ok()) };
                let rf_float = rf_store.and_then(|s| s.compute_float_delta(DeltaSetIndex { outer: idx.0 as u16, inner: idx.1 as u16 }, &f2(*m)).ok()).map(|d| FWord::new(0).apply_float_delta(d) as f64);
                let rf_int = if vertical {
                    font.vvar().ok().and_then(|t| t.advance_height_delta(GlyphId::new(gid as u32), &f2(*m)).ok())
                } else {
                    font.hvar().ok().and_then(|t| t.advance_width_delta(GlyphId::new(gid as u32), &f2(*m)).ok())
                }
                .map(|f| f.to_f64());
                let tol = 0.01 + 2e-6 * sum_abs;
                let float_ok = coords.iter().all(|c| *c == 0) || rf_float.map(|f| (f - own).abs() <= tol).unwrap_or(false);
                let int_ok = rf_int.map(|f| (f - own).abs() <= 0.5 + 0.002 + 4e-5 * sum_abs).unwrap_or(false);
                if !float_ok || !int_ok {
                    emit_violation(
                        "ivs-evaluators-disagree",
                        format!("{} of {}: read-fonts float delta {:?}, integer delta {:?}, own exact evaluation {}", what, name, rf_float, rf_int, own),
                        input.clone(),
                    );
                }
                if let Some(r) = exact {
                    let delta = r.sub(Rat::int(base[gid] as i128)).unwrap();
                    probes.push(format!("({}, {}, {})", coq_nat(gid), coq_loc(&coords), delta.coq()));
                }
                // gvar phantom points
                let mut px = Rat::int(0);
                let mut py = Rat::int(0);
                let mut ok = true;
                for (region, ds) in &d.phantom[gid] {
                    match region_scalar(region, &coords) {
                        Some(s) => {
                            let dx = s.mul(Rat::int((ds[1].0 - ds[0].0) as i128)).and_then(|t| px.add(t));
                            let dy = s.mul(Rat::int((ds[2].1 - ds[3].1) as i128)).and_then(|t| py.add(t));
                            match (dx, dy) {
                                (Some(a), Some(b)) => { px = a; py = b; }
                                _ => ok = false,
                            }
                        }
                        None => ok = false,
                    }
                }
                if ok {
                    if !vertical {
                        if let Some(e) = exact {
                            let ph = px.add(Rat::int(base[gid] as i128)).unwrap();
                            if ph != e {
                                emit_violation(
                                    "hvar-disagrees-with-gvar-phantom-points",
                                    format!("advance width of {} at master {}: hmtx+HVAR gives {} but the gvar phantom points give {}", name, c.masters[*m].name, e.f(), ph.f()),
                                    input.clone(),
                                );
                            }
                        }
                    } else {
                        let ph = py.add(Rat::int(base[gid] as i128)).unwrap();
                        if !ph.sub(Rat::int(expect as i128)).map(|x| x.abs_le(1, 1)).unwrap_or(true) {
                            emit_violation(
                                "gvar-phantom-height-differs-from-master",
                                format!("advance height of {} at master {} from the gvar phantom points is {} but that master's rounded height is {}", name, c.masters[*m].name, ph.f(), expect),
                                input.clone(),
                            );
                        }
                    }
                }
            }
            // at the master locations of the font where this glyph has no source there is no source
            // advance to compare with, but HVAR and the phantom points must still tell the same
            if !vertical {
                for m in 0..c.masters.len() {
                    if srcs.iter().any(|s| s.0 == m) { continue; }
                    let coords = c.f2dot14(m);
                    let (_, exact) = eval_at(base[gid], &row, &coords, st);
                    let mut px = Some(Rat::int(base[gid] as i128));
                    for (region, ds) in &d.phantom[gid] {
                        px = px.and_then(|acc| region_scalar(region, &coords)?.mul(Rat::int((ds[1].0 - ds[0].0) as i128))?.add(acc));
                    }
                    st.glyph_master_pairs += 1;
                    if let (Some(e), Some(ph)) = (exact, px) {
                        if e != ph {
                            emit_violation(
                                "hvar-disagrees-with-gvar-phantom-points",
                                format!("advance width of {} at master {} (where the glyph has no source): hmtx+HVAR gives {} but the gvar phantom points give {}", name, c.masters[m].name, e.f(), ph.f()),
                                json!({"source": src, "glyph": name, "master": c.masters[m].name, "normalized_f2dot14": coords}),
                            );
                        }
                    }
                }
            }
            rows.push(row);
        }
        // model: delta sets, default advances, single-model flag
        let dir = if vertical { "Vertical" } else { "Horizontal" };
        let coq = format!(
            "check_advances {} {} {} {} {} {} {} {}",
            coq_z(dd), dir, coq_loc(&c.scaled(0)),
            coq_list(&c.global_masters(), |m| coq_loc(&c.scaled(*m))),
            coq_glyphs(c, d, synth),
            coq_list(&base, |v| coq_z(*v)),
            coq_list(&rows, coq_row),
            coq_bool(tbl.map.is_some() || !c.dyadic),
        );
        emit_case(*id, if vertical { "vvar" } else { "hvar" }, coq, None, c.masters.len() > 1, format!("{}:{}:{}", ci, dir, serde_json::to_string(src).unwrap().len()),
                  json!({"source": src, "rows": rows.iter().map(|r| r.iter().map(|(rg, dl)| json!({"region": rg, "delta": dl})).collect::<Vec<_>>()).collect::<Vec<_>>(), "default_advances": base}));
        *id += 1;
        if c.dyadic && !probes.is_empty() {
            let coq = format!(
                "check_ivs_eval {} {} [{}]",
                coq_ivs(&tbl.st),
                coq_opt(&tbl.map, |es| coq_list(es, |(o, i)| format!("({}, {})", coq_nat(*o), coq_nat(*i)))),
                probes.join("; ")
            );
            emit_case(*id, if vertical { "vvar-eval" } else { "hvar-eval" }, coq, None, true, format!("{}:eval:{}", ci, dir), json!({"source_index": ci}));
            *id += 1;
        }
        if !vertical {
            // phantom rows: x delta of (right - left) per tuple
            let prow: Vec<Row> = d.phantom.iter().map(|ts| ts.iter().map(|(r, ds)| (r.clone(), ds[1].0 - ds[0].0)).collect()).collect();
            let coq = format!(
                "check_phantoms {} {} {} {}",
                coq_z(dd),
                coq_list(&c.global_masters(), |m| coq_loc(&c.scaled(*m))),
                coq_glyphs(c, d, synth),
                coq_list(&prow, coq_row)
            );
            emit_case(*id, "phantom", coq, None, true, format!("{}:phantom", ci), json!({"source_index": ci}));
            *id += 1;
        }
    }

    // ---- global metrics -----------------------------------------------------------------------
    let upem = c.upem as f64;
    let mut items: Vec<String> = Vec::new();
    for m in ALL_METRICS {
        let expected: Vec<i64> = c.global_masters().iter().map(|mi| ot_round(ufo_metric(upem, &c.masters[*mi].fi, m))).collect();
        let field = d.fields.get(&m).copied();
        let rec: Option<Row> = match (m.mvar_tag(), &d.mvar) {
            (Some(tag), Some((store, recs))) => match recs.get(tag) {
                Some(idx) => match store.row(*idx) {
                    Some(r) => Some(r),
                    None => {
                        emit_violation("delta-set-index-out-of-range", format!("MVAR record {} points outside the store", String::from_utf8_lossy(tag)), json!({"source": src}));
                        Some(Vec::new())
                    }
                },
                None => None,
            },
            _ => None,
        };
        if rec.is_some() { st.mvar_records += 1; }
        if let Some(base) = field {
            if m == Ascender || m == Descender { continue; }
            for (k, mi) in c.global_masters().iter().enumerate() {
                let coords = c.f2dot14(*mi);
                let (v, _) = match &rec {
                    Some(r) => eval_at(base, r, &coords, st),
                    None => (base as f64, Some(Rat::int(base as i128))),
                };
                st.metric_master_pairs += 1;
                // the field itself is narrowed (C19's subject); through MVAR a non-default master's value is not
                let expect = if *mi != c.default_master() {
                    expected[k]
                } else if m.unsigned_field() {
                    expected[k].clamp(0, 65535)
                } else {
                    expected[k].clamp(-32768, 32767)
                };
                let err = (v - expect as f64).abs();
                // coordinates that are not multiples of 1/16384 are stored rounded to F2Dot14 (master
                // location and region coordinates alike): each region scalar moves by up to about
                // 2 / (narrowest side of the tent, in F2Dot14 units) per axis; with exact coordinates
                // the bound is the theorem's 1/2
                let allowance = if c.dyadic {
                    1e-9
                } else {
                    1e-9 + rec.as_ref().map(|r| r.iter().map(|(rg, dl)| {
                        let a: f64 = rg.iter().filter(|(_, p, _)| *p != 0).map(|(s0, p, e)| {
                            let w = [(p - s0).abs(), (e - p).abs()].into_iter().filter(|w| *w > 0).min().unwrap_or(16384);
                            2.0 / w as f64
                        }).sum();
                        a * dl.abs() as f64
                    }).sum::<f64>()).unwrap_or(0.0)
                };
                let input = json!({"source": src, "metric": m.coq(), "mvar_tag": m.mvar_tag().map(|t| String::from_utf8_lossy(t).to_string()),
                                   "master": c.masters[*mi].name, "normalized_f2dot14": coords, "font_value": v, "rounded_source_value": expect});
                if *mi == c.default_master() {
                    if err != 0.0 {
                        emit_violation(
                            "default-metric-not-exact",
                            format!("{:?} at the default location is {} in the font but the default master gives {}", m, v, expect),
                            input,
                        );
                    }
                } else if m.mvar_tag().is_some() && err > 0.5 + allowance {
                    emit_violation(
                        "metric-differs-from-master",
                        format!("{:?} through MVAR at master {} is {} but that master gives {}", m, c.masters[*mi].name, v, expect),
                        input,
                    );
                }
                if let (Some(tag), Some(r)) = (m.mvar_tag(), &rec) {
                    let f2c = f2(*mi);
                    let own = v - base as f64;
                    let rf = font.mvar().ok().and_then(|t| t.metric_delta(Tag::new(tag), &f2c).ok()).map(|f| f.to_f64());
                    let sum_abs = r.iter().map(|(_, d)| d.abs() as f64).sum::<f64>();
                    if !rf.map(|f| (f - own).abs() <= 0.5 + 0.002 + 4e-5 * sum_abs).unwrap_or(false) {
                        emit_violation(
                            "ivs-evaluators-disagree",
                            format!("MVAR {:?}: read-fonts delta {:?} vs own exact evaluation {}", m, rf, own),
                            json!({"source": src}),
                        );
                    }
                }
            }
        } else if m.mvar_tag().is_some() && !m.is_vhea() {
            emit_violation("default-metric-field-missing", format!("no OS/2 / hhea / post field decoded for {:?}", m), json!({"source": src}));
        }
        items.push(format!(
            "({}, {}, {}, {})",
            m.coq(),
            coq_opt(&rec, coq_row),
            coq_opt(&if m == Ascender || m == Descender { None } else { field }, |v| coq_z(*v)),
            coq_list(&expected, |v| coq_z(*v))
        ));
    }
    let coq = format!("check_metrics {} {} {} {} [{}]", coq_z(dd), coq_q(upem), coq_loc(&c.scaled(0)), coq_masters(c), items.join("; "));
    emit_case(*id, "mvar", coq, None, nglobal > 1, format!("{}:mvar", ci), json!({"source": src, "fields": d.fields.iter().map(|(k, v)| (k.coq(), *v)).collect::<BTreeMap<_, _>>()}));
    *id += 1;
}

/// one master compiled on its own: its default fields are the rounded source values
fn check_static(c: &Cfg, pick: usize, sub: &std::path::Path, src: &serde_json::Value, st: &mut Stats, id: &mut usize, ci: usize) {
    let mi = c.global_masters()[pick];
    let ufo = sub.join(format!("{}.ufo", c.masters[mi].name));
    let bytes = match compile_path(&ufo, None, None) {
        Outcome::Font(b) => b,
        _ => return, // a non-default master alone may lack glyphs the features need; not this property
    };
    let Ok(d) = decode(&bytes) else { return };
    st.static_builds += 1;
    let upem = c.upem as f64;
    let fi = &c.masters[mi].fi;
    let mut items = Vec::new();
    for m in ALL_METRICS {
        if m == Ascender || m == Descender { continue; }
        let Some(f) = d.fields.get(&m) else { continue };
        let e = ot_round(ufo_metric(upem, fi, m));
        let e = if m.unsigned_field() { e.clamp(0, 65535) } else { e.clamp(-32768, 32767) };
        if e != *f {
            emit_violation(
                "static-master-metric-differs",
                format!("master {} compiled alone has {:?} = {} but its fontinfo gives {}", c.masters[mi].name, m, f, e),
                json!({"source": src, "master": c.masters[mi].name, "metric": m.coq()}),
            );
        }
        items.push(format!("({}, {})", m.coq(), coq_z(*f)));
    }
    let coq = format!("check_static {} {} [{}]", coq_q(upem), coq_fontinfo(fi), items.join("; "));
    emit_case(*id, "static", coq, None, true, format!("{}:static:{}", ci, mi), json!({"source_index": ci, "master": c.masters[mi].name}));
    *id += 1;
}
