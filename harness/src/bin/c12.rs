//! C12: component handling options never change what a glyph looks like.
//!
//! For every generated source (static UFO or 2-3 master designspace with nested, transformed, mixed
//! contour+component and non-export glyphs) the REAL compiler is run in-process under all 16 subsets
//! of {FLATTEN_COMPONENTS, DECOMPOSE_COMPONENTS, DECOMPOSE_TRANSFORMED_COMPONENTS, PREFER_SIMPLE_GLYPHS}
//! and, when the source has non-export glyphs, once more per subset with every glyph exported.
//!
//! Property predicate, evaluated directly on the binaries: every exported glyph, drawn with skrifa at
//! every master location, is compared with the harness's own recursive resolution of the source glyph,
//! rounded once (= what the fully decomposed build stores): same number of contours, matched one to one
//! up to the start point, same on/off pattern, orientation free only for contours reached through a
//! negative determinant, every point within one unit per nesting level; advance = rounded source advance.
//! Failures are keyed by class: build failure/panic, missing glyph, advance, contour count, merged
//! identical instances, structure, orientation, flatten overflow (DESIGN.md 6.9), rounding beyond one
//! unit per level but inside the bound FV.C12.Props.quantisation_bound gives for the stored form,
//! and anything beyond that bound.
//!
//! Correspondence: the IR the compiler leaves behind (Options.ir_dir: final glyph order, contours,
//! components, advances) is compared with FV.C12.Model.process by one Gallina term per source and
//! master location covering all option subsets that built (small outcomes point by point, large ones by
//! contour lengths, coordinate sums and signed area; components and advances always in full).
use fontdrasil::coords::NormalizedLocation;
use fontir::orchestration::{Flags, WorkId as FeWorkId};
use fontir::paths::Paths as FePaths;
use serde_json::{json, Value};
use skrifa::instance::Size;
use skrifa::outline::{DrawSettings, OutlinePen};
use skrifa::raw::TableProvider;
use skrifa::{FontRef, GlyphId, MetadataProvider};
use std::collections::{BTreeMap, HashMap};
use vh::srcgen::*;
use vh::*;

// ---------------------------------------------------------------------------------------------
// source description
// ---------------------------------------------------------------------------------------------
#[derive(Clone, Debug, PartialEq)]
struct P {
    x: f64,
    y: f64,
    on: bool,
}
type Contour = Vec<P>;

#[derive(Clone, Debug)]
struct GM {
    adv: f64,
    contours: Vec<Contour>,
    /// parallel to G.bases
    xf: Vec<[f64; 6]>,
}
#[derive(Clone, Debug)]
struct G {
    name: String,
    export: bool,
    bases: Vec<String>,
    m: Vec<GM>,
    /// the glyph's own source at the font's intermediate ("brace" / sparse) location, if it has one
    sp: Option<GM>,
}
#[derive(Clone, Debug)]
struct Src {
    id: usize,
    kind: String,
    /// user-space axis positions of the masters (axis 0..1000); master 0 is the default
    pos: Vec<f64>,
    axis_default: f64,
    /// user-space position of an intermediate location at which only some glyphs have a source
    sparse: Option<f64>,
    glyphs: Vec<G>,
    /// public.glyphOrder
    order: Vec<String>,
}

fn lerp(a: f64, b: f64, t: f64) -> f64 {
    a + (b - a) * t
}
fn lerp_gm(a: &GM, b: &GM, t: f64) -> GM {
    GM {
        adv: lerp(a.adv, b.adv, t),
        contours: a.contours.iter().zip(b.contours.iter()).map(|(c, d)| c.iter().zip(d.iter()).map(|(p, q)| P { x: lerp(p.x, q.x, t), y: lerp(p.y, q.y, t), on: p.on }).collect()).collect(),
        xf: a.xf.iter().zip(b.xf.iter()).map(|(x, y)| { let mut o = [0.0; 6]; for i in 0..6 { o[i] = lerp(x[i], y[i], t); } o }).collect(),
    }
}

impl Src {
    /// every location at which some glyph has a source: the full masters, then the intermediate one
    fn locs(&self) -> Vec<f64> {
        let mut v = self.pos.clone();
        if let Some(p) = self.sparse {
            if self.glyphs.iter().any(|g| g.sp.is_some()) {
                v.push(p);
            }
        }
        v
    }
    /// The glyph at location index `li` of `locs()`: its own source there, else what a one-axis variation
    /// model gives from the glyph's own sources: linear interpolation between the neighbouring ones.
    fn inst(&self, g: &G, li: usize) -> GM {
        if li < self.pos.len() {
            return g.m[li].clone();
        }
        if let Some(m) = &g.sp {
            return m.clone();
        }
        let p = self.sparse.unwrap();
        let mut own: Vec<(f64, &GM)> = self.pos.iter().cloned().zip(g.m.iter()).collect();
        own.sort_by(|a, b| a.0.partial_cmp(&b.0).unwrap());
        let hi = own.iter().position(|x| x.0 > p).unwrap();
        let (a, b) = (&own[hi - 1], &own[hi]);
        lerp_gm(a.1, b.1, (p - a.0) / (b.0 - a.0))
    }
    fn g(&self, n: &str) -> Option<&G> {
        self.glyphs.iter().find(|g| g.name == n)
    }
    fn depth(&self, n: &str) -> usize {
        match self.g(n) {
            None => 0,
            Some(g) => g.bases.iter().map(|b| 1 + self.depth(b)).max().unwrap_or(0),
        }
    }
    fn design(&self, all_export: bool) -> Design {
        let masters: Vec<Master> = self
            .pos
            .iter()
            .enumerate()
            .map(|(k, p)| Master {
                name: format!("M{k}"),
                style: format!("S{k}"),
                location: if self.pos.len() > 1 { vec![("Weight".into(), *p)] } else { vec![] },
                glyphs: self.glyphs.iter().map(|g| glyph_src(g, k)).collect(),
                glyph_order: Some(self.order.clone()),
                skip_export: if all_export { vec![] } else { self.glyphs.iter().filter(|g| !g.export).map(|g| g.name.clone()).collect() },
                ..Default::default()
            })
            .collect();
        let mut masters = masters;
        if let Some(p) = self.sparse {
            let gl: Vec<GlyphSrc> = self
                .glyphs
                .iter()
                .filter(|g| g.sp.is_some())
                .map(|g| { let mut h = g.clone(); h.m[0] = g.sp.clone().unwrap(); glyph_src(&h, 0) })
                .collect();
            if !gl.is_empty() {
                // a layer of the default master's UFO, holding only the glyphs that have this intermediate source
                masters.push(Master { name: "Brace".into(), style: "Brace".into(), location: vec![("Weight".into(), p)], glyphs: gl, layer_of: Some("M0".into()), ..Default::default() });
            }
        }
        Design {
            family: "CTwelve".into(),
            upem: 1000,
            axes: if self.pos.len() > 1 {
                vec![AxisSrc { name: "Weight".into(), tag: "wght".into(), min: 0.0, default: self.axis_default, max: 1000.0, ..Default::default() }]
            } else {
                vec![]
            },
            masters,
            // a designspace carries the non-export list itself (the UFO libs' public.* keys are ignored then)
            extra_xml: {
                let skip: Vec<String> = self.glyphs.iter().filter(|g| !g.export).map(|g| g.name.clone()).collect();
                if self.pos.len() > 1 && !all_export && !skip.is_empty() {
                    format!("  <lib><dict><key>public.skipExportGlyphs</key>{}</dict></lib>\n", plist_str_array(&skip))
                } else {
                    String::new()
                }
            },
            ..Default::default()
        }
    }
    fn to_json(&self) -> Value {
        json!({
            "kind": self.kind, "masters": self.pos, "axis_default": self.axis_default, "intermediate_location": self.sparse, "glyph_order": self.order,
            "glyphs": self.glyphs.iter().map(|g| json!({
                "name": g.name, "export": g.export, "bases": g.bases,
                "intermediate_source": g.sp.as_ref().map(|m| json!({"advance": m.adv, "transforms": m.xf, "contours": m.contours.iter().map(|c| c.iter().map(|p| json!([p.x, p.y, p.on])).collect::<Vec<_>>()).collect::<Vec<_>>()})),
                "masters": g.m.iter().map(|m| json!({
                    "advance": m.adv,
                    "contours": m.contours.iter().map(|c| c.iter().map(|p| json!([p.x, p.y, p.on])).collect::<Vec<_>>()).collect::<Vec<_>>(),
                    "transforms": m.xf,
                })).collect::<Vec<_>>()
            })).collect::<Vec<_>>()
        })
    }
}

fn glyph_src(g: &G, k: usize) -> GlyphSrc {
    let m = &g.m[k];
    let mut o = GlyphSrc::new(&g.name, m.adv);
    for c in &m.contours {
        let n = c.len();
        o.contours.push(
            (0..n)
                .map(|i| {
                    let p = &c[i];
                    let prev = &c[(i + n - 1) % n];
                    let t = if !p.on { Pt::Off } else if !prev.on { Pt::QCurve } else { Pt::Line };
                    (p.x, p.y, t)
                })
                .collect(),
        );
    }
    for (b, t) in g.bases.iter().zip(m.xf.iter()) {
        o.components.push((b.clone(), *t));
    }
    o
}

// kurbo convention: [a b c d e f] maps (x,y) to (a x + c y + e, b x + d y + f)
fn apply(t: &[f64; 6], x: f64, y: f64) -> (f64, f64) {
    (t[0] * x + t[2] * y + t[4], t[1] * x + t[3] * y + t[5])
}
fn mul(a: &[f64; 6], b: &[f64; 6]) -> [f64; 6] {
    [
        a[0] * b[0] + a[2] * b[1],
        a[1] * b[0] + a[3] * b[1],
        a[0] * b[2] + a[2] * b[3],
        a[1] * b[2] + a[3] * b[3],
        a[0] * b[4] + a[2] * b[5] + a[4],
        a[1] * b[4] + a[3] * b[5] + a[5],
    ]
}
const IDENT: [f64; 6] = [1.0, 0.0, 0.0, 1.0, 0.0, 0.0];
fn det(t: &[f64; 6]) -> f64 {
    t[0] * t[3] - t[1] * t[2]
}

/// Reference semantics of a source glyph at master k: own contours, then each component's resolved
/// contours under the component transform.  `flipped` records a negative determinant anywhere on the way
/// down: which levels are stored as components and which are decomposed (reversing the contour when the
/// accumulated determinant is negative) depends on the options, so only then may the orientation differ.
#[derive(Clone, Debug)]
struct RC {
    pts: Contour,
    flipped: bool,
}
/// does the glyph, or anything it transitively refers to, have a source of its own at the intermediate location?
fn has_intermediate(src: &Src, name: &str, fuel: usize) -> bool {
    if fuel == 0 {
        return false;
    }
    match src.g(name) {
        None => false,
        Some(g) => g.sp.is_some() || g.bases.iter().any(|b| has_intermediate(src, b, fuel - 1)),
    }
}
fn resolve_ref(src: &Src, name: &str, k: usize, t: &[f64; 6], flipped: bool, out: &mut Vec<RC>, fuel: usize) {
    if fuel == 0 {
        return;
    }
    let Some(g) = src.g(name) else { return };
    let nm = src.pos.len();
    if k >= nm && !has_intermediate(src, name, 12) {
        // Neither this glyph nor anything below it has a source here: in every build its outline at this
        // location is what the variation model makes of its outlines at the locations where sources exist
        // (one axis: linear between the two neighbouring masters).  For components whose 2x2 is the same at
        // all masters that equals resolving the interpolated glyphs; for a 2x2 that differs between masters
        // (such a glyph is stored as a simple glyph by every option subset) only this is what is drawn.
        let p = src.sparse.unwrap();
        let mut own: Vec<(f64, usize)> = src.pos.iter().cloned().zip(0..nm).collect();
        own.sort_by(|a, b| a.0.partial_cmp(&b.0).unwrap());
        let hi = own.iter().position(|x| x.0 > p).unwrap();
        let (a, b) = (own[hi - 1], own[hi]);
        let w = (p - a.0) / (b.0 - a.0);
        let (mut ra, mut rb) = (Vec::new(), Vec::new());
        resolve_ref(src, name, a.1, &IDENT, false, &mut ra, fuel);
        resolve_ref(src, name, b.1, &IDENT, false, &mut rb, fuel);
        for (ca, cb) in ra.iter().zip(rb.iter()) {
            out.push(RC {
                pts: ca.pts.iter().zip(cb.pts.iter()).map(|(q, r)| { let (x, y) = apply(t, lerp(q.x, r.x, w), lerp(q.y, r.y, w)); P { x, y, on: q.on } }).collect(),
                flipped: flipped || ca.flipped,
            });
        }
        return;
    }
    let m = &src.inst(g, k);
    for c in &m.contours {
        out.push(RC {
            pts: c.iter().map(|p| { let (x, y) = apply(t, p.x, p.y); P { x, y, on: p.on } }).collect(),
            flipped,
        });
    }
    for (b, x) in g.bases.iter().zip(m.xf.iter()) {
        let t2 = mul(t, x);
        resolve_ref(src, b, k, &t2, flipped || det(x) < 0.0, out, fuel - 1);
    }
}

/// The bound the container format allows along the deepest storage (no option set): leaf points rounded
/// to integers, every level rounds its offset to an integer and its 2x2 to F2Dot14.
fn format_bound(src: &Src, name: &str, k: usize, fuel: usize) -> (f64, f64) {
    // returns (error bound, max |coordinate| of the exact resolution)
    if fuel == 0 {
        return (0.0, 0.0);
    }
    let Some(g) = src.g(name) else { return (0.0, 0.0) };
    let m = &src.inst(g, k);
    // a stored point is the rounded master point; away from the default master gvar's IUP optimisation
    // (tolerance 0.5) may move it by another half unit
    let mut err: f64 = if k == 0 { 0.5 } else { 1.0 };
    let mut mx: f64 = 0.0;
    for c in &m.contours {
        for p in c {
            mx = mx.max(p.x.abs()).max(p.y.abs());
        }
    }
    for (b, x) in g.bases.iter().zip(m.xf.iter()) {
        let (e, cm) = format_bound(src, b, k, fuel - 1);
        let row = (x[0].abs() + x[2].abs()).max(x[1].abs() + x[3].abs());
        let eps = 1.0 / 16384.0;
        err = err.max((row + 2.0 * eps) * e + 0.5 + 2.0 * eps * cm);
        mx = mx.max(row * cm + x[4].abs().max(x[5].abs()));
    }
    (err, mx)
}

// ---------------------------------------------------------------------------------------------
// generator
// ---------------------------------------------------------------------------------------------
fn gen_xf2(rng: &mut Rng) -> ([f64; 4], &'static str) {
    match rng.below(100) {
        0..=34 => ([1.0, 0.0, 0.0, 1.0], "identity"),
        35..=49 => {
            let s = *rng.pick(&[0.5, 0.75, 1.25, 1.5, 0.25, 1.75]);
            ([s, 0.0, 0.0, s], "scale")
        }
        50..=59 => (*rng.pick(&[[-1.0, 0.0, 0.0, 1.0], [1.0, 0.0, 0.0, -1.0], [-1.0, 0.0, 0.0, -1.0], [-0.5, 0.0, 0.0, 1.5]]), "flip"),
        60..=69 => (*rng.pick(&[[0.0, 1.0, -1.0, 0.0], [0.0, -1.0, 1.0, 0.0], [0.0, 1.0, 1.0, 0.0]]), "rot90"),
        70..=79 => (*rng.pick(&[[1.0, 0.5, 0.0, 1.0], [1.5, 0.0, 0.0, 0.5], [0.5, 0.5, -0.5, 0.5], [1.0, 0.0, 0.25, 1.0]]), "shear"),
        80..=89 => (
            *rng.pick(&[[0.8660254, 0.5, -0.5, 0.8660254], [0.9, 0.0, 0.0, 0.9], [0.7, 0.0, 0.0, 1.1], [0.70710678, 0.70710678, -0.70710678, 0.70710678], [1.0, 0.0, 0.17632698, 1.0]]),
            "decimal",
        ),
        90..=95 => (*rng.pick(&[[2.0, 0.0, 0.0, 2.0], [-2.0, 0.0, 0.0, 2.0], [1.99997, 0.0, 0.0, 1.0], [2.0, 0.0, 0.0, 1.0], [0.0, 2.0, -2.0, 0.0]]), "two"),
        _ => (*rng.pick(&[[2.5, 0.0, 0.0, 2.5], [3.0, 0.0, 0.0, 1.0], [-2.25, 0.0, 0.0, 1.0], [1.0, 2.5, 0.0, 1.0]]), "overflow"),
    }
}
fn gen_off(rng: &mut Rng) -> f64 {
    match rng.below(20) {
        0..=14 => rng.range(-300, 300) as f64,
        15..=16 => 0.0,
        17..=18 => rng.range(-600, 600) as f64 / 2.0,
        _ => rng.range(-1200, 1200) as f64 / 4.0,
    }
}

fn gen_contour(rng: &mut Rng, frac: bool) -> Contour {
    // a star-shaped polygon around a centre: distinct consecutive points, optional off-curve points
    let cx = rng.range(0, 500) as f64;
    let cy = rng.range(-100, 600) as f64;
    let n = rng.range(3, 6) as usize;
    let quads = rng.chance(2, 5);
    let mut c = Vec::new();
    for i in 0..n {
        let ang = (i as f64 + rng.range(0, 50) as f64 / 100.0) * std::f64::consts::TAU / n as f64;
        let r = rng.range(60, 260) as f64;
        let (mut x, mut y) = ((cx + r * ang.cos()).round(), (cy + r * ang.sin()).round());
        if frac {
            x += rng.range(0, 3) as f64 / 4.0;
            y += rng.range(0, 1) as f64 / 2.0;
        }
        c.push(P { x, y, on: true });
        if quads && rng.chance(1, 2) {
            let k = if rng.chance(1, 4) { 2 } else { 1 };
            for j in 0..k {
                let a2 = ang + (j as f64 + 1.0) * std::f64::consts::TAU / n as f64 / (k as f64 + 1.0);
                let r2 = r + rng.range(10, 90) as f64;
                c.push(P { x: (cx + r2 * a2.cos()).round(), y: (cy + r2 * a2.sin()).round(), on: false });
            }
        }
    }
    // no two consecutive equal points
    let mut out: Contour = Vec::new();
    for p in c {
        if out.last().map(|q: &P| q.x == p.x && q.y == p.y).unwrap_or(false) {
            continue;
        }
        out.push(p);
    }
    while out.len() > 1 && out[0].x == out[out.len() - 1].x && out[0].y == out[out.len() - 1].y {
        out.pop();
    }
    // start on an on-curve point
    let s = out.iter().position(|p| p.on).unwrap_or(0);
    out.rotate_left(s);
    out
}

fn vary_contour(rng: &mut Rng, c: &Contour, amount: i64) -> Contour {
    c.iter().map(|p| P { x: p.x + rng.range(-amount, amount) as f64, y: p.y + rng.range(-amount, amount) as f64, on: p.on }).collect()
}

fn gen_src(rng: &mut Rng, id: usize) -> Src {
    let nm = match rng.below(10) {
        0..=4 => 1,
        5..=7 => 2,
        _ => 3,
    };
    let (pos, axis_default) = match nm {
        1 => (vec![0.0], 0.0),
        2 => {
            if rng.chance(1, 2) {
                (vec![0.0, 1000.0], 0.0)
            } else {
                (vec![1000.0, 0.0], 1000.0)
            }
        }
        _ => {
            if rng.chance(1, 2) {
                (vec![0.0, 500.0, 1000.0], 0.0)
            } else {
                (vec![500.0, 0.0, 1000.0], 500.0)
            }
        }
    };
    let frac = rng.chance(1, 8);
    let mut glyphs: Vec<G> = Vec::new();
    let mut kinds: Vec<&'static str> = Vec::new();
    let names = ["a", "b", "c", "d", "e", "f", "g", "h", "i", "j", "k", "l"];
    let nl = rng.range(1, 3) as usize;
    for i in 0..nl {
        let nc = rng.range(1, 2) as usize;
        let base: Vec<Contour> = (0..nc).map(|_| gen_contour(rng, frac)).collect();
        let adv0 = rng.range(200, 900) as f64;
        let m = (0..nm)
            .map(|k| GM {
                adv: if k == 0 { adv0 } else { adv0 + rng.range(-80, 80) as f64 },
                contours: if k == 0 { base.clone() } else { base.iter().map(|c| vary_contour(rng, c, 40)).collect() },
                xf: vec![],
            })
            .collect();
        glyphs.push(G { name: names[i].into(), export: !rng.chance(1, 8), bases: vec![], m, sp: None });
    }
    if rng.chance(1, 5) {
        // an empty glyph that can be used as a component
        let adv0 = rng.range(100, 400) as f64;
        glyphs.push(G { name: "space".into(), export: true, bases: vec![], m: (0..nm).map(|_| GM { adv: adv0, contours: vec![], xf: vec![] }).collect(), sp: None });
    }
    let ncomp = rng.range(1, 6) as usize;
    let chainy = rng.chance(1, 2);
    for i in 0..ncomp {
        let name = names[nl + i];
        let nb = match rng.below(10) {
            0..=4 => 1,
            5..=7 => 2,
            _ => 3,
        };
        let mut bases: Vec<String> = Vec::new();
        let mut xfs: Vec<Vec<[f64; 6]>> = vec![Vec::new(); nm];
        let incons = nm > 1 && rng.chance(1, 14);
        for j in 0..nb {
            let b = if chainy && j == 0 { glyphs[glyphs.len() - 1].name.clone() } else { glyphs[rng.below(glyphs.len() as u64) as usize].name.clone() };
            let (m2, kind) = gen_xf2(rng);
            kinds.push(kind);
            let (e, f) = (gen_off(rng), gen_off(rng));
            let dup = j > 0 && rng.chance(1, 12);
            for k in 0..nm {
                let (de, df) = if k == 0 { (0.0, 0.0) } else { (rng.range(-60, 60) as f64, rng.range(-30, 30) as f64) };
                let mut t = [m2[0], m2[1], m2[2], m2[3], e + de, f + df];
                if incons && k == 1 && j == 0 {
                    t[0] += 0.25;
                }
                if dup {
                    // the same component instantiated twice (identical base and transform)
                    t = xfs[k][j - 1];
                }
                xfs[k].push(t);
            }
            if dup {
                bases.push(bases[j - 1usize].clone());
            } else {
                bases.push(b);
            }
        }
        let mixed = rng.chance(3, 10);
        let base_contours: Vec<Contour> = if mixed { (0..rng.range(1, 2)).map(|_| gen_contour(rng, frac)).collect() } else { vec![] };
        let adv0 = rng.range(200, 900) as f64;
        let m = (0..nm)
            .map(|k| GM {
                adv: if k == 0 { adv0 } else { adv0 + rng.range(-80, 80) as f64 },
                contours: if k == 0 { base_contours.clone() } else { base_contours.iter().map(|c| vary_contour(rng, c, 30)).collect() },
                xf: xfs[k].clone(),
            })
            .collect();
        glyphs.push(G { name: name.into(), export: !rng.chance(1, 4), bases, m, sp: None });
    }
    if !glyphs.iter().any(|g| g.export && !g.bases.is_empty()) {
        let k = glyphs.len() - 1;
        glyphs[k].export = true;
    }
    let mut order: Vec<String> = glyphs.iter().map(|g| g.name.clone()).collect();
    if rng.chance(1, 2) {
        rng.shuffle(&mut order);
    }
    kinds.sort();
    kinds.dedup();
    // An intermediate ("brace") source on one or two contour glyphs only: every composite that reaches them
    // has sources at the full masters alone, so the location is known only deep in the component graph.
    let mut sparse = None;
    if nm > 1 && rng.chance(1, 2) {
        let p = if nm == 2 { *rng.pick(&[250.0, 500.0, 750.0]) } else { *rng.pick(&[250.0, 750.0]) };
        let leaves: Vec<usize> = (0..glyphs.len()).filter(|i| glyphs[*i].bases.is_empty() && !glyphs[*i].m[0].contours.is_empty()).collect();
        if !leaves.is_empty() {
            sparse = Some(p);
            let n_sp = if leaves.len() > 1 && rng.chance(1, 3) { 2 } else { 1 };
            let mut pick = leaves.clone();
            rng.shuffle(&mut pick);
            let probe = Src { id, kind: String::new(), pos: pos.clone(), axis_default, sparse, glyphs: glyphs.clone(), order: vec![] };
            for i in pick.into_iter().take(n_sp) {
                // well away from the straight line between the neighbouring masters
                let mid = probe.inst(&glyphs[i], nm);
                let contours = mid.contours.iter().map(|c| vary_contour(rng, c, 120).iter().map(|q| P { x: q.x.round(), y: q.y.round(), on: q.on }).collect()).collect();
                glyphs[i].sp = Some(GM { adv: (mid.adv + rng.range(-60, 60) as f64).round(), contours, xf: vec![] });
            }
        }
    }
    if sparse.is_some() {
        // A non-export glyph whose 2x2 differs between masters, inlined under a glyph that reaches the intermediate
        // location, has no single meaning there (interpolation of products against product of interpolations, a
        // second-order difference the options need not agree on): keep such glyphs exported in this class.
        for g in glyphs.iter_mut() {
            if (0..g.bases.len()).any(|j| varies(g, j)) {
                g.export = true;
            }
        }
    }
    Src { id, kind: format!("random:{}m{}", nm, if sparse.is_some() { "+brace" } else { "" }), pos, axis_default, sparse, glyphs, order }
}

fn rect(x0: f64, y0: f64, x1: f64, y1: f64) -> Contour {
    vec![P { x: x0, y: y0, on: true }, P { x: x1, y: y0, on: true }, P { x: x1, y: y1, on: true }, P { x: x0, y: y1, on: true }]
}
fn simple(name: &str, c: Vec<Contour>) -> G {
    G { name: name.into(), export: true, bases: vec![], m: vec![GM { adv: 500.0, contours: c, xf: vec![] }], sp: None }
}
fn comp(name: &str, own: Vec<Contour>, parts: &[(&str, [f64; 6])]) -> G {
    G { name: name.into(), export: true, bases: parts.iter().map(|p| p.0.to_string()).collect(), m: vec![GM { adv: 600.0, contours: own, xf: parts.iter().map(|p| p.1).collect() }], sp: None }
}
fn fixed(id: usize, kind: &str, glyphs: Vec<G>) -> Src {
    let order = glyphs.iter().map(|g| g.name.clone()).collect();
    Src { id, kind: kind.into(), pos: vec![0.0], axis_default: 0.0, sparse: None, glyphs, order }
}

const COMPOSITE_BRACE: &str = "fixed:composite-brace";

fn fixed_sources() -> Vec<Src> {
    let sc = |s: f64| [s, 0.0, 0.0, s, 0.0, 0.0];
    let mut v = Vec::new();
    // DESIGN.md 6.9: c = 1.5*b, b = 1.5*a; flattening composes 2.25
    v.push(fixed(0, "fixed:flatten-2.25", vec![simple("a", vec![rect(0.0, 0.0, 100.0, 100.0)]), comp("b", vec![], &[("a", sc(1.5))]), comp("c", vec![], &[("b", sc(1.5))])]));
    // the same through a rotation: entries stay <= 2 individually, composed 0/±4
    v.push(fixed(1, "fixed:flatten-rot-4", vec![simple("a", vec![rect(0.0, 0.0, 100.0, 50.0)]), comp("b", vec![], &[("a", [0.0, 2.0, -2.0, 0.0, 10.0, 0.0])]), comp("c", vec![], &[("b", [0.0, 2.0, -2.0, 0.0, 0.0, 5.0])])]));
    // two different parents reach the same base under the same accumulated transform at the same index
    v.push(fixed(2, "fixed:same-key-twice", vec![
        simple("a", vec![rect(0.0, 0.0, 100.0, 100.0)]),
        comp("b", vec![], &[("a", IDENT)]),
        comp("c", vec![], &[("a", IDENT)]),
        comp("d", vec![], &[("b", [1.0, 0.0, 0.0, 1.0, 50.0, 0.0]), ("c", [1.0, 0.0, 0.0, 1.0, 50.0, 0.0])]),
    ]));
    // identical component twice in one glyph (fontc issue 1115)
    v.push(fixed(3, "fixed:dup-component", vec![simple("a", vec![rect(0.0, 0.0, 100.0, 100.0)]), comp("b", vec![], &[("a", IDENT), ("a", IDENT)]), comp("c", vec![rect(200.0, 0.0, 300.0, 10.0)], &[("b", sc(0.5)), ("b", sc(0.5))])]));
    // nested non-export chain with flips on both levels, used by a mixed glyph
    let mut n1 = comp("n1", vec![rect(0.0, 0.0, 30.0, 40.0)], &[("a", [-1.0, 0.0, 0.0, 1.0, 300.0, 0.0])]);
    n1.export = false;
    let mut n2 = comp("n2", vec![], &[("n1", [1.0, 0.0, 0.0, -1.0, 0.0, 700.0]), ("a", [0.5, 0.0, 0.0, 0.5, 10.0, 10.0])]);
    n2.export = false;
    v.push(fixed(4, "fixed:nonexport-flips", vec![simple("a", vec![rect(0.0, 0.0, 100.0, 200.0)]), n1, n2, comp("e", vec![rect(400.0, 0.0, 450.0, 50.0)], &[("n2", [1.0, 0.0, 0.0, 1.0, 7.0, 0.0]), ("n1", IDENT)])]));
    // magnifying ancestors over half-unit offsets: the format's own rounding grows with the scale
    v.push(fixed(5, "fixed:magnified-half-offsets", vec![
        simple("a", vec![rect(0.0, 0.0, 10.0, 10.0)]),
        comp("b", vec![], &[("a", [1.0, 0.0, 0.0, 1.0, 0.5, 0.5])]),
        comp("c", vec![], &[("b", [2.0, 0.0, 0.0, 2.0, 0.5, 0.5])]),
        comp("d", vec![], &[("c", [2.0, 0.0, 0.0, 2.0, 0.5, 0.5])]),
        comp("e", vec![], &[("d", [2.0, 0.0, 0.0, 2.0, 0.5, 0.5])]),
        comp("f", vec![], &[("e", [2.0, 0.0, 0.0, 2.0, 0.5, 0.5])]),
    ]));
    // depth-5 chain, integer data, mixed at every level
    let mut gs = vec![simple("a", vec![rect(0.0, 0.0, 64.0, 32.0)])];
    let nm = ["b", "c", "d", "e", "f"];
    for i in 0..5 {
        let prev = if i == 0 { "a" } else { nm[i - 1] };
        gs.push(comp(nm[i], vec![rect(500.0 + 10.0 * i as f64, 0.0, 520.0 + 10.0 * i as f64, 8.0)], &[(prev, [0.5, 0.0, 0.0, -1.0, 16.0 * i as f64, 100.0])]));
    }
    v.push(fixed(6, "fixed:deep-mixed", gs));
    // component whose own transform is outside [-2,2]
    v.push(fixed(7, "fixed:direct-overflow", vec![simple("a", vec![rect(0.0, 0.0, 100.0, 100.0)]), comp("b", vec![], &[("a", sc(3.0)), ("a", [1.0, 0.0, 0.0, 1.0, 400.0, 0.0])]), comp("c", vec![], &[("b", IDENT)])]));
    // outer -> mid -> leaf where only the leaf has an intermediate master, far from the straight line: every
    // way of decomposing an outer glyph while mid is still a composite (mixed + prefer-simple, 2x2 on the outer
    // reference + decompose-transformed, listed before mid + decompose-all, non-export in between)
    {
        let two = |mut g: G, dx: f64| {
            let mut m1 = g.m[0].clone();
            for c in m1.contours.iter_mut() {
                for q in c.iter_mut() {
                    if q.x > 0.0 {
                        q.x += dx;
                    }
                }
            }
            g.m.push(m1);
            g
        };
        let mut a = two(simple("a", vec![rect(0.0, 0.0, 100.0, 150.0)]), 50.0);
        a.sp = Some(GM { adv: 500.0, contours: vec![rect(0.0, 0.0, 120.0, 400.0)], xf: vec![] });
        let mut part = two(comp("_part", vec![], &[("mid", IDENT)]), 0.0);
        part.export = false;
        let glyphs = vec![
            two(comp("early", vec![], &[("mid", [1.0, 0.0, 0.0, 1.0, 0.0, 20.0])]), 0.0),
            a,
            two(comp("mid", vec![], &[("a", [1.0, 0.0, 0.0, 1.0, 65.0, 225.0])]), 0.0),
            two(comp("top", vec![], &[("mid", [1.0, 0.0, 0.0, 1.0, 10.0, 0.0])]), 0.0),
            two(comp("topflip", vec![], &[("mid", [-1.0, 0.0, 0.0, 1.0, 300.0, 0.0])]), 0.0),
            two(comp("topscale", vec![], &[("mid", [0.5, 0.0, 0.0, 0.5, 0.0, 0.0])]), 0.0),
            two(comp("mixed", vec![rect(300.0, 0.0, 350.0, 50.0)], &[("mid", IDENT)]), 10.0),
            part,
            two(comp("usepart", vec![], &[("_part", [1.0, 0.0, 0.0, 1.0, 5.0, 0.0])]), 0.0),
            two(comp("deep", vec![], &[("top", [1.0, 0.0, 0.0, 1.0, 0.0, -30.0])]), 0.0),
        ];
        let order = glyphs.iter().map(|g| g.name.clone()).collect();
        v.push(Src { id: 8, kind: "fixed:deep-intermediate-master".into(), pos: vec![0.0, 1000.0], axis_default: 0.0, sparse: Some(500.0), glyphs, order });
    }
    // An intermediate master on a COMPOSITE in the middle of a chain: mid = [a] has a brace layer at wght=500 whose
    // offset (y=600) is off the line between the masters (y=225); top = [mid].  flatten_glyph walks top's own
    // locations only, so the flattened top interpolates straight through wght=500 (known finding, own key).
    {
        let two = |mut g: G| {
            let m1 = g.m[0].clone();
            g.m.push(m1);
            g
        };
        let mut mid = two(comp("mid", vec![], &[("a", [1.0, 0.0, 0.0, 1.0, 65.0, 225.0])]));
        mid.sp = Some(GM { adv: 600.0, contours: vec![], xf: vec![[1.0, 0.0, 0.0, 1.0, 65.0, 600.0]] });
        let glyphs = vec![two(simple("a", vec![rect(0.0, 0.0, 100.0, 150.0)])), mid, two(comp("top", vec![], &[("mid", [1.0, 0.0, 0.0, 1.0, 10.0, 0.0])]))];
        let order = glyphs.iter().map(|g| g.name.clone()).collect();
        v.push(Src { id: 9, kind: COMPOSITE_BRACE.into(), pos: vec![0.0, 1000.0], axis_default: 0.0, sparse: Some(500.0), glyphs, order });
    }
    v
}

// ---------------------------------------------------------------------------------------------
// observation of a compiled font
// ---------------------------------------------------------------------------------------------
#[derive(Default)]
struct Pen {
    contours: Vec<Contour>,
    cur: Contour,
    cubic: bool,
}
impl OutlinePen for Pen {
    fn move_to(&mut self, x: f32, y: f32) {
        self.flush();
        self.cur.push(P { x: x as f64, y: y as f64, on: true });
    }
    fn line_to(&mut self, x: f32, y: f32) {
        self.cur.push(P { x: x as f64, y: y as f64, on: true });
    }
    fn quad_to(&mut self, cx: f32, cy: f32, x: f32, y: f32) {
        self.cur.push(P { x: cx as f64, y: cy as f64, on: false });
        self.cur.push(P { x: x as f64, y: y as f64, on: true });
    }
    fn curve_to(&mut self, _: f32, _: f32, _: f32, _: f32, x: f32, y: f32) {
        self.cubic = true;
        self.cur.push(P { x: x as f64, y: y as f64, on: true });
    }
    fn close(&mut self) {
        self.flush();
    }
}
impl Pen {
    fn flush(&mut self) {
        if self.cur.is_empty() {
            return;
        }
        let mut c = std::mem::take(&mut self.cur);
        if c.len() > 1 && c[0].on && c[c.len() - 1].on && c[0].x == c[c.len() - 1].x && c[0].y == c[c.len() - 1].y {
            c.pop();
        }
        self.contours.push(c);
    }
}

/// The reference contour as a pen would report it: implied on-curve points between consecutive
/// off-curve points are explicit.
fn explicit(c: &Contour) -> Contour {
    let n = c.len();
    let mut out = Vec::new();
    for i in 0..n {
        let p = &c[i];
        let q = &c[(i + 1) % n];
        out.push(p.clone());
        if !p.on && !q.on {
            out.push(P { x: (p.x + q.x) / 2.0, y: (p.y + q.y) / 2.0, on: true });
        }
    }
    out
}

fn cyc_dist(a: &Contour, b: &Contour, allow_rev: bool) -> Option<f64> {
    if a.len() != b.len() {
        return None;
    }
    let n = a.len();
    if n == 0 {
        return Some(0.0);
    }
    let mut best: Option<f64> = None;
    let mut try_seq = |bb: &Contour| {
        for s in 0..n {
            let mut d: f64 = 0.0;
            let mut ok = true;
            for i in 0..n {
                let (p, q) = (&a[i], &bb[(i + s) % n]);
                if p.on != q.on {
                    ok = false;
                    break;
                }
                d = d.max((p.x - q.x).abs()).max((p.y - q.y).abs());
            }
            if ok && best.map(|b| d < b).unwrap_or(true) {
                best = Some(d);
            }
        }
    };
    try_seq(b);
    if allow_rev {
        let mut r = b.clone();
        r.reverse();
        try_seq(&r);
    }
    best
}

/// Perfect matching between two contour lists with per-pair cost; returns the bottleneck distance of a
/// matching that minimises it (contour lists are small), or None when no perfect matching exists.
fn match_contours(refc: &[RC], got: &[Contour], strict_orientation: bool) -> Option<(f64, Vec<f64>)> {
    if refc.len() != got.len() {
        return None;
    }
    let n = refc.len();
    let cost: Vec<Vec<Option<f64>>> = refc
        .iter()
        .map(|r| {
            // What full decomposition stores: the exactly transformed points rounded once (ot_round), implied
            // points taken between the rounded off-curve points; the backend reverses every contour
            // (TrueType direction) unless KEEP_DIRECTION is set.  Comparing every build with this is comparing
            // it with the fully decomposed build of the same source.
            let rounded: Contour = r.pts.iter().map(|p| P { x: (p.x + 0.5).floor(), y: (p.y + 0.5).floor(), on: p.on }).collect();
            let mut e = explicit(&rounded);
            e.reverse();
            got.iter().map(|g| cyc_dist(&e, g, !strict_orientation || r.flipped)).collect()
        })
        .collect();
    let mut cand: Vec<f64> = cost.iter().flatten().filter_map(|x| *x).collect();
    cand.sort_by(|a, b| a.partial_cmp(b).unwrap());
    cand.dedup();
    // smallest threshold with a perfect matching (Kuhn's algorithm per threshold, binary search)
    let feasible = |th: f64| -> Option<Vec<usize>> {
        let mut m: Vec<Option<usize>> = vec![None; n]; // got j -> ref i
        fn aug(i: usize, th: f64, cost: &Vec<Vec<Option<f64>>>, seen: &mut Vec<bool>, m: &mut Vec<Option<usize>>) -> bool {
            for j in 0..m.len() {
                if cost[i][j].map(|c| c <= th).unwrap_or(false) && !seen[j] {
                    seen[j] = true;
                    if m[j].is_none() || aug(m[j].unwrap(), th, cost, seen, m) {
                        m[j] = Some(i);
                        return true;
                    }
                }
            }
            false
        }
        for i in 0..n {
            let mut seen = vec![false; n];
            if !aug(i, th, &cost, &mut seen, &mut m) {
                return None;
            }
        }
        let mut by_ref = vec![0usize; n];
        for (j, i) in m.iter().enumerate() {
            by_ref[i.unwrap()] = j;
        }
        Some(by_ref)
    };
    if n == 0 {
        return Some((0.0, vec![]));
    }
    let (mut lo, mut hi) = (0usize, cand.len());
    if cand.is_empty() || feasible(cand[cand.len() - 1]).is_none() {
        return None;
    }
    hi -= 1;
    while lo < hi {
        let mid = (lo + hi) / 2;
        if feasible(cand[mid]).is_some() {
            hi = mid;
        } else {
            lo = mid + 1;
        }
    }
    let by_ref = feasible(cand[lo]).unwrap();
    let per: Vec<f64> = (0..n).map(|i| cost[i][by_ref[i]].unwrap()).collect();
    Some((cand[lo], per))
}

struct Drawn {
    contours: Vec<Contour>,
    advance: f32,
}
struct FontObs {
    /// glyph name -> per master
    glyphs: HashMap<String, Vec<Drawn>>,
    names: Vec<String>,
}

fn observe(bytes: &[u8], src: &Src) -> Result<FontObs, String> {
    let font = FontRef::new(bytes).map_err(|e| format!("unreadable font: {e}"))?;
    let names = skrifa::GlyphNames::new(&font);
    let outlines = font.outline_glyphs();
    let num = font.maxp().map_err(|e| e.to_string())?.num_glyphs() as u32;
    let mut obs = FontObs { glyphs: HashMap::new(), names: Vec::new() };
    for gid in 0..num {
        let gid = GlyphId::new(gid);
        let name = names.get(gid).map(|n| n.to_string()).unwrap_or_default();
        obs.names.push(name.clone());
        let mut per = Vec::new();
        for p in &src.locs() {
            let loc = if src.pos.len() > 1 { font.axes().location([("wght", *p as f32)]) } else { Default::default() };
            let mut pen = Pen::default();
            if let Some(g) = outlines.get(gid) {
                g.draw(DrawSettings::unhinted(Size::unscaled(), &loc), &mut pen).map_err(|e| format!("draw {name}: {e}"))?;
            }
            pen.flush();
            if pen.cubic {
                return Err(format!("cubic segment in glyf outline of {name}"));
            }
            let adv = font.glyph_metrics(Size::unscaled(), &loc).advance_width(gid).unwrap_or(f32::NAN);
            per.push(Drawn { contours: pen.contours, advance: adv });
        }
        obs.glyphs.insert(name, per);
    }
    Ok(obs)
}

// ---------------------------------------------------------------------------------------------
// the IR the compiler leaves behind, and Gallina terms for the model
// ---------------------------------------------------------------------------------------------
const FUEL: usize = 1500;

fn norm_loc(src: &Src, k: usize) -> NormalizedLocation {
    if src.pos.len() == 1 {
        return NormalizedLocation::new();
    }
    let (p, d) = (src.pos[k], src.axis_default);
    let v = if p == d { 0.0 } else if p > d { (p - d) / (1000.0 - d) } else { -(d - p) / d };
    NormalizedLocation::for_pos(&[("wght", v)])
}

/// closed subpaths of an IR path as cyclic point lists (the closing point is not repeated)
fn ir_points(path: &kurbo::BezPath, out: &mut Vec<Vec<(f64, f64)>>) {
    let mut cur: Vec<(f64, f64)> = Vec::new();
    let flush = |cur: &mut Vec<(f64, f64)>, out: &mut Vec<Vec<(f64, f64)>>| {
        if cur.is_empty() {
            return;
        }
        if cur.len() > 1 && cur[0] == cur[cur.len() - 1] {
            cur.pop();
        }
        out.push(std::mem::take(cur));
    };
    for el in path.elements() {
        match el {
            kurbo::PathEl::MoveTo(p) => {
                flush(&mut cur, out);
                cur.push((p.x, p.y));
            }
            kurbo::PathEl::LineTo(p) => cur.push((p.x, p.y)),
            kurbo::PathEl::QuadTo(c, p) => {
                cur.push((c.x, c.y));
                cur.push((p.x, p.y));
            }
            kurbo::PathEl::CurveTo(a, b, p) => {
                cur.push((a.x, a.y));
                cur.push((b.x, b.y));
                cur.push((p.x, p.y));
            }
            kurbo::PathEl::ClosePath => flush(&mut cur, out),
        }
    }
    flush(&mut cur, out);
}

struct IrGlyph {
    name: String,
    contours: Vec<Vec<(f64, f64)>>,
    comps: Vec<(String, [f64; 6])>,
    adv: f64,
}

/// for every glyph of the final glyph order that has no components: the locations (normalised, in quarters)
/// at which the IR glyph has a source
fn read_ir_locs(ir_dir: &std::path::Path) -> Result<Vec<(String, Vec<i64>)>, String> {
    let f = FePaths::target_file(ir_dir, &FeWorkId::GlyphOrder);
    let order: fontir::ir::GlyphOrder = serde_yaml::from_reader(std::fs::File::open(&f).map_err(|e| format!("{f:?}: {e}"))?).map_err(|e| format!("{f:?}: {e}"))?;
    let mut out = Vec::new();
    for name in order.names() {
        if name.as_str() == ".notdef" {
            continue;
        }
        let f = FePaths::target_file(ir_dir, &FeWorkId::Glyph(name.clone()));
        let g: fontir::ir::Glyph = serde_yaml::from_reader(std::fs::File::open(&f).map_err(|e| format!("{f:?}: {e}"))?).map_err(|e| format!("{f:?}: {e}"))?;
        if g.sources().values().any(|i| !i.components.is_empty()) {
            continue;
        }
        let mut locs: Vec<i64> = g.sources().keys().map(|l| l.iter().next().map(|(_, c)| (c.to_f64() * 4.0).round() as i64).unwrap_or(0)).collect();
        locs.sort();
        out.push((name.to_string(), locs));
    }
    Ok(out)
}
/// normalised position (in quarters) of location index li
fn quarter(src: &Src, li: usize) -> i64 {
    if src.pos.len() == 1 {
        return 0;
    }
    let (p, d) = (src.locs()[li], src.axis_default);
    let v = if p == d { 0.0 } else if p > d { (p - d) / (1000.0 - d) } else { -(d - p) / d };
    (v * 4.0).round() as i64
}
fn coq_lfont(src: &Src) -> String {
    let nl = src.locs().len();
    let gl: Vec<String> = src
        .glyphs
        .iter()
        .enumerate()
        .map(|(i, g)| {
            let locs: Vec<String> = (0..nl).filter(|li| *li < src.pos.len() || g.sp.is_some()).map(|li| coq_z(quarter(src, li))).collect();
            format!("((Src {}), mkL [{}] {})", i, locs.join("; "), coq_list(&g.bases, |b| coq_name(src, b)))
        })
        .collect();
    format!("(lfont_of [{}])", gl.join("; "))
}

fn read_ir(ir_dir: &std::path::Path, src: &Src, k: usize) -> Result<Vec<IrGlyph>, String> {
    let f = FePaths::target_file(ir_dir, &FeWorkId::GlyphOrder);
    let order: fontir::ir::GlyphOrder = serde_yaml::from_reader(std::fs::File::open(&f).map_err(|e| format!("{f:?}: {e}"))?).map_err(|e| format!("{f:?}: {e}"))?;
    let loc = norm_loc(src, k);
    let mut out = Vec::new();
    for name in order.names() {
        if name.as_str() == ".notdef" {
            continue;
        }
        let f = FePaths::target_file(ir_dir, &FeWorkId::Glyph(name.clone()));
        let g: fontir::ir::Glyph = serde_yaml::from_reader(std::fs::File::open(&f).map_err(|e| format!("{f:?}: {e}"))?).map_err(|e| format!("{f:?}: {e}"))?;
        let Some(inst) = g.sources().get(&loc) else {
            return Err(format!("IR glyph {name} has no instance at {loc:?} (has {:?})", g.sources().keys().collect::<Vec<_>>()));
        };
        let mut contours = Vec::new();
        for c in &inst.contours {
            ir_points(c, &mut contours);
        }
        out.push(IrGlyph {
            name: name.to_string(),
            contours,
            comps: inst.components.iter().map(|c| (c.base.to_string(), c.transform.as_coeffs())).collect(),
            adv: inst.width,
        });
    }
    Ok(out)
}

fn coq_qr(x: f64) -> String {
    let (n, d) = f64_to_ratio(x);
    if n < 0 { format!("(qr ({}) {})", n, d) } else { format!("(qr {} {})", n, d) }
}
fn coq_name(src: &Src, n: &str) -> String {
    if let Some(i) = src.glyphs.iter().position(|g| g.name == n) {
        return format!("(Src {})", i);
    }
    if let Some((b, k)) = n.rsplit_once('.') {
        if let (Some(i), Ok(k)) = (src.glyphs.iter().position(|g| g.name == b), k.parse::<usize>()) {
            return format!("(Der {} {})", i, k);
        }
    }
    // a name the model cannot produce
    "(Der 999999 0)".to_string()
}
/// numbers over one common power-of-two denominator: (denominator, numerators)
fn common_den(vals: &[f64]) -> Option<(u128, Vec<i128>)> {
    let r: Vec<(i128, u128)> = vals.iter().map(|v| f64_to_ratio(*v)).collect();
    let d = r.iter().map(|x| x.1).max().unwrap_or(1);
    let mut out = Vec::new();
    for (n, dn) in r {
        let k = d / dn; // both are powers of two
        out.push(n.checked_mul(k as i128)?);
    }
    Some((d, out))
}
fn coq_zi(n: i128) -> String {
    if n < 0 { format!("({})", n) } else { n.to_string() }
}
fn coq_pts(c: &[(f64, f64)]) -> String {
    let flat: Vec<f64> = c.iter().flat_map(|p| [p.0, p.1]).collect();
    match common_den(&flat) {
        Some((d, ns)) => format!("(pts {} [{}]%Z)", d, ns.iter().map(|n| n.to_string()).collect::<Vec<_>>().join(";")),
        None => coq_list(c, |p| format!("({}, {})", coq_qr(p.0), coq_qr(p.1))),
    }
}
/// IR contour as one hexadecimal number (see FV.C12.Model.ptsP); falls back to exact fractions
fn coq_pts_packed(c: &[(f64, f64)]) -> String {
    let mut digits: Vec<String> = Vec::new();
    for v in c.iter().flat_map(|p| [p.0, p.1]) {
        let r = (v * 16777216.0).round();
        if !(r.abs() < 1.0e14) {
            return coq_pts(c);
        }
        digits.push(format!("{:012x}", (r as i64 + (1i64 << 47)) as u64));
    }
    digits.reverse();
    format!("(ptsP {} 0x{})", c.len(), digits.concat())
}
fn coq_aff(t: &[f64; 6], vary: bool) -> String {
    match common_den(t) {
        Some((d, ns)) => format!("(A6 {} {} {} {} {} {} {} {})", d, coq_zi(ns[0]), coq_zi(ns[1]), coq_zi(ns[2]), coq_zi(ns[3]), coq_zi(ns[4]), coq_zi(ns[5]), coq_bool(vary)),
        None => format!("(mkAff {} {} {} {} {} {} {})", coq_qr(t[0]), coq_qr(t[1]), coq_qr(t[2]), coq_qr(t[3]), coq_qr(t[4]), coq_qr(t[5]), coq_bool(vary)),
    }
}
/// does the 2x2 of component j of glyph g differ between masters?
fn varies(g: &G, j: usize) -> bool {
    g.m.iter().any(|m| m.xf[j][..4] != g.m[0].xf[j][..4])
}
fn coq_font(src: &Src, k: usize, all_export: bool) -> String {
    let gl: Vec<String> = src
        .glyphs
        .iter()
        .enumerate()
        .map(|(i, g)| {
            let m = &g.m[k];
            let cs = coq_list(&m.contours, |c| coq_pts(&explicit(c).iter().map(|p| (p.x, p.y)).collect::<Vec<_>>()));
            let comps: Vec<String> = g.bases.iter().enumerate().map(|(j, b)| format!("({}, {})", coq_name(src, b), coq_aff(&m.xf[j], varies(g, j)))).collect();
            format!("((Src {}), G {} [{}] {} {})", i, cs, comps.join("; "), coq_q(m.adv), coq_bool(g.export || all_export))
        })
        .collect();
    format!("(font_of [{}])", gl.join("; "))
}
fn coq_ir(src: &Src, ir: &[IrGlyph]) -> (String, String) {
    let order = coq_list(ir, |g| coq_name(src, &g.name));
    // all points when the whole outcome is small, fingerprints of the contour lists otherwise
    let coords: usize = ir.iter().map(|g| g.contours.iter().map(|c| 2 * c.len()).sum::<usize>()).sum();
    let full = coords <= 240;
    let gl = coq_list(ir, |g| {
        // in the IR a transform carries no "varies" mark; after processing no varying component is left
        let comps: Vec<String> = g.comps.iter().map(|(b, t)| format!("({}, {})", coq_name(src, b), coq_aff(t, false))).collect();
        if full {
            format!("(IRfull {} {} [{}] {})", coq_name(src, &g.name), coq_list(&g.contours, |c| coq_pts_packed(c)), comps.join("; "), coq_q(g.adv))
        } else {
            let lens: Vec<String> = g.contours.iter().map(|c| c.len().to_string()).collect();
            let (mut sx, mut sy, mut ar) = (0.0f64, 0.0f64, 0.0f64);
            for c in &g.contours {
                let n = c.len();
                for i in 0..n {
                    let (p, q) = (c[i], c[(i + 1) % n]);
                    sx += p.0;
                    sy += p.1;
                    ar += p.0 * q.1 - q.0 * p.1;
                }
            }
            format!("(IRfp {} [{}]%nat {} {} {} [{}] {})", coq_name(src, &g.name), lens.join(";"), coq_qr(sx), coq_qr(sy), coq_qr(ar), comps.join("; "), coq_q(g.adv))
        }
    });
    (order, gl)
}
fn tree_size(src: &Src, n: &str, fuel: usize) -> usize {
    if fuel == 0 {
        return 1;
    }
    match src.g(n) {
        None => 1,
        Some(g) => 1 + g.bases.iter().map(|b| tree_size(src, b, fuel - 1)).sum::<usize>(),
    }
}

// ---------------------------------------------------------------------------------------------
// one source: all variants
// ---------------------------------------------------------------------------------------------
const OPTS: [(Flags, &str); 4] = [
    (Flags::FLATTEN_COMPONENTS, "flatten"),
    (Flags::DECOMPOSE_COMPONENTS, "decompose"),
    (Flags::DECOMPOSE_TRANSFORMED_COMPONENTS, "decompose-transformed"),
    (Flags::PREFER_SIMPLE_GLYPHS, "prefer-simple"),
];
fn flags_of(mask: usize) -> Flags {
    let mut f = Flags::default();
    f.remove(Flags::PREFER_SIMPLE_GLYPHS);
    for (i, (fl, _)) in OPTS.iter().enumerate() {
        if mask >> i & 1 == 1 {
            f.insert(*fl);
        }
    }
    f
}
fn mask_name(mask: usize) -> String {
    let v: Vec<&str> = OPTS.iter().enumerate().filter(|(i, _)| mask >> i & 1 == 1).map(|(_, o)| o.1).collect();
    if v.is_empty() { "none".into() } else { v.join("+") }
}

/// max over component chains of the largest |2x2 entry| of the composed transform, where every single
/// transform on the chain is within [-2,2]; used to recognise the flatten overflow class
fn composed_overflow(src: &Src, name: &str, k: usize, acc: &[f64; 6], depth: usize, fuel: usize) -> bool {
    if fuel == 0 {
        return false;
    }
    let Some(g) = src.g(name) else { return false };
    for (b, x) in g.bases.iter().zip(src.inst(g, k).xf.iter()) {
        let t = mul(acc, x);
        let leafward = src.g(b).map(|c| !c.bases.is_empty()).unwrap_or(false);
        if depth >= 1 && t[..4].iter().any(|v| !(-2.0..=2.0).contains(v)) {
            return true;
        }
        if leafward && composed_overflow(src, b, k, &t, depth + 1, fuel - 1) {
            return true;
        }
        let _ = leafward;
    }
    false
}

fn run_source(src: &Src, with_model: bool) -> Vec<Value> {
    let mut out: Vec<Value> = Vec::new();
    let viol = |out: &mut Vec<Value>, key: &str, desc: String, extra: Value| {
        let mut v = json!({"type":"violation","key":key,"desc":desc,"found_input":true, "source_id": src.id, "source": src.to_json()});
        if let Value::Object(m) = extra {
            for (k, x) in m {
                v[k] = x;
            }
        }
        out.push(v);
    };
    let has_nonexport = src.glyphs.iter().any(|g| !g.export);
    let dir = scratch_dir("c12");
    let nm = src.pos.len();
    // outlines are compared at every location at which any glyph of the font has a source
    let locs = src.locs();
    let nl = locs.len();
    let exported: Vec<&G> = src.glyphs.iter().filter(|g| g.export).collect();
    // reference resolution per exported glyph and location
    let mut refs: HashMap<(String, usize), Vec<RC>> = HashMap::new();
    for g in &exported {
        for k in 0..nl {
            let mut v = Vec::new();
            resolve_ref(src, &g.name, k, &IDENT, false, &mut v, 12);
            refs.insert((g.name.clone(), k), v);
        }
    }
    let mut stats: BTreeMap<String, f64> = BTreeMap::new();
    let mut builds = 0usize;
    let mut comparisons = 0usize;
    let mut seen_keys: std::collections::HashSet<String> = Default::default();
    // per master: (mask, IR glyph order, IR glyphs, some glyph lost contours)
    let mut model_runs: Vec<Vec<(usize, String, String, bool)>> = vec![Vec::new(); 2 * nm];
    // per export mode: (option subset, source locations of the IR glyphs that have no components)
    let mut loc_runs: Vec<Vec<(usize, String)>> = vec![Vec::new(); 2];
    let mut f1_seen: std::collections::HashSet<(String, String)> = Default::default();
    // advance of the first build (no option set) per (all exported, glyph, location)
    let mut first_adv: HashMap<(bool, String, usize), f64> = HashMap::new();
    // drawn contour counts per (all exported, option subset, glyph, master)
    let mut drawn_counts: HashMap<(bool, usize, String, usize), usize> = HashMap::new();
    for all_export in [false, true] {
        if all_export && !has_nonexport {
            continue;
        }
        let sub = dir.path().join(if all_export { "x" } else { "s" });
        let path = src.design(all_export).write(&sub);
        for mask in 0..16usize {
            let flags = flags_of(mask);
            let ir_dir = if with_model { Some(sub.join(format!("ir{mask}"))) } else { None };
            if let Some(d) = &ir_dir {
                let _ = std::fs::create_dir_all(d);
            }
            let variant = format!("{}{}", mask_name(mask), if all_export { "+all-exported" } else { "" });
            builds += 1;
            let bytes = match compile_path(&path, Some(flags), ir_dir.clone()) {
                Outcome::Font(b) => b,
                Outcome::Error(e) => {
                    let key = "build-fails-under-component-options";
                    if seen_keys.insert(format!("{key}:{}", e.chars().take(40).collect::<String>())) {
                        viol(&mut out, key, format!("source {} ({}) does not build with options [{variant}]: {e}", src.id, src.kind), json!({"variant": variant}));
                    }
                    continue;
                }
                Outcome::Panic(e) => {
                    let key = "build-panics-under-component-options";
                    if seen_keys.insert(format!("{key}:{}", e.chars().take(40).collect::<String>())) {
                        viol(&mut out, key, format!("source {} ({}) panics with options [{variant}]: {e}", src.id, src.kind), json!({"variant": variant}));
                    }
                    continue;
                }
            };
            let obs = match observe(&bytes, src) {
                Ok(o) => o,
                Err(e) => {
                    viol(&mut out, "font-unreadable", format!("source {} options [{variant}]: {e}", src.id), json!({"variant": variant}));
                    continue;
                }
            };
            let mut lost = vec![false; nl];
            for g in &exported {
                let Some(drawn) = obs.glyphs.get(&g.name) else {
                    if seen_keys.insert(format!("missing:{}", g.name)) {
                        viol(&mut out, "glyph-missing-under-component-options", format!("source {} options [{variant}]: exported glyph '{}' is not in the font (glyphs: {:?})", src.id, g.name, obs.names), json!({"variant": variant, "glyph": g.name}));
                    }
                    continue;
                };
                let depth = src.depth(&g.name).max(1);
                for k in 0..nl {
                    comparisons += 1;
                    let r = &refs[&(g.name.clone(), k)];
                    let d = &drawn[k];
                    drawn_counts.insert((all_export, mask, g.name.clone(), k), d.contours.len());
                    let own_source = k < nm || g.sp.is_some();
                    let k_name = if k < nm { format!("master {k} (wght={})", locs[k]) } else { format!("intermediate location wght={} ({})", locs[k], if own_source { "own source" } else { "no own source: interpolated" }) };
                    // Advance against the source.  At the default location hmtx holds ot_round(advance) exactly.
                    // Elsewhere the font gives default + sum of scalar_i * round(delta_i): on one axis at most two
                    // regions are active, each rounded delta is off by at most 1/2 and the rasteriser rounds (1/2),
                    // so an own (integer) source advance is met within 1 unit (observed: masters 0/500/1000 plus an
                    // intermediate source at 750, delta of the 750 region = x.5, drawn 751.5 -> 752 for 751, under
                    // every option subset alike); where the glyph has no own source the reference is itself an
                    // interpolated value rounded (another 1/2): within 2 units.
                    let src_adv = src.inst(g, k).adv;
                    let want = (src_adv + 0.5).floor();
                    let adv_tol = if k == 0 { 1e-3 } else if own_source { 1.0 + 1e-3 } else { 2.0 + 1e-3 };
                    // ... and against the first build of the same source (the property proper): the same at the
                    // default location, within one unit elsewhere (a decomposed glyph may carry an extra
                    // interpolated source whose advance delta is rounded)
                    match first_adv.get(&(all_export, g.name.clone(), k)) {
                        None => {
                            first_adv.insert((all_export, g.name.clone(), k), d.advance as f64);
                        }
                        Some(a0) => {
                            if (d.advance as f64 - a0).abs() > if k == 0 { 1e-3 } else { 1.0 + 1e-3 } {
                                let key = "advance-differs-between-option-subsets";
                                if seen_keys.insert(format!("{key}:{}", g.name)) {
                                    viol(&mut out, key, format!("source {} ({}) glyph '{}' {k_name}: advance {} with options [{variant}] but {} with no option set", src.id, src.kind, g.name, d.advance, a0), json!({"variant": variant, "options": variant, "glyph": g.name, "master": k, "location": k_name}));
                                }
                            }
                        }
                    }
                    if (d.advance as f64 - want).abs() > adv_tol {
                        let key = "advance-differs-under-component-options";
                        if seen_keys.insert(format!("{key}:{}", g.name)) {
                            viol(&mut out, key, format!("source {} options [{variant}] glyph '{}' {k_name}: advance {} but the source says {}", src.id, g.name, d.advance, src_adv), json!({"variant": variant, "glyph": g.name, "master": k}));
                        }
                    }
                    let tol = depth as f64 + 1e-3;
                    match match_contours(r, &d.contours, true) {
                        None => {
                            // structure differs: count, point count, on/off pattern or orientation
                            if d.contours.len() < r.len() {
                                lost[k] = true;
                            }
                            let loose = match_contours(r, &d.contours, false);
                            let (key, what) = if r.len() != d.contours.len() {
                                // fewer contours, every one of them a contour of the source and every source
                                // contour present at least once: identical instances were merged
                                let tolx = depth as f64 + 1e-3;
                                let near = |a: &Contour, b: &Contour| cyc_dist(a, b, true).map(|x| x <= tolx).unwrap_or(false);
                                let exp: Vec<Contour> = r.iter().map(|c| { let rounded: Contour = c.pts.iter().map(|p| P { x: (p.x + 0.5).floor(), y: (p.y + 0.5).floor(), on: p.on }).collect(); let mut e = explicit(&rounded); e.reverse(); e }).collect();
                                let merged = d.contours.len() < r.len()
                                    && d.contours.iter().all(|c| exp.iter().any(|e| near(e, c)))
                                    && exp.iter().all(|e| d.contours.iter().any(|c| near(e, c)));
                                // flattening never changes the number of contours: when the build without the flatten
                                // option has the same (already reported) count and this glyph's flattened 2x2 leaves
                                // the F2Dot14 range, the shapes cannot be told apart from the overflow class
                                let same_as_unflattened = mask & 1 == 1 && drawn_counts.get(&(all_export, mask ^ 1, g.name.clone(), k)) == Some(&d.contours.len());
                                let flat_only = flags.contains(Flags::FLATTEN_COMPONENTS) && !flags.contains(Flags::DECOMPOSE_COMPONENTS);
                                if merged {
                                    ("decompose-merges-identical-component-instances", format!("{} contours, the source resolves to {} (the missing ones coincide with contours that are present)", d.contours.len(), r.len()))
                                } else if same_as_unflattened && flat_only && composed_overflow(src, &g.name, k, &IDENT, 0, 12) {
                                    ("flatten-composed-transform-exceeds-f2dot14", format!("{} contours as without flattening (the source resolves to {}), and the flattened glyph has a component whose composed 2x2 leaves [-2,2]", d.contours.len(), r.len()))
                                } else {
                                    ("contour-count-differs-under-component-options", format!("{} contours, the source resolves to {}", d.contours.len(), r.len()))
                                }
                            } else if loose.is_some() {
                                ("contour-orientation-differs-without-flip", "a contour is reversed although no negative determinant is involved".to_string())
                            } else {
                                ("contour-structure-differs-under-component-options", "contours cannot be matched up to start point (point counts or on/off pattern differ)".to_string())
                            };
                            if seen_keys.insert(format!("{key}:{}", g.name)) {
                                viol(&mut out, key, format!("source {} ({}) options [{variant}] glyph '{}' {k_name}: {what}", src.id, src.kind, g.name),
                                     json!({"variant": variant, "glyph": g.name, "master": k, "drawn": d.contours.iter().map(|c| c.iter().map(|p| json!([p.x, p.y, p.on])).collect::<Vec<_>>()).collect::<Vec<_>>()}));
                            }
                        }
                        Some((dist, _)) => {
                            let e = stats.entry(format!("max_dist_depth{}", depth.min(5))).or_insert(0.0);
                            *e = e.max(dist);
                            let loose_ok = dist > tol && match_contours(r, &d.contours, false).map(|x| x.0 <= tol).unwrap_or(false);
                            if loose_ok {
                                let key = "contour-orientation-differs-without-flip";
                                if seen_keys.insert(format!("{key}:{}", g.name)) {
                                    viol(&mut out, key, format!("source {} ({}) options [{variant}] glyph '{}' {k_name}: a contour is reversed although no negative determinant is involved", src.id, src.kind, g.name),
                                         json!({"variant": variant, "glyph": g.name, "master": k}));
                                }
                            } else if dist > tol {
                                let (fb, _) = format_bound(src, &g.name, k, 12);
                                let ovf = composed_overflow(src, &g.name, k, &IDENT, 0, 12);
                                let flat_only = flags.contains(Flags::FLATTEN_COMPONENTS) && !flags.contains(Flags::DECOMPOSE_COMPONENTS);
                                // a saturated 2x2 shows at every location: away from the full masters the overflow
                                // class is only assumed when the same glyph already failed that way at a full master
                                let f1 = ovf && flat_only && (k < nm || f1_seen.contains(&(variant.clone(), g.name.clone())));
                                if f1 {
                                    f1_seen.insert((variant.clone(), g.name.clone()));
                                }
                                // the one listed case of a flattened glyph missing a nested composite's intermediate master
                                let listed_brace = src.kind == COMPOSITE_BRACE && g.name == "top" && flat_only && k >= nm && !own_source;
                                let key = if listed_brace {
                                    "flatten-drops-intermediate-master-of-nested-composite"
                                } else if f1 {
                                    "flatten-composed-transform-exceeds-f2dot14"
                                } else if dist <= fb + 1.0 + 1e-3 {
                                    // fb bounds |stored composite - exact|; the reference is the exact point rounded (1/2) and the
                                    // rasteriser hands out rounded points (1/2)
                                    "rounding-exceeds-one-unit-per-level-within-format-bound"
                                } else {
                                    "outline-differs-under-component-options"
                                };
                                if seen_keys.insert(format!("{key}:{}", g.name)) {
                                    viol(&mut out, key, format!("source {} ({}) options [{variant}] glyph '{}' (nesting depth {depth}) {k_name}: drawn outline is {dist:.4} units away from the resolved source outline (allowed {depth}; format bound {:.3})", src.id, src.kind, g.name, fb + 1.0),
                                         json!({"variant": variant, "options": variant, "glyph": g.name, "master": k, "location": k_name, "location_wght": locs[k], "distance": dist, "depth": depth,
                                                "drawn": d.contours.iter().map(|c| c.iter().map(|p| json!([p.x, p.y, p.on])).collect::<Vec<_>>()).collect::<Vec<_>>()}));
                                }
                            }
                        }
                    }
                }
            }
            if let Some(d) = &ir_dir {
                if nl > nm {
                    match read_ir_locs(d) {
                        Ok(v) => loc_runs[all_export as usize].push((mask, coq_list(&v, |(n, l)| format!("({}, [{}])", coq_name(src, n), l.iter().map(|x| coq_z(*x)).collect::<Vec<_>>().join("; "))))),
                        Err(e) => {
                            if seen_keys.insert("ir".into()) {
                                viol(&mut out, "ir-unreadable", format!("source {} options [{variant}]: {e}", src.id), json!({"variant": variant}));
                            }
                        }
                    }
                }
                for k in 0..nm {
                    match read_ir(d, src, k) {
                        Ok(ir) => {
                            let (o, g) = coq_ir(src, &ir);
                            model_runs[k + if all_export { nm } else { 0 }].push((mask, o, g, lost[k]));
                        }
                        Err(e) => {
                            if seen_keys.insert("ir".into()) {
                                viol(&mut out, "ir-unreadable", format!("source {} options [{variant}]: {e}", src.id), json!({"variant": variant}));
                            }
                        }
                    }
                }
            }
        }
    }
    // location cases: every glyph left without components has a source wherever the walk over the source's
    // component graph (FV.C12.Locs) says a transitively referenced glyph has one
    for (ae, runs) in loc_runs.iter().enumerate() {
        if runs.is_empty() {
            continue;
        }
        let mut groups: Vec<(Vec<usize>, &String)> = Vec::new();
        for (mask, l) in runs {
            match groups.iter_mut().find(|x| x.1 == l) {
                Some(x) => x.0.push(*mask),
                None => groups.push((vec![*mask], l)),
            }
        }
        let checks: Vec<String> = groups.iter().map(|(_, l)| format!("locs_cover_all 200 F {}", l)).collect();
        let coq = format!("let F := {} in ({})", coq_lfont(src), checks.join(") && ("));
        out.push(json!({"type":"case","kind":format!("{}:locations", src.kind),"coq":coq,"nontrivial": true,
                        "sig": format!("s{}loc{}", src.id, if ae == 1 { "x" } else { "" }), "source_id": src.id, "all_exported": ae == 1,
                        "option_subsets": runs.len(), "distinct_ir_outcomes": groups.len()}));
    }
    // model cases: one per master location, all option subsets that built
    for kk in 0..2 * nm {
        if model_runs[kk].is_empty() {
            continue;
        }
        let (k, all_export) = (kk % nm, kk >= nm);
        let all = coq_list(&src.glyphs, |g| coq_name(src, &g.name));
        let ord = coq_list(&src.order, |n| coq_name(src, n));
        let fl = |mask: usize| format!("(mkFlags {} {} {} {})", coq_bool(mask & 1 != 0), coq_bool(mask & 2 != 0), coq_bool(mask & 4 != 0), coq_bool(mask & 8 != 0));
        // option subsets that left the same IR share one expected value
        let mut groups: Vec<(Vec<usize>, &String, &String, bool)> = Vec::new();
        for (mask, o, g, lost) in &model_runs[kk] {
            match groups.iter_mut().find(|x| x.1 == o && x.2 == g && x.3 == *lost) {
                Some(x) => x.0.push(*mask),
                None => groups.push((vec![*mask], o, g, *lost)),
            }
        }
        let checks: Vec<String> = groups
            .iter()
            .map(|(masks, o, g, lost)| format!("check_runs {FUEL} [{}] F all ord {} {} {}", masks.iter().map(|m| fl(*m)).collect::<Vec<_>>().join("; "), o, g, coq_bool(*lost)))
            .collect();
        let coq = format!("let F := {} in let all := {} in let ord := {} in ({})", coq_font(src, k, all_export), all, ord, checks.join(") && ("));
        let show = format!("let F := {} in let all := {} in let ord := {} in map (fun fl => show_run {FUEL} fl F all ord) [{}]", coq_font(src, k, all_export), all, ord,
                           model_runs[kk].iter().map(|r| fl(r.0)).collect::<Vec<_>>().join("; "));
        let lossy = format!("let F := {} in let all := {} in let ord := {} in existsb (fun fl => lossy_run {FUEL} fl F all ord) [{}]", coq_font(src, k, all_export), all, ord,
                            (0..16).map(fl).collect::<Vec<_>>().join("; "));
        let maxdepth = src.glyphs.iter().map(|g| src.depth(&g.name)).max().unwrap_or(0);
        out.push(json!({"type":"case","kind":src.kind,"coq":coq,"show":show,"lossy_term":lossy,"nontrivial": maxdepth >= 1,
                        "sig": format!("s{}m{}{}", src.id, k, if all_export { "x" } else { "" }), "all_exported": all_export, "source_id": src.id, "master": k, "option_subsets": model_runs[kk].len(),
                        "impl_lost_contours": model_runs[kk].iter().any(|r| r.3), "max_depth": maxdepth, "distinct_ir_outcomes": groups.len()}));
    }
    out.push(json!({"type":"srcstat","builds":builds,"comparisons":comparisons,"stats":stats}));
    out
}


/// Two parents reach the same base under the same accumulated transform; with more than one master the
/// `index` part of the visited key follows the iteration order of each glyph's own source map, so whether
/// the two instances collide can differ from run to run.  Builds the same source repeatedly.
fn hash_order_probe() -> Vec<Value> {
    let mut out = Vec::new();
    let two = |g: &G| {
        let mut g = g.clone();
        let mut m1 = g.m[0].clone();
        for c in m1.contours.iter_mut() {
            for p in c.iter_mut() {
                p.x += 10.0;
            }
        }
        g.m.push(m1.clone());
        g.m.push(m1);
        g
    };
    let base = fixed_sources().into_iter().find(|s| s.kind == "fixed:same-key-twice").unwrap();
    let src = Src { id: 100000, kind: "probe:same-key-twice-2m".into(), pos: vec![0.0, 500.0, 1000.0], axis_default: 0.0, sparse: None, glyphs: base.glyphs.iter().map(two).collect(), order: base.order.clone() };
    let dir = scratch_dir("c12p");
    let path = src.design(false).write(dir.path());
    let mut f = Flags::default();
    f.insert(Flags::DECOMPOSE_COMPONENTS);
    let mut counts: BTreeMap<Vec<usize>, usize> = BTreeMap::new();
    let runs = 8;
    for _ in 0..runs {
        if let Outcome::Font(b) = compile_path(&path, Some(f), None) {
            if let Ok(obs) = observe(&b, &src) {
                if let Some(d) = obs.glyphs.get("d") {
                    *counts.entry(d.iter().map(|x| x.contours.len()).collect()).or_default() += 1;
                }
            }
        }
    }
    if counts.len() > 1 {
        out.push(json!({"type":"violation","key":"decompose-result-depends-on-hash-order","found_input":true,
            "desc": format!("the same three-master source (d = b + c, b = a, c = a, same transforms) built {runs} times with decompose-components gives glyph 'd' with per-master contour counts {counts:?}"),
            "source": src.to_json(), "contour_counts": format!("{counts:?}")}));
    }
    out.push(json!({"type":"srcstat","builds":runs,"comparisons":0,"stats":{}}));
    out
}

fn main() {
    let args: Vec<String> = std::env::args().collect();
    let args = &args[1..];
    let seed = arg_val(args, "--seed", 1);
    let n = arg_val(args, "--n", 40) as usize;
    let threads = arg_val(args, "--threads", 16) as usize;
    let with_model = arg_val(args, "--model", 1) == 1;
    quiet_panics();
    // one rayon worker per compile: the harness itself runs the compiles in parallel
    if std::env::var_os("RAYON_NUM_THREADS").is_none() {
        unsafe { std::env::set_var("RAYON_NUM_THREADS", "1") };
    }
    let mut rng = Rng::new(seed);
    let mut srcs = fixed_sources();
    let k = srcs.len();
    for i in k..n.max(k) {
        // keep the unfolded component tree small enough for the model's fuel
        loop {
            let s = gen_src(&mut rng, i);
            if s.glyphs.iter().map(|g| tree_size(&s, &g.name, 12)).max().unwrap_or(0) <= 250 {
                srcs.push(s);
                break;
            }
        }
    }
    let n = srcs.len();
    let chunks: Vec<Vec<&Src>> = (0..threads).map(|t| srcs.iter().skip(t).step_by(threads).collect()).collect();
    let mut slots: Vec<Option<Vec<Value>>> = (0..n).map(|_| None).collect();
    let outs: Vec<Vec<(usize, Vec<Value>)>> = std::thread::scope(|s| {
        let hs: Vec<_> = chunks.iter().map(|ch| s.spawn(move || ch.iter().map(|c| (c.id, run_source(c, with_model))).collect::<Vec<_>>())).collect();
        hs.into_iter().map(|h| h.join().expect("worker")).collect()
    });
    for o in outs {
        for (i, v) in o {
            slots[i] = Some(v);
        }
    }
    for l in hash_order_probe() {
        if l["type"] != "srcstat" {
            emit(l);
        }
    }
    let mut dist: BTreeMap<String, usize> = BTreeMap::new();
    let mut maxd: BTreeMap<String, f64> = BTreeMap::new();
    let (mut builds, mut comparisons) = (0usize, 0usize);
    let mut next_id = 0usize;
    for (s, lines) in srcs.iter().zip(slots.into_iter()) {
        *dist.entry(format!("kind:{}", s.kind.split(':').next().unwrap_or(""))).or_default() += 1;
        *dist.entry(format!("masters:{}", s.pos.len())).or_default() += 1;
        *dist.entry(format!("depth:{}", s.glyphs.iter().map(|g| s.depth(&g.name)).max().unwrap_or(0))).or_default() += 1;
        if s.glyphs.iter().any(|g| !g.export) {
            *dist.entry("has_nonexport".into()).or_default() += 1;
        }
        if s.glyphs.iter().any(|g| !g.bases.is_empty() && !g.m[0].contours.is_empty()) {
            *dist.entry("has_mixed".into()).or_default() += 1;
        }
        if s.glyphs.iter().any(|g| g.m[0].xf.iter().any(|t| det(t) < 0.0)) {
            *dist.entry("has_flip".into()).or_default() += 1;
        }
        for l in lines.unwrap() {
            if l["type"] == "srcstat" {
                builds += l["builds"].as_u64().unwrap_or(0) as usize;
                comparisons += l["comparisons"].as_u64().unwrap_or(0) as usize;
                if let Some(m) = l["stats"].as_object() {
                    for (k, v) in m {
                        let e = maxd.entry(k.clone()).or_insert(0.0);
                        *e = e.max(v.as_f64().unwrap_or(0.0));
                    }
                }
                continue;
            }
            let mut l = l;
            if l["type"] == "case" {
                l["id"] = json!(next_id);
                next_id += 1;
            }
            emit(l);
        }
    }
    emit_stat(json!({"distribution": dist, "builds": builds, "glyph_location_comparisons": comparisons, "max_distance_by_depth": maxd, "extra_evaluations": comparisons}));
}
