//! C10: mark attachment in the font places marks on the source's anchors.
//!
//! Streams, all from one `Rng`:
//!  N. anchor names (adversarial: underscores, numeric suffixes, signs, leading zeros, overflow,
//!     caret/entry/exit look-alikes, non-ASCII) through the public `fontir::ir::AnchorKind::new`
//!     / `to_name`, compared with the Coq model of the classification;
//!  E. whole fonts: generated UFO / designspace sources with anchors (several anchor names per
//!     glyph, `_name` mark anchors, `name_N` ligature anchors, marks that carry base anchors,
//!     anchors that move between masters or are missing in a master, explicit / FEA / absent glyph
//!     categories, non-exported glyphs, composites with anchor propagation on) compiled in process;
//!     GPOS MarkBasePos / MarkLigPos / MarkMarkPos and GDEF are decoded with read-fonts, variable
//!     anchors are evaluated through GDEF's ItemVariationStore at every master, and
//!       * the property predicate is evaluated directly (every attaching anchor x every mark with
//!         the matching `_` anchor is covered by a lookup of the right kind whose two anchors are
//!         the rounded source coordinates; nothing else is attached; source marks are GDEF marks;
//!         mark filtering sets keep the participants),
//!       * a Gallina term compares the Coq model of the pipeline (classification, pruning, group
//!         construction, lookups, variable anchors through the C07 model) with the decoded font.
use fontdrasil::types::GlyphName;
use fontir::ir::AnchorKind;
use fontir::orchestration::{Flags, WorkId as FeWorkId};
use fontir::paths::Paths as FePaths;
use serde_json::{json, Value};
use std::collections::{BTreeMap, BTreeSet};
use vh::srcgen::{compile_path, quiet_panics, scratch_dir, AxisSrc, Design, GlyphSrc, Master, Outcome};
use vh::*;
use write_fonts::read::tables::gpos::{AnchorTable, PositionSubtables};
use write_fonts::read::tables::layout::{DeviceOrVariationIndex, LookupFlag};
use write_fonts::read::tables::variations::ItemVariationStore;
use write_fonts::read::types::GlyphId16;
use write_fonts::read::{FontRef, TableProvider};

// =================================================================================================
// stream N: anchor names
// =================================================================================================
fn gen_name(rng: &mut Rng) -> String {
    let groups = ["top", "bottom", "ogonek", "top_right", "x", "a_b_c", "é", "top.alt", "1", "t1", "caret", "entryx", ""];
    let nums = ["1", "2", "10", "0", "00", "01", "+1", "+0", "-1", "1 ", " 1", "١", "18446744073709551615", "18446744073709551616",
                "00000000000000000000001", "99999999999999999999999", "+", "-", "", "1_2", "_", "3x"];
    match rng.below(16) {
        0 => rng.pick(&["entry", "exit", "entry_1", "exit_", "_entry", "_exit", "Entry", "entry.1"]).to_string(),
        1 => format!("caret_{}", rng.pick(&nums)),
        2 => format!("vcaret_{}", rng.pick(&nums)),
        3 => format!("{}caret_{}", rng.pick(&["", "v", "x", "_", "vv"]), rng.pick(&nums)),
        4 | 5 => format!("_{}", rng.pick(&groups)),
        6 => format!("_{}", rng.pick(&nums)),
        7 => format!("_{}_{}", rng.pick(&groups), rng.pick(&nums)),
        8 | 9 => format!("{}_{}", rng.pick(&groups), rng.pick(&nums)),
        10 => format!("{}_{}_{}", rng.pick(&groups), rng.pick(&nums), rng.pick(&nums)),
        11 => format!("__{}", rng.pick(&groups)),
        12 => format!("{}_", rng.pick(&groups)),
        13 => rng.pick(&["_", "__", "___", "", "_0", "_00", "_+3", "*origin", "top_", "_top_", "caret_", "vcaret_", "caret", "vcaret_1_"]).to_string(),
        _ => rng.pick(&groups).to_string(),
    }
}

fn coq_kind(r: &Result<AnchorKind, fontir::error::BadAnchorReason>) -> String {
    use fontir::error::BadAnchorReason as R;
    match r {
        Ok(AnchorKind::Base(g)) => format!("(inl (KBase {}))", coq_str(g)),
        Ok(AnchorKind::Mark(g)) => format!("(inl (KMark {}))", coq_str(g)),
        Ok(AnchorKind::Ligature { group_name, index }) => format!("(inl (KLig {} {}))", coq_str(group_name), coq_n(*index as u64)),
        Ok(AnchorKind::ComponentMarker(i)) => format!("(inl (KCompMarker {}))", coq_n(*i as u64)),
        Ok(AnchorKind::Caret(i)) => format!("(inl (KCaret {}))", coq_n(*i as u64)),
        Ok(AnchorKind::VCaret(i)) => format!("(inl (KVCaret {}))", coq_n(*i as u64)),
        Ok(AnchorKind::CursiveEntry) => "(inl KEntry)".into(),
        Ok(AnchorKind::CursiveExit) => "(inl KExit)".into(),
        Err(R::ZeroIndex) => "(inr EZeroIndex)".into(),
        Err(R::NilMarkGroup) => "(inr ENilMarkGroup)".into(),
        Err(R::NumberedMarkAnchor) => "(inr ENumberedMarkAnchor)".into(),
        Err(_) => "(inr EOther)".into(),
    }
}

fn run_names(rng: &mut Rng, id: &mut usize, n: usize, stats: &mut BTreeMap<String, u64>) {
    for _ in 0..n {
        let name = gen_name(rng);
        let name2 = name.clone();
        let r = std::panic::catch_unwind(move || {
            let k = AnchorKind::new(&name2);
            let back = k.as_ref().ok().map(|k| k.to_name().to_string());
            (k, back)
        });
        let (k, back) = match r {
            Ok(x) => x,
            Err(_) => {
                emit_violation("anchor-name-classification-panics", format!("AnchorKind::new panicked on {name:?}"), json!({"name": name}));
                continue;
            }
        };
        // property side: a mark anchor `_g` and the anchors `g` / `g_N` it matches must land in the same group
        if let Ok(AnchorKind::Mark(g)) = &k {
            if format!("_{g}") != name {
                emit_violation("anchor-mark-group-is-not-the-name-without-underscore", format!("{name:?} classified as mark of group {g:?}"), json!({"name": name}));
            }
        }
        if let Ok(AnchorKind::Base(g)) = &k {
            if g.as_str() != name {
                emit_violation("anchor-base-group-is-not-the-name", format!("{name:?} classified as base of group {g:?}"), json!({"name": name}));
            }
        }
        let class = match &k {
            Ok(AnchorKind::Base(_)) => "base",
            Ok(AnchorKind::Mark(_)) => "mark",
            Ok(AnchorKind::Ligature { .. }) => "ligature",
            Ok(_) => "other",
            Err(_) => "rejected",
        };
        *stats.entry(format!("names_{class}")).or_default() += 1;
        let coq = format!(
            "name_case_ok {} {} {}",
            coq_str(&name),
            coq_kind(&k),
            coq_opt(&back, |s| coq_str(s))
        );
        emit_case(*id, "name", coq, Some(format!("kind_new {}", coq_str(&name))), k.is_ok(), format!("n:{name}"), json!({"name": name}));
        *id += 1;
    }
}

// =================================================================================================
// stream E: sources
// =================================================================================================
#[derive(Clone, Copy, Debug, PartialEq, Eq, PartialOrd, Ord)]
enum Cls {
    Base = 1,
    Lig = 2,
    Mark = 3,
    Comp = 4,
}
impl Cls {
    fn plist(self) -> &'static str {
        match self {
            Cls::Base => "base",
            Cls::Lig => "ligature",
            Cls::Mark => "mark",
            Cls::Comp => "component",
        }
    }
    fn coq(self) -> &'static str {
        match self {
            Cls::Base => "CBase",
            Cls::Lig => "CLig",
            Cls::Mark => "CMark",
            Cls::Comp => "CComp",
        }
    }
}

#[derive(Clone, Debug)]
struct ASrc {
    name: String,
    /// per master: position, or None when the master's glyph does not carry the anchor
    pos: Vec<Option<(f64, f64)>>,
}

#[derive(Clone, Debug)]
struct GSrc {
    name: String,
    uni: Option<u32>,
    anchors: Vec<ASrc>,
    /// (component glyph, dx, dy per master)
    comps: Vec<(String, Vec<(f64, f64)>)>,
    export: bool,
}

#[derive(Clone, Debug, PartialEq)]
enum CatMode {
    None,
    Lib(Vec<(String, Option<Cls>)>),      // public.openTypeCategories in the default master's lib (None = "unassigned")
    DsLib(Vec<(String, Option<Cls>)>),    // ... in the designspace lib
    Fea(Vec<(String, Cls)>),              // table GDEF { GlyphClassDef ... } in features.fea
}

#[derive(Clone, Debug)]
struct Case {
    family: String,
    axes: Vec<AxisSrc>,
    /// (design location, normalized location)
    masters: Vec<(Vec<(String, f64)>, Vec<f64>)>,
    glyphs: Vec<GSrc>,
    cats: CatMode,
    propagate: bool,
    langsys: bool,
    kind: &'static str,
}

const GROUPS: &[&str] = &["top", "bottom", "ogonek", "top_right", "x2", "center.alt"];

fn gen_coord(rng: &mut Rng) -> f64 {
    let base = match rng.below(10) {
        0 => 0,
        1 => rng.range(-300, -1),
        2 => *rng.pick(&[-1000i64, 1000, 2000, 5000, -5000]),
        _ => rng.range(0, 900),
    } as f64;
    match rng.below(12) {
        0 | 1 => base + 0.5,
        2 => base - 0.5,
        3 => base + 0.25,
        4 => base + 0.75,
        5 => base + 0.3,
        6 => base + 0.49999,
        _ => base,
    }
}

/// positions of one anchor at every master
fn gen_positions(rng: &mut Rng, nm: usize, allow_sparse: bool) -> Vec<Option<(f64, f64)>> {
    let p0 = (gen_coord(rng), gen_coord(rng));
    let mode = rng.below(6);
    (0..nm)
        .map(|k| {
            if k == 0 {
                return Some(p0);
            }
            if allow_sparse && rng.chance(1, 9) {
                return None;
            }
            Some(match mode {
                0 => p0,                                                         // does not vary
                1 => (p0.0 + rng.range(-60, 60) as f64, p0.1),                   // x only
                2 => (p0.0, p0.1 + rng.range(-60, 60) as f64),                   // y only
                3 => (p0.0 + 0.5 * rng.range(-9, 9) as f64, p0.1 + 0.5 * rng.range(-9, 9) as f64), // halves: ties
                _ => (gen_coord(rng), gen_coord(rng)),
            })
        })
        .collect()
}

struct Roster {
    bases: Vec<(&'static str, u32)>,
    marks: Vec<(&'static str, u32)>,
    ligs: Vec<(&'static str, u32)>,
}

fn roster(indic: bool) -> Roster {
    if indic {
        Roster {
            bases: vec![("ka-deva", 0x915), ("kha-deva", 0x916), ("A", 0x41)],
            marks: vec![("anusvara-deva", 0x902), ("nukta-deva", 0x93C), ("uMatra-deva", 0x941), ("acutecomb", 0x301)],
            ligs: vec![("k_ssa-deva", 0)],
        }
    } else {
        Roster {
            bases: vec![("A", 0x41), ("E", 0x45), ("O", 0x4F), ("a", 0x61), ("period", 0x2E)],
            marks: vec![("acutecomb", 0x301), ("gravecomb", 0x300), ("dotbelowcomb", 0x323), ("macroncomb", 0x304), ("ogonekcomb", 0x328)],
            ligs: vec![("f_i", 0xFB01), ("f_f_i", 0xFB03), ("f_f", 0xFB00)],
        }
    }
}

fn gen_case(rng: &mut Rng, k: usize) -> Case {
    let kind: &'static str = match k % 10 {
        0 | 1 => "e2e-static",
        2 | 3 | 4 => "e2e-variable",
        5 => "e2e-categories",
        6 => "e2e-categories-adversarial",
        7 => "e2e-propagate",
        8 => "e2e-variable-categories",
        _ => "e2e-indic",
    };
    let variable = matches!(kind, "e2e-variable" | "e2e-variable-categories") || (kind == "e2e-propagate" && rng.chance(1, 2));
    let two_axes = variable && rng.chance(1, 3);
    let mut axes = Vec::new();
    let mut masters: Vec<(Vec<(String, f64)>, Vec<f64>)> = Vec::new();
    if variable {
        axes.push(AxisSrc { name: "Weight".into(), tag: "wght".into(), min: 0.0, default: 0.0, max: 1000.0, ..Default::default() });
        if two_axes {
            axes.push(AxisSrc { name: "Width".into(), tag: "wdth".into(), min: 50.0, default: 100.0, max: 150.0, ..Default::default() });
        }
        let wght_pos = [(1000.0, 1.0), (500.0, 0.5), (250.0, 0.25), (750.0, 0.75)];
        let wdth_pos = [(150.0, 1.0), (50.0, -1.0), (125.0, 0.5), (75.0, -0.5)];
        masters.push((axes.iter().map(|a| (a.name.clone(), a.default)).collect(), vec![0.0; axes.len()]));
        let want = rng.range(2, 4) as usize;
        let mut tries = 0;
        while masters.len() < want && tries < 50 {
            tries += 1;
            let mut d = Vec::new();
            let mut nrm = Vec::new();
            let (wv, wn) = if two_axes && rng.chance(1, 3) { (0.0, 0.0) } else { wght_pos[if rng.chance(1, 2) { 0 } else { rng.below(4) as usize }] };
            d.push(("Weight".to_string(), wv));
            nrm.push(wn);
            if two_axes {
                let (v, n) = if rng.chance(1, 3) { (100.0, 0.0) } else { wdth_pos[rng.below(4) as usize] };
                d.push(("Width".to_string(), v));
                nrm.push(n);
            }
            if !masters.iter().any(|(_, n)| *n == nrm) {
                masters.push((d, nrm));
            }
        }
    } else {
        masters.push((Vec::new(), Vec::new()));
    }
    let nm = masters.len();
    let r = roster(kind == "e2e-indic");
    let ngroups = rng.range(1, 4) as usize;
    let mut groups: Vec<&str> = GROUPS.to_vec();
    rng.shuffle(&mut groups);
    groups.truncate(ngroups);
    let sparse_ok = variable;

    let mut glyphs: Vec<GSrc> = Vec::new();
    let nb = rng.range(1, r.bases.len() as i64) as usize;
    let nmk = rng.range(1, r.marks.len() as i64) as usize;
    let nl = if rng.chance(1, 2) { rng.range(1, r.ligs.len() as i64) as usize } else { 0 };
    for (name, uni) in r.bases.iter().take(nb) {
        let mut anchors = Vec::new();
        for g in &groups {
            if rng.chance(3, 4) {
                anchors.push(ASrc { name: g.to_string(), pos: gen_positions(rng, nm, sparse_ok) });
            }
        }
        if rng.chance(1, 8) {
            anchors.push(ASrc { name: "unmatched".into(), pos: gen_positions(rng, nm, false) });
        }
        if rng.chance(1, 10) {
            anchors.push(ASrc { name: "exit".into(), pos: gen_positions(rng, nm, false) });
            anchors.push(ASrc { name: "entry".into(), pos: gen_positions(rng, nm, false) });
        }
        if rng.chance(1, 12) {
            // a base that also carries a mark anchor (of a used or an unused group)
            let g = if rng.chance(1, 2) { groups[0].to_string() } else { "nobase".to_string() };
            anchors.push(ASrc { name: format!("_{g}"), pos: gen_positions(rng, nm, false) });
        }
        glyphs.push(GSrc { name: name.to_string(), uni: Some(*uni), anchors, comps: vec![], export: true });
    }
    for (i, (name, uni)) in r.marks.iter().take(nmk).enumerate() {
        let mut anchors = Vec::new();
        // one or two mark anchors
        let g0 = groups[i % groups.len()];
        anchors.push(ASrc { name: format!("_{g0}"), pos: gen_positions(rng, nm, sparse_ok) });
        if groups.len() > 1 && rng.chance(1, 5) {
            let g1 = groups[(i + 1) % groups.len()];
            anchors.push(ASrc { name: format!("_{g1}"), pos: gen_positions(rng, nm, sparse_ok) });
        }
        // base anchors on the mark: mark-to-mark
        if rng.chance(1, 2) {
            let g = if rng.chance(2, 3) { g0 } else { *rng.pick(&groups) };
            anchors.push(ASrc { name: g.to_string(), pos: gen_positions(rng, nm, sparse_ok) });
        }
        if rng.chance(1, 10) {
            anchors.push(ASrc { name: "_unmatchedmark".into(), pos: gen_positions(rng, nm, false) });
        }
        if rng.chance(1, 14) {
            // a mark that carries ligature anchors
            let g = *rng.pick(&groups);
            anchors.push(ASrc { name: format!("{g}_1"), pos: gen_positions(rng, nm, false) });
        }
        if rng.chance(1, 12) {
            rng.shuffle(&mut anchors);
        }
        glyphs.push(GSrc { name: name.to_string(), uni: Some(*uni), anchors, comps: vec![], export: !rng.chance(1, 16) });
    }
    if rng.chance(1, 10) && kind != "e2e-propagate" {
        // a mark-like glyph that has only base anchors (no `_` anchor)
        glyphs.push(GSrc {
            name: "tildecomb".into(),
            uni: Some(0x303),
            anchors: vec![ASrc { name: groups[0].to_string(), pos: gen_positions(rng, nm, false) }],
            comps: vec![],
            export: true,
        });
    }
    for (name, uni) in r.ligs.iter().take(nl) {
        let ncomp = name.matches('_').count() + 1;
        let mut anchors = Vec::new();
        for g in &groups {
            if rng.chance(1, 4) {
                continue;
            }
            for c in 1..=ncomp {
                if rng.chance(1, 6) {
                    continue; // this component has no anchor of the group
                }
                anchors.push(ASrc { name: format!("{g}_{c}"), pos: gen_positions(rng, nm, sparse_ok) });
            }
        }
        if rng.chance(1, 5) {
            anchors.push(ASrc { name: format!("_{}", ncomp + 1), pos: gen_positions(rng, nm, false) });
        }
        if rng.chance(1, 4) {
            anchors.push(ASrc { name: "caret_1".into(), pos: gen_positions(rng, nm, false) });
        }
        if rng.chance(1, 10) {
            anchors.push(ASrc { name: groups[0].to_string(), pos: gen_positions(rng, nm, false) });
        }
        if rng.chance(1, 8) {
            rng.shuffle(&mut anchors);
        }
        glyphs.push(GSrc { name: name.to_string(), uni: if *uni == 0 { None } else { Some(*uni) }, anchors, comps: vec![], export: true });
    }
    // composites (anchors reach them only through propagation)
    if kind == "e2e-propagate" || rng.chance(1, 8) {
        let ncomp = rng.range(1, 2);
        for c in 0..ncomp {
            let b = glyphs[c as usize % nb].name.clone();
            let m = glyphs[nb + (c as usize % nmk)].name.clone();
            if !glyphs.iter().any(|g| g.name == m && g.export) {
                continue;
            }
            let name = format!("{}{}", b, m.trim_end_matches("comb").trim_end_matches("-deva"));
            if glyphs.iter().any(|g| g.name == name) {
                continue;
            }
            let off_b: Vec<(f64, f64)> = (0..nm).map(|_| (0.0, 0.0)).collect();
            let o0 = (rng.range(-50, 300) as f64, rng.range(-50, 300) as f64);
            let off_m: Vec<(f64, f64)> = (0..nm).map(|k| if k == 0 || rng.chance(1, 2) { o0 } else { (o0.0 + rng.range(-20, 20) as f64, o0.1) }).collect();
            let own = if kind != "e2e-propagate" && rng.chance(1, 2) {
                vec![ASrc { name: groups[0].to_string(), pos: gen_positions(rng, nm, false) }]
            } else {
                vec![]
            };
            glyphs.push(GSrc { name, uni: None, anchors: own, comps: vec![(b, off_b), (m, off_m)], export: true });
        }
    }
    // categories
    let role = |g: &GSrc| -> Cls {
        if r.marks.iter().any(|(n, _)| *n == g.name) || g.name == "tildecomb" {
            Cls::Mark
        } else if r.ligs.iter().any(|(n, _)| *n == g.name) {
            Cls::Lig
        } else {
            Cls::Base
        }
    };
    let cats = match kind {
        "e2e-categories" | "e2e-variable-categories" => {
            let v: Vec<(String, Option<Cls>)> = glyphs.iter().map(|g| (g.name.clone(), Some(role(g)))).collect();
            match rng.below(4) {
                0 if variable => CatMode::DsLib(v),
                1 => CatMode::Fea(v.into_iter().filter(|(n, _)| glyphs.iter().any(|g| g.name == *n && g.export)).map(|(n, c)| (n, c.unwrap())).collect()),
                _ => CatMode::Lib(v),
            }
        }
        "e2e-categories-adversarial" => {
            let mut v: Vec<(String, Option<Cls>)> = Vec::new();
            for g in &glyphs {
                let c = match rng.below(10) {
                    0 => continue,                       // not listed at all
                    1 => None,                           // "unassigned"
                    2 => Some(Cls::Comp),
                    3 => Some(*rng.pick(&[Cls::Base, Cls::Mark, Cls::Lig])), // possibly contradicting the anchors
                    _ => Some(role(g)),
                };
                v.push((g.name.clone(), c));
            }
            if rng.chance(1, 10) {
                v = v.into_iter().map(|(n, _)| (n, Some(Cls::Comp))).collect(); // only components
            }
            if rng.chance(1, 3) {
                CatMode::Fea(v.into_iter().filter(|(n, _)| glyphs.iter().any(|g| g.name == *n && g.export)).filter_map(|(n, c)| c.map(|c| (n, c))).collect())
            } else {
                CatMode::Lib(v)
            }
        }
        "e2e-indic" if rng.chance(1, 2) => CatMode::Lib(glyphs.iter().map(|g| (g.name.clone(), Some(role(g)))).collect()),
        _ => CatMode::None,
    };
    Case { family: format!("C10F{k}"), axes, masters, glyphs, cats, propagate: kind == "e2e-propagate", langsys: rng.chance(1, 4), kind }
}

/// fixed sources, run first on every run: a plain variable family, and the minimal inputs of the findings
fn corpus() -> Vec<Case> {
    let one = |x: f64, y: f64| vec![Some((x, y))];
    let g = |name: &str, uni: u32, anchors: Vec<(&str, Vec<Option<(f64, f64)>>)>| GSrc {
        name: name.into(),
        uni: if uni == 0 { None } else { Some(uni) },
        anchors: anchors.into_iter().map(|(n, pos)| ASrc { name: n.into(), pos }).collect(),
        comps: vec![],
        export: true,
    };
    let static_masters = vec![(Vec::new(), Vec::new())];
    let mut out = Vec::new();
    // 1. two masters, every lookup type, anchors that move, a .5 tie
    let two = |a: (f64, f64), b: (f64, f64)| vec![Some(a), Some(b)];
    out.push(Case {
        family: "C10Corpus1".into(),
        axes: vec![AxisSrc { name: "Weight".into(), tag: "wght".into(), min: 0.0, default: 0.0, max: 1000.0, ..Default::default() }],
        masters: vec![(vec![("Weight".into(), 0.0)], vec![0.0]), (vec![("Weight".into(), 1000.0)], vec![1.0])],
        glyphs: vec![
            g("A", 0x41, vec![("top", two((300.0, 700.0), (160.5, 700.5))), ("bottom", two((300.0, -10.0), (300.0, -10.0)))]),
            g("acutecomb", 0x301, vec![("_top", two((100.0, 500.0), (120.0, 510.0))), ("top", two((100.0, 650.0), (120.0, 680.0)))]),
            g("dotbelowcomb", 0x323, vec![("_bottom", two((90.0, -2.5), (90.0, -2.5)))]),
            g("f_i", 0xFB01, vec![("top_1", two((150.0, 700.0), (160.0, 700.0))), ("top_2", two((450.0, 700.0), (470.0, 700.0)))]),
        ],
        cats: CatMode::None,
        propagate: false,
        langsys: false,
        kind: "corpus-plain",
    });
    // 2. no categories; a mark glyph that also carries a ligature anchor of a used group
    out.push(Case {
        family: "C10Corpus2".into(),
        axes: vec![],
        masters: static_masters.clone(),
        glyphs: vec![
            g("A", 0x41, vec![("top", one(300.0, 700.0))]),
            g("acutecomb", 0x301, vec![("_top", one(100.0, 500.0)), ("bottom_1", one(100.0, 0.0))]),
            g("dotbelowcomb", 0x323, vec![("_bottom", one(90.0, -10.0))]),
        ],
        cats: CatMode::None,
        propagate: false,
        langsys: false,
        kind: "corpus-mark-with-ligature-anchor",
    });
    // 3. categories; a mark-class glyph whose only anchor is a base anchor
    out.push(Case {
        family: "C10Corpus3".into(),
        axes: vec![],
        masters: static_masters.clone(),
        glyphs: vec![
            g("A", 0x41, vec![("top", one(300.0, 700.0))]),
            g("tildecomb", 0x303, vec![("top", one(110.0, 640.0))]),
            g("acutecomb", 0x301, vec![("_top", one(100.0, 500.0))]),
        ],
        cats: CatMode::Lib(vec![("A".into(), Some(Cls::Base)), ("tildecomb".into(), Some(Cls::Mark)), ("acutecomb".into(), Some(Cls::Mark))]),
        propagate: false,
        langsys: false,
        kind: "corpus-mark-class-glyph-without-mark-anchor",
    });
    // 5. a glyph of a non-abvm script that is a mark by its anchors and carries a base anchor, and a
    //    Devanagari-only mark with the matching `_` anchor: the mkmk lookup's filtering set drops the latter
    out.push(Case {
        family: "C10Corpus5".into(),
        axes: vec![],
        masters: static_masters.clone(),
        glyphs: vec![
            g("ka-deva", 0x915, vec![("top", one(300.0, 700.0))]),
            g("A", 0x41, vec![("top", one(310.0, 720.0)), ("_top", one(100.0, 0.0))]),
            g("anusvara-deva", 0x902, vec![("_top", one(80.0, 480.0))]),
        ],
        cats: CatMode::None,
        propagate: false,
        langsys: false,
        kind: "e2e-indic",
    });
    // 4. a Latin mark that can carry marks, and a Devanagari mark that wants to sit on it
    out.push(Case {
        family: "C10Corpus4".into(),
        axes: vec![],
        masters: static_masters,
        glyphs: vec![
            g("ka-deva", 0x915, vec![("top", one(300.0, 700.0))]),
            g("acutecomb", 0x301, vec![("_top", one(100.0, 500.0)), ("top", one(100.0, 650.0))]),
            g("anusvara-deva", 0x902, vec![("_top", one(80.0, 480.0))]),
        ],
        cats: CatMode::None,
        propagate: false,
        langsys: false,
        kind: "e2e-indic",
    });
    out
}

fn cats_plist(v: &[(String, Option<Cls>)]) -> String {
    let mut s = String::from("<dict>");
    for (n, c) in v {
        s.push_str(&format!("<key>{}</key><string>{}</string>", n, c.map(|c| c.plist()).unwrap_or("unassigned")));
    }
    s.push_str("</dict>");
    s
}

fn build_design(c: &Case) -> Design {
    let order: Vec<String> = std::iter::once(".notdef".to_string()).chain(c.glyphs.iter().map(|g| g.name.clone())).collect();
    let mut fea = String::new();
    if c.langsys {
        fea.push_str("languagesystem DFLT dflt;\nlanguagesystem latn dflt;\n");
    }
    if let CatMode::Fea(v) = &c.cats {
        let cl = |k: Cls| {
            let m = v.iter().filter(|(_, c)| *c == k).map(|(n, _)| n.as_str()).collect::<Vec<_>>().join(" ");
            if m.is_empty() { m } else { format!("[{m}]") }
        };
        fea.push_str(&format!(
            "table GDEF {{\n  GlyphClassDef {}, {}, {}, {};\n}} GDEF;\n",
            cl(Cls::Base), cl(Cls::Lig), cl(Cls::Mark), cl(Cls::Comp)
        ));
    }
    let mut masters = Vec::new();
    for (mi, (dloc, _)) in c.masters.iter().enumerate() {
        let mut glyphs = vec![GlyphSrc::new(".notdef", 500.0).rect(50.0, 0.0, 450.0, 700.0)];
        for g in &c.glyphs {
            let mut gs = GlyphSrc::new(&g.name, 600.0);
            if g.comps.is_empty() {
                gs = gs.rect(50.0, 0.0, 550.0, 700.0);
            }
            if let Some(u) = g.uni {
                gs = gs.uni(u);
            }
            for (b, offs) in &g.comps {
                gs = gs.comp(b, [1.0, 0.0, 0.0, 1.0, offs[mi].0, offs[mi].1]);
            }
            for a in &g.anchors {
                if let Some((x, y)) = a.pos[mi] {
                    gs = gs.anchor(&a.name, x, y);
                }
            }
            glyphs.push(gs);
        }
        let mut m = Master {
            name: format!("M{mi}"),
            style: format!("S{mi}"),
            location: dloc.clone(),
            glyphs,
            glyph_order: Some(order.clone()),
            skip_export: c.glyphs.iter().filter(|g| !g.export).map(|g| g.name.clone()).collect(),
            ..Default::default()
        };
        if mi == 0 {
            if !fea.is_empty() {
                m.features = Some(fea.clone());
            }
            if let CatMode::Lib(v) = &c.cats {
                m.lib.push(("public.openTypeCategories".into(), cats_plist(v)));
            }
        }
        masters.push(m);
    }
    let mut d = Design { family: c.family.clone(), upem: 1000, axes: c.axes.clone(), masters, ..Default::default() };
    if let CatMode::DsLib(v) = &c.cats {
        d.extra_xml = format!("  <lib>\n    <dict><key>public.openTypeCategories</key>{}</dict>\n  </lib>\n", cats_plist(v));
    }
    d
}

// ---- the IR the compiler leaves behind: anchors after propagation, glyph order, categories ------
#[derive(Clone, Debug)]
struct IrAnchor {
    name: String,
    /// (master index, x, y)
    pos: Vec<(usize, f64, f64)>,
}
struct Ir {
    order: Vec<String>,
    /// every glyph with an anchors file, exported or not
    anchors: Vec<(String, Vec<IrAnchor>)>,
    cats: Vec<(String, Cls)>,
    prelim: Vec<(String, Cls)>,
    infer_from_anchors: bool,
}

fn read_ir(dir: &std::path::Path, c: &Case) -> Result<Ir, String> {
    fn load<T: serde::de::DeserializeOwned>(f: &std::path::Path) -> Result<T, String> {
        serde_yaml::from_reader(std::fs::File::open(f).map_err(|e| format!("{f:?}: {e}"))?).map_err(|e| format!("{f:?}: {e}"))
    }
    let order: fontir::ir::GlyphOrder = load(&FePaths::target_file(dir, &FeWorkId::GlyphOrder))?;
    let gc: fontir::ir::GdefCategories = load(&FePaths::target_file(dir, &FeWorkId::GdefCategories))?;
    let pc: fontir::ir::PreliminaryGdefCategories = load(&FePaths::target_file(dir, &FeWorkId::PreliminaryGdefCategories))?;
    let sm: fontir::ir::StaticMetadata = load(&FePaths::target_file(dir, &FeWorkId::StaticMetadata))?;
    let tags: Vec<_> = sm.axes.iter().map(|a| a.tag).collect();
    let mut anchors = Vec::new();
    let names: Vec<String> = c.glyphs.iter().map(|g| g.name.clone()).collect();
    for n in &names {
        let f = FePaths::target_file(dir, &FeWorkId::Anchor(GlyphName::new(n)));
        if !f.exists() {
            continue;
        }
        let ga: fontir::ir::GlyphAnchors = load(&f)?;
        let mut v = Vec::new();
        for a in &ga.anchors {
            let mut pos = Vec::new();
            for (loc, p) in &a.positions {
                let coords: Vec<f64> = tags.iter().map(|t| loc.get(*t).map(|c| c.to_f64()).unwrap_or(0.0)).collect();
                let Some(mi) = c.masters.iter().position(|(_, n)| *n == coords) else {
                    return Err(format!("IR anchor {} of {n} at a location that is no master: {coords:?}", a.original_name));
                };
                pos.push((mi, p.x, p.y));
            }
            pos.sort_by_key(|p| p.0);
            if a.kind.to_name() != a.original_name && AnchorKind::new(&a.original_name).ok().as_ref() != Some(&a.kind) {
                return Err(format!("IR anchor {} of {n} carries a kind that is not the classification of its name", a.original_name));
            }
            v.push(IrAnchor { name: a.original_name.to_string(), pos });
        }
        // the order of a composite's propagated anchors in the IR depends on a HashMap's iteration order
        // (propagate_anchors.rs build_variable_anchors) when an anchor is missing at some location; nothing
        // modelled here depends on the order of anchors of different names, so give them a fixed one
        let src = c.glyphs.iter().find(|g| g.name == *n);
        v.sort_by_key(|a| (src.and_then(|g| g.anchors.iter().position(|x| x.name == a.name)).unwrap_or(usize::MAX), a.name.clone()));
        anchors.push((n.clone(), v));
    }
    use write_fonts::tables::gdef::GlyphClassDef as G;
    let conv = |c: &G| match c { G::Base => Cls::Base, G::Ligature => Cls::Lig, G::Mark => Cls::Mark, _ => Cls::Comp };
    let cats = gc.categories.iter().map(|(n, c)| (n.to_string(), conv(c))).collect();
    let prelim = pc.categories.iter().map(|(n, c)| (n.to_string(), conv(c))).collect();
    Ok(Ir { order: order.names().map(|n| n.to_string()).collect(), anchors, cats, prelim, infer_from_anchors: pc.infer_from_anchors })
}

// ---- decoded font -----------------------------------------------------------------------------------
#[derive(Clone, Debug, PartialEq)]
struct OAnchor {
    x: i16,
    y: i16,
    /// value at every master of the case
    at: Vec<(f64, f64)>,
    variable: bool,
}
#[derive(Clone, Debug, PartialEq)]
enum OBase {
    One(OAnchor),
    Lig(Vec<Option<OAnchor>>),
}
#[derive(Clone, Debug)]
struct OLookup {
    index: u16,
    ty: u16,
    marks: Vec<(u16, OAnchor)>,
    bases: Vec<(u16, OBase)>,
    filter: Option<Vec<u16>>,
    flags: u16,
}
struct OFont {
    /// feature tag -> lookups, for the default language system of each script
    scripts: Vec<(String, BTreeMap<String, Vec<OLookup>>)>,
    gdef_classes: Option<BTreeMap<u16, u16>>,
    nglyphs: u16,
}

fn region_scalar(axes: &[(f64, f64, f64)], coords: &[f64]) -> f64 {
    let mut s = 1.0;
    for (i, (start, peak, end)) in axes.iter().enumerate() {
        let v = coords.get(i).copied().unwrap_or(0.0);
        if *peak == 0.0 || start > peak || peak > end || (*start < 0.0 && *end > 0.0) {
            continue;
        }
        if v == *peak {
            continue;
        }
        if v <= *start || v >= *end {
            return 0.0;
        }
        s *= if v < *peak { (v - start) / (peak - start) } else { (end - v) / (end - peak) };
    }
    s
}

struct Dec<'a> {
    font: FontRef<'a>,
    ivs: Option<ItemVariationStore<'a>>,
    masters: Vec<Vec<f64>>,
}

impl<'a> Dec<'a> {
    fn delta(&self, outer: u16, inner: u16, coords: &[f64]) -> Result<f64, String> {
        let ivs = self.ivs.as_ref().ok_or("VariationIndex but GDEF has no ItemVariationStore")?;
        let regions = ivs.variation_region_list().map_err(|e| e.to_string())?.variation_regions();
        let data = ivs.item_variation_data().get(outer as usize).ok_or("outer index out of range")?.map_err(|e| e.to_string())?;
        if inner >= data.item_count() {
            return Err(format!("inner index {inner} out of range ({} items)", data.item_count()));
        }
        let mut total = 0.0;
        for (ri, d) in data.region_indexes().iter().zip(data.delta_set(inner)) {
            let region = regions.get(ri.get() as usize).map_err(|e| e.to_string())?;
            let axes: Vec<(f64, f64, f64)> = region
                .region_axes()
                .iter()
                .map(|c| (c.start_coord().to_bits() as f64 / 16384.0, c.peak_coord().to_bits() as f64 / 16384.0, c.end_coord().to_bits() as f64 / 16384.0))
                .collect();
            total += region_scalar(&axes, coords) * d as f64;
        }
        Ok(total)
    }

    fn dev(&self, d: Option<Result<DeviceOrVariationIndex<'a>, write_fonts::read::ReadError>>, coords: &[f64]) -> Result<(f64, bool), String> {
        match d {
            None => Ok((0.0, false)),
            Some(Err(e)) => Err(e.to_string()),
            Some(Ok(DeviceOrVariationIndex::VariationIndex(vi))) => Ok((self.delta(vi.delta_set_outer_index(), vi.delta_set_inner_index(), coords)?, true)),
            Some(Ok(DeviceOrVariationIndex::Device(_))) => Err("hinting Device table in a mark anchor".into()),
        }
    }

    fn anchor(&self, a: &AnchorTable<'a>) -> Result<OAnchor, String> {
        if let AnchorTable::Format2(_) = a {
            return Err("contour-point anchor (format 2)".into());
        }
        let (x, y) = (a.x_coordinate(), a.y_coordinate());
        let mut at = Vec::new();
        let mut variable = false;
        for m in &self.masters {
            let (dx, vx) = self.dev(a.x_device(), m)?;
            let (dy, vy) = self.dev(a.y_device(), m)?;
            variable |= vx | vy;
            at.push((x as f64 + dx, y as f64 + dy));
        }
        Ok(OAnchor { x, y, at, variable })
    }

    fn lookup(&self, index: u16) -> Result<Option<OLookup>, String> {
        let gpos = self.font.gpos().map_err(|e| e.to_string())?;
        let ll = gpos.lookup_list().map_err(|e| e.to_string())?;
        let lookup = ll.lookups().get(index as usize).map_err(|e| e.to_string())?;
        let flags = lookup.lookup_flag();
        let mut filter = None;
        if flags.contains(LookupFlag::USE_MARK_FILTERING_SET) {
            let set = lookup.mark_filtering_set().ok_or("USE_MARK_FILTERING_SET without a set index")?;
            let gdef = self.font.gdef().map_err(|e| format!("mark filtering set but no GDEF: {e}"))?;
            let sets = gdef.mark_glyph_sets_def().ok_or("mark filtering set but GDEF has no MarkGlyphSets")?.map_err(|e| e.to_string())?;
            let cov = sets.coverages().get(set as usize).map_err(|e| format!("mark glyph set {set}: {e}"))?;
            filter = Some(cov.iter().map(|g| g.to_u16()).collect::<Vec<_>>());
        }
        let mut out = OLookup { index, ty: 0, marks: vec![], bases: vec![], filter, flags: flags.to_bits() };
        let err = |e: write_fonts::read::ReadError| e.to_string();
        match lookup.subtables().map_err(err)? {
            PositionSubtables::MarkToBase(subs) => {
                out.ty = 4;
                if subs.len() != 1 {
                    return Err(format!("mark-to-base lookup {index} has {} subtables", subs.len()));
                }
                for st in subs.iter() {
                    let t = st.map_err(err)?;
                    let nclass = t.mark_class_count() as usize;
                    let ma = t.mark_array().map_err(err)?;
                    for (g, rec) in t.mark_coverage().map_err(err)?.iter().zip(ma.mark_records()) {
                        if rec.mark_class() as usize >= nclass {
                            return Err("mark class out of range".into());
                        }
                        if nclass != 1 {
                            return Err(format!("lookup {index}: {nclass} mark classes in one subtable"));
                        }
                        out.marks.push((g.to_u16(), self.anchor(&rec.mark_anchor(ma.offset_data()).map_err(err)?)?));
                    }
                    let ba = t.base_array().map_err(err)?;
                    for (g, rec) in t.base_coverage().map_err(err)?.iter().zip(ba.base_records().iter()) {
                        let rec = rec.map_err(err)?;
                        match rec.base_anchors(ba.offset_data()).get(0) {
                            Some(a) => out.bases.push((g.to_u16(), OBase::One(self.anchor(&a.map_err(err)?)?))),
                            None => return Err(format!("lookup {index}: base glyph {} has a null anchor for the only mark class", g.to_u16())),
                        }
                    }
                }
            }
            PositionSubtables::MarkToMark(subs) => {
                out.ty = 6;
                if subs.len() != 1 {
                    return Err(format!("mark-to-mark lookup {index} has {} subtables", subs.len()));
                }
                for st in subs.iter() {
                    let t = st.map_err(err)?;
                    let nclass = t.mark_class_count() as usize;
                    if nclass != 1 {
                        return Err(format!("lookup {index}: {nclass} mark classes in one subtable"));
                    }
                    let ma = t.mark1_array().map_err(err)?;
                    for (g, rec) in t.mark1_coverage().map_err(err)?.iter().zip(ma.mark_records()) {
                        out.marks.push((g.to_u16(), self.anchor(&rec.mark_anchor(ma.offset_data()).map_err(err)?)?));
                    }
                    let ba = t.mark2_array().map_err(err)?;
                    for (g, rec) in t.mark2_coverage().map_err(err)?.iter().zip(ba.mark2_records().iter()) {
                        let rec = rec.map_err(err)?;
                        match rec.mark2_anchors(ba.offset_data()).get(0) {
                            Some(a) => out.bases.push((g.to_u16(), OBase::One(self.anchor(&a.map_err(err)?)?))),
                            None => return Err(format!("lookup {index}: mark2 glyph {} has a null anchor for the only mark class", g.to_u16())),
                        }
                    }
                }
            }
            PositionSubtables::MarkToLig(subs) => {
                out.ty = 5;
                if subs.len() != 1 {
                    return Err(format!("mark-to-ligature lookup {index} has {} subtables", subs.len()));
                }
                for st in subs.iter() {
                    let t = st.map_err(err)?;
                    let nclass = t.mark_class_count() as usize;
                    if nclass != 1 {
                        return Err(format!("lookup {index}: {nclass} mark classes in one subtable"));
                    }
                    let ma = t.mark_array().map_err(err)?;
                    for (g, rec) in t.mark_coverage().map_err(err)?.iter().zip(ma.mark_records()) {
                        out.marks.push((g.to_u16(), self.anchor(&rec.mark_anchor(ma.offset_data()).map_err(err)?)?));
                    }
                    let la = t.ligature_array().map_err(err)?;
                    for (g, att) in t.ligature_coverage().map_err(err)?.iter().zip(la.ligature_attaches().iter()) {
                        let att = att.map_err(err)?;
                        let mut comps = Vec::new();
                        for cr in att.component_records().iter() {
                            let cr = cr.map_err(err)?;
                            comps.push(match cr.ligature_anchors(att.offset_data()).get(0) {
                                Some(a) => Some(self.anchor(&a.map_err(err)?)?),
                                None => None,
                            });
                        }
                        out.bases.push((g.to_u16(), OBase::Lig(comps)));
                    }
                }
            }
            _ => return Ok(None),
        }
        Ok(Some(out))
    }
}

const FEATURES: [&str; 4] = ["mark", "mkmk", "abvm", "blwm"];

fn decode_font(bytes: &[u8], masters: &[Vec<f64>]) -> Result<OFont, String> {
    let font = FontRef::new(bytes).map_err(|e| e.to_string())?;
    let nglyphs = font.maxp().map_err(|e| e.to_string())?.num_glyphs();
    let (ivs, gdef_classes) = match font.gdef() {
        Ok(g) => {
            let ivs = match g.item_var_store() {
                Some(Ok(s)) => Some(s),
                Some(Err(e)) => return Err(format!("GDEF var store: {e}")),
                None => None,
            };
            let cls = match g.glyph_class_def() {
                Some(Ok(cd)) => Some((0..nglyphs).map(|i| (i, cd.get(GlyphId16::new(i)))).filter(|(_, c)| *c != 0).collect::<BTreeMap<u16, u16>>()),
                Some(Err(e)) => return Err(format!("GDEF class def: {e}")),
                None => None,
            };
            (ivs, cls)
        }
        Err(_) => (None, None),
    };
    let dec = Dec { font: font.clone(), ivs, masters: masters.to_vec() };
    let mut scripts = Vec::new();
    if let Ok(gpos) = font.gpos() {
        let sl = gpos.script_list().map_err(|e| e.to_string())?;
        let fl = gpos.feature_list().map_err(|e| e.to_string())?;
        for sr in sl.script_records() {
            let sc = sr.script(sl.offset_data()).map_err(|e| e.to_string())?;
            let mut feats: BTreeMap<String, Vec<OLookup>> = BTreeMap::new();
            if let Some(ls) = sc.default_lang_sys() {
                let ls = ls.map_err(|e| e.to_string())?;
                for fi in ls.feature_indices() {
                    let fr = fl.feature_records().get(fi.get() as usize).ok_or("feature index out of range")?;
                    let tag = fr.feature_tag().to_string();
                    if std::env::args().any(|a| a == "--dump") {
                        eprintln!("  script {} feature {} lookups {:?}", sr.script_tag(), tag, fr.feature(fl.offset_data()).map(|f| f.lookup_list_indices().iter().map(|x| x.get()).collect::<Vec<_>>()).unwrap_or_default());
                    }
                    if !FEATURES.contains(&tag.as_str()) {
                        continue;
                    }
                    let f = fr.feature(fl.offset_data()).map_err(|e| e.to_string())?;
                    let mut idx: Vec<u16> = f.lookup_list_indices().iter().map(|x| x.get()).collect();
                    idx.sort();
                    idx.dedup();
                    for li in idx {
                        match dec.lookup(li)? {
                            Some(l) => feats.entry(tag.clone()).or_default().push(l),
                            None => return Err(format!("feature {tag} refers to lookup {li}, which is not a mark attachment lookup")),
                        }
                    }
                }
            }
            scripts.push((sr.script_tag().to_string(), feats));
        }
    }
    Ok(OFont { scripts, gdef_classes, nglyphs })
}

// ---- reference: what the property demands, from the source ------------------------------------------
fn ot_round(x: f64) -> f64 {
    (x + 0.5).floor()
}

#[derive(Clone, Debug, PartialEq)]
enum Kind {
    Base(String),
    Mark(String),
    Lig(String, usize),
    Other,
}

/// the property's reading of an anchor name (`_g` is the matching mark anchor of `g` and of `g_N`)
fn spec_kind(name: &str) -> Kind {
    if name == "entry" || name == "exit" || name.starts_with("caret_") || name.starts_with("vcaret_") {
        return Kind::Other;
    }
    let is_num = |s: &str| !s.is_empty() && s.bytes().all(|b| b.is_ascii_digit());
    if let Some(g) = name.strip_prefix('_') {
        if g.is_empty() || is_num(g) {
            return Kind::Other;
        }
        return Kind::Mark(g.to_string());
    }
    if let Some((g, n)) = name.rsplit_once('_') {
        if is_num(n) {
            return Kind::Lig(g.to_string(), n.parse().unwrap());
        }
    }
    Kind::Base(name.to_string())
}

/// Some(true): AnchorKind::Mark by the real classification
fn spec_kind_fontc(name: &str) -> Option<bool> {
    AnchorKind::new(name).ok().map(|k| matches!(k, AnchorKind::Mark(_)))
}

struct Spec {
    /// gid -> class, empty = the source classifies nothing
    classes: BTreeMap<u16, Cls>,
    /// (gid, anchors) of exported glyphs
    glyphs: Vec<(u16, String, Vec<(Kind, IrAnchor)>)>,
    used: BTreeSet<String>,
    marks: BTreeSet<u16>,
}

impl Spec {
    fn included(&self, gid: u16) -> bool {
        let inc: Vec<&u16> = self.classes.iter().filter(|(_, c)| **c != Cls::Comp).map(|(g, _)| g).collect();
        inc.is_empty() || inc.contains(&&gid)
    }
    fn new(classes: BTreeMap<u16, Cls>, glyphs: Vec<(u16, String, Vec<(Kind, IrAnchor)>)>) -> Spec {
        let mut s = Spec { classes, glyphs, used: BTreeSet::new(), marks: BTreeSet::new() };
        let mut bg = BTreeSet::new();
        let mut mg = BTreeSet::new();
        for (gid, _, anchors) in &s.glyphs {
            if !s.included(*gid) {
                continue;
            }
            for (k, _) in anchors {
                match k {
                    Kind::Base(g) | Kind::Lig(g, _) => {
                        bg.insert(g.clone());
                    }
                    Kind::Mark(g) => {
                        mg.insert(g.clone());
                    }
                    Kind::Other => {}
                }
            }
        }
        s.used = bg.intersection(&mg).cloned().collect();
        for (gid, _, anchors) in &s.glyphs {
            if !s.included(*gid) {
                continue;
            }
            let class_ok = s.classes.is_empty() || s.classes.get(gid) == Some(&Cls::Mark);
            if class_ok && anchors.iter().any(|(k, _)| matches!(k, Kind::Mark(g) if s.used.contains(g))) {
                s.marks.insert(*gid);
            }
        }
        s
    }
    fn is_base(&self, gid: u16) -> bool {
        self.included(gid) && !self.marks.contains(&gid) && (self.classes.is_empty() || self.classes.get(&gid) == Some(&Cls::Base))
    }
    fn is_lig(&self, gid: u16) -> bool {
        // a mark glyph that carries a numbered anchor is not a ligature glyph
        self.included(gid) && !self.marks.contains(&gid) && (self.classes.is_empty() || self.classes.get(&gid) == Some(&Cls::Lig))
    }
}

/// one demanded attachment: (lookup type, attaching glyph, component (0 = none), group, mark glyph)
#[derive(Clone, Debug)]
struct Want {
    ty: u16,
    base: u16,
    comp: usize,
    group: String,
    mark: u16,
    base_anchor: IrAnchor,
    mark_anchor: IrAnchor,
}

fn wants(s: &Spec) -> Vec<Want> {
    let mut out = Vec::new();
    for (b, _, banchors) in &s.glyphs {
        for (bk, ba) in banchors {
            let (ty, comp, g) = match bk {
                Kind::Base(g) if s.is_base(*b) => (4, 0, g),
                Kind::Base(g) if s.marks.contains(b) => (6, 0, g),
                // a glyph the source classifies as a mark, without a (matched) `_` anchor of its own
                Kind::Base(g) if s.included(*b) && s.classes.get(b) == Some(&Cls::Mark) => (7, 0, g),
                Kind::Lig(g, i) if s.is_lig(*b) => (5, *i, g),
                _ => continue,
            };
            for (m, _, manchors) in &s.glyphs {
                if !s.marks.contains(m) {
                    continue;
                }
                for (mk, ma) in manchors {
                    if *mk == Kind::Mark(g.clone()) {
                        out.push(Want { ty, base: *b, comp, group: g.clone(), mark: *m, base_anchor: ba.clone(), mark_anchor: ma.clone() });
                    }
                }
            }
        }
    }
    out
}

/// does the decoded anchor carry the rounded source coordinates at every master that defines it?
/// Err = (key suffix, description)
fn anchor_matches(o: &OAnchor, src: &IrAnchor, masters: &[Vec<f64>]) -> Result<u64, (&'static str, String)> {
    let mut inexact = 0;
    for (mi, x, y) in &src.pos {
        let want = (ot_round(*x), ot_round(*y));
        let got = o.at[*mi];
        let is_default = masters[*mi].iter().all(|v| *v == 0.0);
        if is_default {
            if got != want || (o.x as f64, o.y as f64) != want {
                return Err(("differs-at-default-master", format!("anchor {}: default master source ({x}, {y}) rounds to {want:?}, font has ({}, {})", src.name, o.x, o.y)));
            }
        } else {
            let (ex, ey) = ((got.0 - want.0).abs(), (got.1 - want.1).abs());
            if ex > 0.5 + 1e-9 || ey > 0.5 + 1e-9 {
                return Err(("off-by-more-than-half-at-master", format!("anchor {} at master {:?}: source ({x}, {y}) rounds to {want:?}, font evaluates to {got:?}", src.name, masters[*mi])));
            }
            if ex > 1e-9 || ey > 1e-9 {
                inexact += 1;
            }
        }
    }
    Ok(inexact)
}

fn lookup_base_anchor<'a>(l: &'a OLookup, b: u16, comp: usize) -> Option<&'a OAnchor> {
    let (_, ob) = l.bases.iter().find(|(g, _)| *g == b)?;
    match (ob, comp) {
        (OBase::One(a), 0) => Some(a),
        (OBase::Lig(v), c) if c >= 1 => v.get(c - 1).and_then(|a| a.as_ref()),
        _ => None,
    }
}

fn anchor_json(a: &IrAnchor) -> Value {
    json!({"name": a.name, "positions": a.pos})
}

fn case_json(c: &Case) -> Value {
    json!({
        "family": c.family, "kind": c.kind, "propagate": c.propagate, "langsys": c.langsys,
        "masters": c.masters.iter().map(|m| m.1.clone()).collect::<Vec<_>>(),
        "categories": format!("{:?}", c.cats),
        "glyphs": c.glyphs.iter().map(|g| json!({"name": g.name, "export": g.export, "components": g.comps,
            "anchors": g.anchors.iter().map(|a| json!({"name": a.name, "pos": a.pos})).collect::<Vec<_>>()})).collect::<Vec<_>>(),
    })
}

struct CaseOut {
    violations: Vec<(String, String)>,
    coq: Option<(String, bool, Value)>,
    /// the category recomputation of this source: (term, non-trivial)
    coq_gdef: Option<(String, bool)>,
    stats: BTreeMap<String, u64>,
}

fn run_case(c: &Case) -> CaseOut {
    let mut out = CaseOut { violations: vec![], coq: None, coq_gdef: None, stats: BTreeMap::new() };
    let mut bad = |out: &mut CaseOut, key: &str, msg: String| {
        if !out.violations.iter().any(|(k, _)| k == key) {
            out.violations.push((key.to_string(), msg));
        }
    };
    let dir = scratch_dir("c10");
    let design = build_design(c);
    let path = if c.axes.is_empty() { design.write(dir.path()) } else { design.write_designspace(dir.path()) };
    let ir_dir = dir.path().join("ir");
    std::fs::create_dir_all(&ir_dir).unwrap();
    let mut flags = Flags::default();
    if c.propagate {
        flags |= Flags::PROPAGATE_ANCHORS;
    }
    let bytes = match compile_path(&path, Some(flags), Some(ir_dir.clone())) {
        Outcome::Font(b) => b,
        Outcome::Error(msg) => {
            bad(&mut out, "mark-source-does-not-compile", format!("valid source with anchors does not compile: {msg}"));
            return out;
        }
        Outcome::Panic(msg) => {
            bad(&mut out, "mark-compile-panic", format!("fontc panicked on a valid source with anchors: {msg}"));
            return out;
        }
    };
    let masters: Vec<Vec<f64>> = c.masters.iter().map(|m| m.1.clone()).collect();
    let ir = match read_ir(&ir_dir, c) {
        Ok(i) => i,
        Err(msg) => {
            bad(&mut out, "mark-ir-unreadable", msg);
            return out;
        }
    };
    let font = match decode_font(&bytes, &masters) {
        Ok(f) => f,
        Err(msg) => {
            bad(&mut out, "mark-font-unreadable", msg);
            return out;
        }
    };
    if std::env::args().any(|a| a == "--dump") {
        eprintln!("== {} {} order {:?}\n  cats {:?}\n  ir cats {:?}", c.family, c.kind, ir.order, c.cats, ir.cats);
        for (n, a) in &ir.anchors {
            eprintln!("  ir {n}: {:?}", a.iter().map(|a| (&a.name, &a.pos)).collect::<Vec<_>>());
        }
        for (s, feats) in &font.scripts {
            for (t, ls) in feats {
                for l in ls {
                    eprintln!("  {s} {t} lookup {} type {} flags {} filter {:?}\n    marks {:?}\n    bases {:?}", l.index, l.ty, l.flags, l.filter,
                        l.marks.iter().map(|(g, a)| (g, a.x, a.y, &a.at)).collect::<Vec<_>>(), l.bases);
                }
            }
        }
        eprintln!("  gdef {:?}", font.gdef_classes);
    }
    let gid_of = |n: &str| ir.order.iter().position(|x| x == n).map(|i| i as u16);

    // (0) the category recomputation after propagation: one row per glyph (preliminary category, has an
    //     anchor that is not a mark anchor, final category); marks must stay marks
    {
        let mut rows = Vec::new();
        for g in &c.glyphs {
            let prelim = ir.prelim.iter().find(|(n, _)| *n == g.name).map(|(_, c)| *c);
            let fin = ir.cats.iter().find(|(n, _)| *n == g.name).map(|(_, c)| *c);
            let has = ir.anchors.iter().find(|(n, _)| *n == g.name).map(|(_, a)| a.iter().any(|a| !matches!(spec_kind_fontc(&a.name), Some(true)))).unwrap_or(false);
            if prelim == Some(Cls::Mark) && fin != Some(Cls::Mark) {
                bad(&mut out, "gdef-source-mark-lost-in-recomputation", format!("glyph {} is a mark before anchor propagation and {:?} after", g.name, fin));
            }
            if prelim != Some(Cls::Mark) && fin == Some(Cls::Mark) {
                bad(&mut out, "gdef-mark-invented-in-recomputation", format!("glyph {} is {:?} before anchor propagation and a mark after", g.name, prelim));
            }
            rows.push((prelim, has, fin));
        }
        let oc = |c: &Option<Cls>| coq_opt(c, |c| c.coq().to_string());
        let term = format!("gdef_table_ok {} {}", coq_bool(ir.infer_from_anchors), coq_list(&rows, |(p, h, f)| format!("(({}, {}), {})", oc(p), coq_bool(*h), oc(f))));
        out.coq_gdef = Some((term, rows.iter().any(|(p, _, f)| p.is_some() || f.is_some())));
    }

    // (1) the IR anchors are the source's anchors (no propagation: exactly; with propagation: glyphs
    //     without components exactly, simple two-component composites by the translation rule)
    for g in &c.glyphs {
        if !g.export {
            continue; // not in the font: no claim (its anchors need not reach the IR)
        }
        let irg = ir.anchors.iter().find(|(n, _)| *n == g.name).map(|(_, a)| a.clone()).unwrap_or_default();
        let mut want: Vec<IrAnchor> = Vec::new();
        let own = |g: &GSrc| -> Vec<IrAnchor> {
            g.anchors
                .iter()
                .map(|a| IrAnchor { name: a.name.clone(), pos: a.pos.iter().enumerate().filter_map(|(mi, p)| p.map(|(x, y)| (mi, x, y))).collect() })
                .collect()
        };
        if !c.propagate || g.comps.is_empty() {
            want = own(g);
        } else if g.anchors.is_empty() && g.comps.len() == 2 {
            // translation-only composite of two simple glyphs: the first component's anchors, then the
            // second's non-underscore anchors (same name: the later component wins), each moved by its offset;
            // checked only at masters where the component carries the anchor
            let cg = |n: &str| c.glyphs.iter().find(|x| x.name == n);
            if let (Some(b), Some(m)) = (cg(&g.comps[0].0), cg(&g.comps[1].0)) {
                if b.comps.is_empty() && m.comps.is_empty() && b.anchors.iter().chain(m.anchors.iter()).all(|a| a.pos.iter().all(|p| p.is_some())) {
                    for (ci, src) in [b, m].iter().enumerate() {
                        for a in &src.anchors {
                            if a.name.starts_with('_') && (ci > 0 || false) {
                                continue;
                            }
                            if ci > 0 && a.name.starts_with("entry") {
                                continue;
                            }
                            let pos: Vec<(usize, f64, f64)> = a.pos.iter().enumerate().map(|(mi, p)| (mi, p.unwrap().0 + g.comps[ci].1[mi].0, p.unwrap().1 + g.comps[ci].1[mi].1)).collect();
                            if let Some(w) = want.iter_mut().find(|w| w.name == a.name) {
                                w.pos = pos;
                            } else {
                                want.push(IrAnchor { name: a.name.clone(), pos });
                            }
                        }
                    }
                    // exit anchors of earlier components are dropped when a later one has neither `_` nor exit anchors
                    if !m.anchors.iter().any(|a| (a.name.len() >= 2 && a.name.starts_with('_')) || a.name.starts_with("exit")) {
                        // the deletion happens before the second component's anchors are inserted
                        let m_names: Vec<&String> = m.anchors.iter().map(|a| &a.name).collect();
                        want.retain(|w| !w.name.starts_with("exit") || m_names.contains(&&w.name));
                    }
                    *out.stats.entry("propagated_composites_checked".into()).or_default() += 1;
                } else {
                    continue;
                }
            } else {
                continue;
            }
        } else {
            continue;
        }
        let norm = |v: &[IrAnchor]| -> BTreeMap<String, Vec<(usize, i64, i64)>> {
            v.iter().map(|a| (a.name.clone(), a.pos.iter().map(|(m, x, y)| (*m, (x * 65536.0).round() as i64, (y * 65536.0).round() as i64)).collect())).collect()
        };
        if norm(&want) != norm(&irg) {
            let key = if g.comps.is_empty() || !c.propagate { "source-anchor-lost-or-changed-before-ir" } else { "propagated-anchor-differs-from-component-anchor" };
            bad(&mut out, key, format!("glyph {}: expected anchors {:?}, the IR has {:?}", g.name, want, irg));
        }
    }

    // (2) the source's classification
    let mut classes: BTreeMap<u16, Cls> = BTreeMap::new();
    let explicit: Vec<(String, Cls)> = match &c.cats {
        CatMode::None => vec![],
        CatMode::Lib(v) | CatMode::DsLib(v) => v.iter().filter_map(|(n, c)| c.map(|c| (n.clone(), c))).collect(),
        CatMode::Fea(v) => v.clone(),
    };
    let from_source = if !explicit.is_empty() {
        explicit.clone()
    } else if c.propagate {
        ir.cats.clone() // inferred from glyph names (GlyphData) by the front end
    } else {
        vec![]
    };
    for (n, cl) in &from_source {
        if let Some(g) = gid_of(n) {
            classes.insert(g, *cl);
        }
    }
    if !explicit.is_empty() && !matches!(c.cats, CatMode::Fea(_)) {
        let mut a = explicit.clone();
        a.sort();
        let mut b = ir.cats.clone();
        b.sort();
        if a != b {
            bad(&mut out, "source-categories-lost-or-changed-before-ir", format!("public.openTypeCategories {:?} became {:?}", a, b));
        }
    }
    let glyphs: Vec<(u16, String, Vec<(Kind, IrAnchor)>)> = ir
        .anchors
        .iter()
        .filter_map(|(n, a)| gid_of(n).map(|g| (g, n.clone(), a.iter().map(|a| (spec_kind(&a.name), a.clone())).collect())))
        .collect();
    let spec = Spec::new(classes.clone(), glyphs);
    let wants = wants(&spec);
    *out.stats.entry("attachments_demanded".into()).or_default() += wants.len() as u64;
    for w in &wants {
        *out.stats.entry(format!("attachments_type_{}", w.ty)).or_default() += 1;
    }

    // (3) every demanded attachment is in the font, with the rounded source coordinates
    let is_indic = c.kind == "e2e-indic";
    if font.scripts.is_empty() && wants.iter().any(|w| w.ty != 7) {
        bad(&mut out, "mark-feature-missing", "the source demands mark attachments but GPOS has no script".into());
    }
    let mut inexact = 0u64;
    let mut evals = 0u64;
    let no_feats: BTreeMap<String, Vec<OLookup>> = BTreeMap::new();
    let none_script = [("(no script)".to_string(), no_feats)];
    let scripts_to_check: &[(String, BTreeMap<String, Vec<OLookup>>)] = if font.scripts.is_empty() { &none_script } else { &font.scripts };
    for (script, feats) in scripts_to_check {
        for w in &wants {
            let kindname = match w.ty { 4 => "base", 5 => "ligature", 7 => "mark-without-mark-anchor", _ => "mark" };
            let w = &Want { ty: if w.ty == 7 { 6 } else { w.ty }, ..w.clone() };
            // glyphs of scripts that use abvm / blwm are attached there instead of mark / mkmk
            let tags: Vec<&str> = if w.ty == 6 { vec!["mkmk", "abvm", "blwm"] } else { vec!["mark", "abvm", "blwm"] };
            let ctx = format!("script {script}: {} glyph {} anchor {}{} and mark glyph {} anchor _{}",
                kindname, ir.order[w.base as usize], w.group, if w.comp > 0 { format!("_{}", w.comp) } else { String::new() }, ir.order[w.mark as usize], w.group);
            let mut cands: Vec<&OLookup> = Vec::new();
            for t in &tags {
                for l in feats.get(*t).map(|v| v.as_slice()).unwrap_or(&[]) {
                    let alive = l.filter.as_ref().map(|f| f.contains(&w.mark) && f.contains(&w.base)).unwrap_or(true);
                    if alive && l.ty == w.ty && l.marks.iter().any(|(g, _)| *g == w.mark) && lookup_base_anchor(l, w.base, w.comp).is_some() {
                        cands.push(l);
                    }
                }
            }
            evals += 1;
            if cands.is_empty() {
                // is there a lookup that lists the pair but whose mark filtering set drops one of the two glyphs?
                let dead = tags.iter().flat_map(|t| feats.get(*t).map(|v| v.as_slice()).unwrap_or(&[]).iter()).find(|l| {
                    l.ty == w.ty && l.marks.iter().any(|(g, _)| *g == w.mark) && lookup_base_anchor(l, w.base, w.comp).is_some()
                });
                if let Some(l) = dead {
                    bad(&mut out, "mkmk-filter-set-excludes-a-glyph-the-lookup-attaches", format!(
                        "{ctx}: lookup {} lists both glyphs, but its mark filtering set {:?} leaves out {} (a shaper skips that glyph, so the pair is never attached) and no other lookup covers the pair",
                        l.index, l.filter.as_ref().map(|f| f.iter().map(|g| ir.order[*g as usize].clone()).collect::<Vec<_>>()),
                        if l.filter.as_ref().map(|f| f.contains(&w.mark)).unwrap_or(true) { ir.order[w.base as usize].clone() } else { ir.order[w.mark as usize].clone() }));
                    continue;
                }
                let key = if kindname == "mark-without-mark-anchor" { "mark-class-glyph-without-mark-anchor-not-attachable".to_string() } else { format!("mark-{kindname}-pair-not-covered") };
                bad(&mut out, &key, format!("{ctx}: no lookup of type {} in {:?} covers the pair", w.ty, tags));
                continue;
            }
            // the pair may be covered by the lookups of several shared anchor names: one of them must carry this name's anchors
            let mut best: Option<(&'static str, String)> = None;
            let mut ok = false;
            for l in &cands {
                let ma = &l.marks.iter().find(|(g, _)| *g == w.mark).unwrap().1;
                let ba = lookup_base_anchor(l, w.base, w.comp).unwrap();
                match (anchor_matches(ba, &w.base_anchor, &masters), anchor_matches(ma, &w.mark_anchor, &masters)) {
                    (Ok(a), Ok(b)) => {
                        inexact += a + b;
                        ok = true;
                        break;
                    }
                    (Err(e), _) | (_, Err(e)) => best = Some(e),
                }
            }
            if !ok {
                let (k, msg) = best.unwrap();
                bad(&mut out, &format!("mark-anchor-{k}"), format!("{ctx}: {msg}"));
            }
        }
        // (4) nothing else is attached: every (attaching glyph, mark) entry of every lookup is demanded
        for (tag, ls) in feats {
            for l in ls {
                let want_ty_ok = match tag.as_str() { "mark" => l.ty == 4 || l.ty == 5, "mkmk" => l.ty == 6, _ => true };
                if !want_ty_ok {
                    bad(&mut out, "mark-lookup-type-in-wrong-feature", format!("script {script}: feature {tag} holds lookup {} of type {}", l.index, l.ty));
                }
                for (m, ma) in &l.marks {
                    for (b, ob) in &l.bases {
                        let comps: Vec<(usize, &OAnchor)> = match ob {
                            OBase::One(a) => vec![(0, a)],
                            OBase::Lig(v) => v.iter().enumerate().filter_map(|(i, a)| a.as_ref().map(|a| (i + 1, a))).collect(),
                        };
                        for (comp, ba) in comps {
                            let justified = wants.iter().any(|w| {
                                (w.ty == l.ty || (w.ty == 7 && l.ty == 6)) && w.base == *b && w.mark == *m && w.comp == comp
                                    && anchor_matches(ba, &w.base_anchor, &masters).is_ok() && anchor_matches(ma, &w.mark_anchor, &masters).is_ok()
                            });
                            if !justified {
                                bad(&mut out, "mark-attachment-not-in-source", format!(
                                    "script {script} feature {tag} lookup {} (type {}): attaches glyph {} to glyph {}{} with anchors {:?} / {:?}, which no shared anchor name of the source demands",
                                    l.index, l.ty, ir.order[*m as usize], ir.order[*b as usize], if comp > 0 { format!(" component {comp}") } else { String::new() }, (ma.x, ma.y), (ba.x, ba.y)));
                            }
                        }
                    }
                }
                if l.flags & 0x0008 != 0 {
                    bad(&mut out, "mark-lookup-ignores-marks", format!("lookup {} has the IGNORE_MARKS flag", l.index));
                }
            }
        }
    }
    // (6) GDEF: glyphs the source classifies as marks are GDEF marks; glyphs attached as marks are GDEF marks
    for (g, cl) in &classes {
        let got = font.gdef_classes.as_ref().and_then(|c| c.get(g)).copied().unwrap_or(0);
        if *cl == Cls::Mark && got != 3 {
            bad(&mut out, "gdef-source-mark-is-not-a-gdef-mark", format!("glyph {} is a mark in the source, GDEF class {}", ir.order[*g as usize], got));
        } else if got != *cl as u16 {
            bad(&mut out, "gdef-class-differs-from-source", format!("glyph {} is {:?} in the source, GDEF class {}", ir.order[*g as usize], cl, got));
        }
    }
    if classes.is_empty() {
        for m in &spec.marks {
            let got = font.gdef_classes.as_ref().and_then(|c| c.get(m)).copied().unwrap_or(0);
            let demanded = wants.iter().any(|w| w.mark == *m);
            if demanded && got != 3 {
                bad(&mut out, "gdef-attached-mark-is-not-a-gdef-mark", format!("glyph {} is attached as a mark (it carries a `_` anchor that bases match), GDEF class {}", ir.order[*m as usize], got));
            }
        }
    }
    *out.stats.entry("pair_evaluations".into()).or_default() += evals;
    *out.stats.entry("anchor_values_within_half_but_inexact".into()).or_default() += inexact;
    *out.stats.entry(format!("masters_{}", masters.len())).or_default() += 1;

    // ---- model side -----------------------------------------------------------------------------
    if is_indic {
        return out; // the abvm / blwm split by Unicode script is not modelled
    }
    let Some((_, feats)) = font.scripts.iter().find(|(s, _)| s == "DFLT").or(font.scripts.first()) else {
        // no GPOS: the model must produce no lookups
        out.coq = Some((coq_case(c, &ir, &classes, &masters, &[], &[]), !wants.is_empty(), json!({"lookups": 0})));
        return out;
    };
    let empty = Vec::new();
    let mark = feats.get("mark").unwrap_or(&empty);
    let mkmk = feats.get("mkmk").unwrap_or(&empty);
    out.coq = Some((coq_case(c, &ir, &classes, &masters, mark, mkmk), !wants.is_empty(), json!({"lookups": mark.len() + mkmk.len(), "attachments": wants.len()})));
    out
}

// ---- Gallina ----------------------------------------------------------------------------------------
fn coq_loc(m: &[f64]) -> String {
    format!("[{}]%Z", m.iter().map(|v| format!("{}", (v * 16384.0).round() as i64)).collect::<Vec<_>>().join("; "))
}
fn coq_oanchor(a: &OAnchor) -> String {
    format!("(({}, {}), {})", coq_z(a.x as i64), coq_z(a.y as i64), coq_list(&a.at, |p| format!("({}, {})", coq_q(p.0), coq_q(p.1))))
}
fn coq_olookup(l: &OLookup) -> String {
    format!(
        "(mkObs {}%N {} {} {})",
        l.ty,
        coq_list(&l.marks, |(g, a)| format!("({}, {})", coq_n(*g as u64), coq_oanchor(a))),
        coq_list(&l.bases, |(g, b)| format!(
            "({}, {})",
            coq_n(*g as u64),
            match b {
                OBase::One(a) => format!("OB {}", coq_oanchor(a)),
                OBase::Lig(v) => format!("OL {}", coq_list(v, |a| coq_opt(a, coq_oanchor))),
            }
        )),
        coq_opt(&l.filter, |f| coq_list(f, |g| coq_n(*g as u64)))
    )
}
fn coq_case(c: &Case, ir: &Ir, classes: &BTreeMap<u16, Cls>, masters: &[Vec<f64>], mark: &[OLookup], mkmk: &[OLookup]) -> String {
    let _ = c;
    let cl: Vec<(u16, Cls)> = classes.iter().map(|(g, c)| (*g, *c)).collect();
    let glyphs = coq_list(&ir.anchors, |(n, anchors)| {
        let gid = ir.order.iter().position(|x| x == n).map(|i| i as u64);
        format!(
            "({}, {})",
            coq_opt(&gid, |g| coq_n(*g)),
            coq_list(anchors, |a| format!(
                "({}, {})",
                coq_str(&a.name),
                coq_list(&a.pos, |(mi, x, y)| format!("({}, ({}, {}))", coq_loc(&masters[*mi]), coq_q(*x), coq_q(*y)))
            ))
        )
    });
    format!(
        "e2e_ok {} {} {} {} {}",
        coq_list(&cl, |(g, c)| format!("({}, {})", coq_n(*g as u64), c.coq())),
        glyphs,
        coq_list(masters, |m| coq_loc(m)),
        coq_list(mark, coq_olookup),
        coq_list(mkmk, coq_olookup)
    )
}

/// `--order-probe N`: compile two fixed sources N times in process with anchor propagation on and report how
/// many distinct fonts / IR anchor files come out (the order of a composite's propagated anchors in the IR
/// depends on a HashMap's iteration order when an anchor is missing at some location).
fn order_probe(n: usize) {
    // SAFETY: single-threaded at this point; keeps head.created / modified out of the comparison
    unsafe { std::env::set_var("SOURCE_DATE_EPOCH", "0") };
    let two = |a: Option<(f64, f64)>, b: Option<(f64, f64)>| vec![a, b];
    let g = |name: &str, uni: u32, anchors: Vec<(&str, Vec<Option<(f64, f64)>>)>, comps: Vec<(&str, (f64, f64))>| GSrc {
        name: name.into(),
        uni: if uni == 0 { None } else { Some(uni) },
        anchors: anchors.into_iter().map(|(n, pos)| ASrc { name: n.into(), pos }).collect(),
        comps: comps.into_iter().map(|(b, o)| (b.to_string(), vec![o, o])).collect(),
        export: true,
    };
    let axes = vec![AxisSrc { name: "Weight".into(), tag: "wght".into(), min: 0.0, default: 0.0, max: 1000.0, ..Default::default() }];
    let masters = vec![(vec![("Weight".to_string(), 0.0)], vec![0.0]), (vec![("Weight".to_string(), 1000.0)], vec![1.0])];
    let sources = vec![
        // a composite whose first component's first anchor is missing in the second master
        ("composite", "Aacute", Case {
            family: "C10Order1".into(), axes: axes.clone(), masters: masters.clone(),
            glyphs: vec![
                g("A", 0x41, vec![("bottom", two(Some((300.0, 0.0)), None)), ("top", two(Some((300.0, 700.0)), Some((310.0, 710.0))))], vec![]),
                g("acutecomb", 0x301, vec![("_top", two(Some((100.0, 500.0)), Some((100.0, 500.0))))], vec![]),
                g("Aacute", 0xC1, vec![], vec![("A", (0.0, 0.0)), ("acutecomb", (200.0, 200.0))]),
            ],
            cats: CatMode::None, propagate: true, langsys: false, kind: "order-probe",
        }),
        // a composite ligature with two carets of its own, the first missing in the second master
        ("ligature-carets", "f_i", Case {
            family: "C10Order2".into(), axes, masters,
            glyphs: vec![
                g("f", 0x66, vec![("top", two(Some((150.0, 700.0)), Some((150.0, 700.0))))], vec![]),
                g("i", 0x69, vec![("top", two(Some((100.0, 700.0)), Some((100.0, 700.0))))], vec![]),
                g("acutecomb", 0x301, vec![("_top", two(Some((100.0, 500.0)), Some((100.0, 500.0))))], vec![]),
                g("f_i", 0xFB01, vec![("caret_1", two(Some((300.0, 0.0)), None)), ("caret_2", two(Some((450.0, 0.0)), Some((460.0, 0.0))))],
                  vec![("f", (0.0, 0.0)), ("i", (300.0, 0.0))]),
            ],
            cats: CatMode::None, propagate: true, langsys: false, kind: "order-probe",
        }),
    ];
    for (label, glyph, c) in &sources {
        let mut fonts: BTreeMap<u64, usize> = BTreeMap::new();
        let mut irs: BTreeMap<String, usize> = BTreeMap::new();
        let mut tables: BTreeMap<String, BTreeSet<u64>> = BTreeMap::new();
        for _ in 0..n {
            let dir = scratch_dir("c10o");
            let path = build_design(c).write_designspace(dir.path());
            let ir_dir = dir.path().join("ir");
            std::fs::create_dir_all(&ir_dir).unwrap();
            let bytes = match compile_path(&path, Some(Flags::default() | Flags::PROPAGATE_ANCHORS), Some(ir_dir.clone())) {
                Outcome::Font(b) => b,
                other => {
                    eprintln!("{label}: {other:?}");
                    continue;
                }
            };
            let h = |b: &[u8]| b.iter().fold(0xcbf29ce484222325u64, |h, x| (h ^ *x as u64).wrapping_mul(0x100000001b3));
            *fonts.entry(h(&bytes)).or_default() += 1;
            if let Ok(f) = FontRef::new(&bytes) {
                for rec in f.table_directory.table_records() {
                    if let Some(d) = f.table_data(rec.tag()) {
                        tables.entry(rec.tag().to_string()).or_default().insert(h(d.as_bytes()));
                    }
                }
            }
            let f = FePaths::target_file(&ir_dir, &FeWorkId::Anchor(GlyphName::new(glyph)));
            let names: Vec<String> = std::fs::read_to_string(&f).unwrap_or_default().lines().filter(|l| l.contains("original_name")).map(|l| l.trim().to_string()).collect();
            *irs.entry(names.join(" ")).or_default() += 1;
            // whole-file view: the composite's anchor file and a simple glyph's anchor file
            for gname in [glyph.to_string(), c.glyphs[0].name.clone()] {
                let f = FePaths::target_file(&ir_dir, &FeWorkId::Anchor(GlyphName::new(&gname)));
                tables.entry(format!("ir-anchor-file:{gname}")).or_default().insert(h(&std::fs::read(&f).unwrap_or_default()));
            }
        }
        let varying: Vec<&String> = tables.iter().filter(|(_, v)| v.len() > 1).map(|(k, _)| k).collect();
        println!("{}", json!({"probe": label, "builds": n, "distinct_fonts": fonts.len(), "tables_that_vary": varying,
            "ir_anchor_orders": irs.iter().map(|(k, v)| json!({"order": k, "builds": v})).collect::<Vec<_>>()}));
    }
}

fn main() {
    quiet_panics();
    let args: Vec<String> = std::env::args().collect();
    let args = &args[1..];
    if args.iter().any(|a| a == "--order-probe") {
        order_probe(arg_val(args, "--order-probe", 12) as usize);
        return;
    }
    let seed = arg_val(args, "--seed", 1);
    let n_names = arg_val(args, "--names", 400) as usize;
    let n = arg_val(args, "--n", 100) as usize;
    let only = args.iter().position(|a| a == "--only").and_then(|i| args.get(i + 1)).and_then(|v| v.parse::<usize>().ok());
    let mut rng = Rng::new(seed);
    let mut id = 0usize;
    let mut stats: BTreeMap<String, u64> = BTreeMap::new();
    run_names(&mut rng, &mut id, n_names, &mut stats);

    let mut cases: Vec<Case> = corpus();
    let ncorpus = cases.len();
    cases.extend((0..n).map(|k| gen_case(&mut rng, k)));
    let _ = ncorpus;
    let nthreads = std::thread::available_parallelism().map(|n| n.get()).unwrap_or(4).min(8);
    let results: Vec<Option<CaseOut>> = {
        let next = std::sync::atomic::AtomicUsize::new(0);
        let slots: Vec<std::sync::Mutex<Option<CaseOut>>> = (0..cases.len()).map(|_| std::sync::Mutex::new(None)).collect();
        std::thread::scope(|s| {
            for _ in 0..nthreads {
                s.spawn(|| loop {
                    let k = next.fetch_add(1, std::sync::atomic::Ordering::SeqCst);
                    if k >= cases.len() {
                        break;
                    }
                    if only.is_some() && only != Some(k) {
                        continue;
                    }
                    let r = std::panic::catch_unwind(|| run_case(&cases[k]));
                    *slots[k].lock().unwrap() = Some(match r {
                        Ok(o) => o,
                        Err(_) => CaseOut { violations: vec![("harness-panic".into(), "the harness panicked on this case".into())], coq: None, coq_gdef: None, stats: BTreeMap::new() },
                    });
                });
            }
        });
        slots.into_iter().map(|m| m.into_inner().unwrap()).collect()
    };
    for (k, r) in results.into_iter().enumerate() {
        let Some(r) = r else { continue };
        let c = &cases[k];
        for (key, msg) in &r.violations {
            emit_violation(key, msg.clone(), json!({"case": k, "input": case_json(c)}));
            *stats.entry(format!("violation_{key}")).or_default() += 1;
        }
        for (s, v) in &r.stats {
            *stats.entry(s.clone()).or_default() += v;
        }
        if let Some((coq, nontrivial)) = r.coq_gdef {
            emit_case(id, "gdef-table", coq.clone(), None, nontrivial, format!("g:{coq}"), json!({"case": k, "source": c.kind}));
            id += 1;
        }
        if let Some((coq, nontrivial, extra)) = r.coq {
            let mut e = extra;
            e["case"] = json!(k);
            e["masters"] = json!(c.masters.len());
            e["glyphs"] = json!(c.glyphs.len());
            emit_case(id, c.kind, coq, None, nontrivial, format!("e:{}:{:?}", c.kind, case_json(c).to_string()), e);
            id += 1;
        } else {
            *stats.entry(format!("no_model_term_{}", c.kind)).or_default() += 1;
        }
    }
    let extra = stats.get("pair_evaluations").copied().unwrap_or(0);
    let mut v = json!({"extra_evaluations": extra});
    for (k, x) in &stats {
        v[k] = json!(x);
    }
    emit_stat(v);
}
