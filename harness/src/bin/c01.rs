//! C01: repeatable builds. Every source is compiled several times in separate processes (fresh
//! hash seeds each time) with different worker-thread counts and SOURCE_DATE_EPOCH fixed; all
//! outputs must be byte-identical. The timestamp model is tied to head.created/modified.
use serde_json::json;
use std::collections::BTreeMap;
use std::path::{Path, PathBuf};
use std::process::Command;
use vh::srcgen::*;
use vh::*;

fn corpus() -> Vec<PathBuf> {
    let td = Path::new("/repo/resources/testdata");
    let mut v = Vec::new();
    let mut push_dir = |d: &Path| {
        if let Ok(rd) = std::fs::read_dir(d) {
            let mut ps: Vec<PathBuf> = rd.flatten().map(|e| e.path()).collect();
            ps.sort();
            for p in ps {
                let ext = p.extension().and_then(|e| e.to_str()).unwrap_or("");
                if matches!(ext, "designspace" | "glyphs" | "glyphspackage" | "ufo") {
                    v.push(p);
                }
            }
        }
    };
    push_dir(td);
    for sub in ["glyphs2", "glyphs3", "dspace_rules", "HVVAR", "COLRv0-var", "designspace_from_glyphs"] {
        push_dir(&td.join(sub));
    }
    v
}

/// Generated sources aimed at hash-order and schedule sensitivity: many glyphs, kerning with groups,
/// anchors, repeated name strings, feature code, several masters, rules.
fn generated(rng: &mut Rng, k: usize) -> Design {
    let n_glyphs = rng.range(8, 40) as usize;
    let mut glyphs = vec![GlyphSrc::new(".notdef", 500.0).rect(50., 0., 450., 700.), GlyphSrc::new("a", 600.0).uni(0x61).rect(10., 0., 300., 400.).anchor("top", 150., 420.)];
    let mut names = vec!["a".to_string()];
    for i in 0..n_glyphs {
        let name = format!("g{i}");
        let mut g = GlyphSrc::new(&name, 400.0 + 7.0 * i as f64);
        if i < 60 {
            // several scripts, so that kerning is split per script and merged again (seed C01-1)
            g = g.uni(match i % 3 {
                0 => 0x100 + i as u32,          // Latin
                1 => 0x410 + i as u32,          // Cyrillic
                _ => if i < 24 { 0x3B1 + i as u32 } else { 0x100 + i as u32 }, // Greek
            });
        }
        match rng.below(4) {
            0 | 1 => g = g.rect(0., 0., 100. + i as f64, 200. + i as f64),
            2 => {
                let b = rng.pick(&names).clone();
                g = g.comp(&b, [1., 0., 0., 1., 10. * i as f64, 0.]);
            }
            _ => {
                let b = rng.pick(&names).clone();
                g = g.rect(0., 0., 50., 50.).comp(&b, [1., 0., 0., 1., 60., 0.]);
            }
        }
        if rng.chance(1, 3) {
            g = g.anchor("top", 100., 400.);
        }
        if rng.chance(1, 6) {
            g = g.anchor("_top", 50., 380.);
        }
        names.push(name);
        glyphs.push(g);
    }
    let mut des = Design::single(&format!("Rep{k}"), glyphs);
    // kerning with groups: many pairs so that unordered iteration would show
    let mut kerning = Vec::new();
    let mut groups = Vec::new();
    let half = names.len() / 2;
    groups.push(("public.kern1.L".to_string(), names[..half.min(6)].to_vec()));
    groups.push(("public.kern2.R".to_string(), names[half..(half + 6).min(names.len())].to_vec()));
    kerning.push(("public.kern1.L".to_string(), "public.kern2.R".to_string(), -25.0));
    // class-to-glyph / glyph-to-class pairs over the cross-script groups, with glyph-glyph exceptions
    // of a different value (first-wins insertion order decides which value reaches the font)
    for _ in 0..rng.range(1, 5) {
        let b = rng.pick(&names).clone();
        let v = rng.range(-60, -10) as f64;
        kerning.push(("public.kern1.L".to_string(), b.clone(), v));
        let m = rng.pick(&groups[0].1).clone();
        kerning.push((m, b.clone(), v + 20.0));
        let a = rng.pick(&names).clone();
        kerning.push((a.clone(), "public.kern2.R".to_string(), v - 3.0));
        let m2 = rng.pick(&groups[1].1).clone();
        kerning.push((a, m2, v + 11.0));
    }
    for _ in 0..rng.range(4, 30) {
        let a = rng.pick(&names).clone();
        let b = rng.pick(&names).clone();
        kerning.push((a, b, rng.range(-60, 60) as f64));
    }
    kerning.sort_by(|x, y| (x.0.clone(), x.1.clone()).cmp(&(y.0.clone(), y.1.clone())));
    kerning.dedup_by(|x, y| x.0 == y.0 && x.1 == y.1);
    des.masters[0].kerning = kerning.clone();
    des.masters[0].groups = groups.clone();
    if rng.chance(1, 3) {
        let skip: Vec<String> = names.iter().skip(1).filter(|_| rng.chance(1, 8)).cloned().collect();
        des.masters[0].skip_export = skip;
    }
    if rng.chance(1, 2) {
        des.masters[0].features = Some("languagesystem DFLT dflt;\nlanguagesystem latn dflt;\nfeature liga { sub a g0 by g1; } liga;\nfeature ss01 { featureNames { name \"Alt\"; }; sub a by g2; } ss01;\n".to_string());
        // overlapping mark attachment classes: the class of the shared glyph must not depend on hash order
        if des.masters[0].skip_export.is_empty() && rng.chance(1, 2) {
            des.masters[0].features.as_mut().unwrap().push_str("@MA = [g0 g1 g2 g3];\n@MB = [g2 g3 g4];\n@MC = [g3 g4 g5 g0];\nfeature ss06 { lookup ma { lookupflag MarkAttachmentType @MA; sub a by g1; } ma; lookup mb { lookupflag MarkAttachmentType @MB; sub g1 by g2; } mb; lookup mc { lookupflag MarkAttachmentType @MC; sub g2 by g3; } mc; } ss06;\n");
        }
    }
    if rng.chance(3, 4) {
        des.axes.push(AxisSrc { name: "Weight".into(), tag: "wght".into(), min: 400., default: 400., max: 900., ..Default::default() });
        let two_axes = rng.chance(1, 3);
        if two_axes {
            des.axes.push(AxisSrc { name: "Width".into(), tag: "wdth".into(), min: 75., default: 100., max: 100., ..Default::default() });
        }
        // several features varied under one condition set: the substitution records of one
        // FeatureVariationRecord come from a HashMap in fea-rs
        if des.masters[0].skip_export.is_empty() && rng.chance(2, 3) {
            if let Some(f) = des.masters[0].features.as_mut() {
                f.push_str("conditionset heavy { wght 700 900; } heavy;\nvariation ss02 heavy { sub a by g0; } ss02;\nvariation ss03 heavy { sub a by g1; } ss03;\nvariation ss04 heavy { sub a by g2; } ss04;\nvariation ss05 heavy { sub a by g3; } ss05;\nvariation liga heavy { sub a g1 by g2; } liga;\n");
            }
        }
        let base = des.masters[0].clone();
        des.masters[0].location = if two_axes { vec![("Weight".into(), 400.), ("Width".into(), 100.)] } else { vec![("Weight".into(), 400.)] };
        let mut add = |name: &str, loc: Vec<(String, f64)>, dw: f64, des: &mut Design, rng: &mut Rng| {
            let mut m = base.clone();
            m.name = name.into();
            m.style = name.into();
            m.location = loc;
            for g in m.glyphs.iter_mut() {
                g.advance += dw;
                for c in g.contours.iter_mut() {
                    for p in c.iter_mut() {
                        p.0 += dw / 4.0;
                    }
                }
            }
            for kp in m.kerning.iter_mut() {
                kp.2 -= rng.range(0, 9) as f64;
            }
            des.masters.push(m);
        };
        if two_axes {
            add("Bold", vec![("Weight".into(), 900.), ("Width".into(), 100.)], 60.0, &mut des, rng);
            add("Condensed", vec![("Weight".into(), 400.), ("Width".into(), 75.)], -40.0, &mut des, rng);
        } else {
            add("Bold", vec![("Weight".into(), 900.)], 60.0, &mut des, rng);
            if rng.chance(1, 2) {
                add("Medium", vec![("Weight".into(), 600.)], 25.0, &mut des, rng);
            }
            // every second single-axis design: glyphs that mix a contour and a component exist only at the outer masters,
            // their bases at two more: the composite is interpolated at >= 2 missing locations when it is turned into a
            // simple glyph (batch_interpolate_missing; the locations come out of a HashSet)
            if k % 2 == 0 {
                add("Semi", vec![("Weight".into(), 750.)], 40.0, &mut des, rng);
                if des.masters.len() < 4 {
                    add("Book", vec![("Weight".into(), 500.)], 12.0, &mut des, rng);
                }
                for m in des.masters.iter_mut().skip(2) {
                    m.glyphs.retain(|g| g.components.is_empty() || g.contours.is_empty());
                }
            }
        }
        // instances whose names repeat other name strings (name-id reuse paths)
        des.instances.push(InstanceSrc { family: des.family.clone(), style: "Regular".into(), postscript: None, location: des.masters[0].location.clone() });
        des.instances.push(InstanceSrc { family: des.family.clone(), style: "Bold".into(), postscript: Some("Rep-Bold".into()), location: des.masters[1].location.clone() });
        if rng.chance(1, 2) {
            des.rules.push(RuleSrc { name: "r".into(), condsets: vec![vec![("Weight".into(), Some(700.), None)]], subs: vec![("a".into(), "g0".into())] });
        }
    }
    des
}

fn child(path: &str, out: &str) -> i32 {
    quiet_panics();
    match compile_path(Path::new(path), None, None) {
        Outcome::Font(b) => {
            std::fs::write(out, b).expect("write font");
            0
        }
        Outcome::Error(e) => {
            eprintln!("error: {e}");
            3
        }
        Outcome::Panic(e) => {
            eprintln!("panic: {e}");
            4
        }
    }
}

fn table_dir_diff(a: &[u8], b: &[u8]) -> Vec<String> {
    let mut out = Vec::new();
    if let (Some((_, da)), Some((_, db))) = (sfnt::directory(a), sfnt::directory(b)) {
        let ma: BTreeMap<String, &sfnt::TableRec> = da.iter().map(|r| (sfnt::tag_str(&r.tag), r)).collect();
        let mb: BTreeMap<String, &sfnt::TableRec> = db.iter().map(|r| (sfnt::tag_str(&r.tag), r)).collect();
        for (t, ra) in &ma {
            match mb.get(t) {
                None => out.push(format!("{t} missing in second")),
                Some(rb) => {
                    let xa = a.get(ra.offset as usize..(ra.offset + ra.length) as usize);
                    let xb = b.get(rb.offset as usize..(rb.offset + rb.length) as usize);
                    if xa != xb {
                        out.push(t.clone());
                    }
                }
            }
        }
        for t in mb.keys() {
            if !ma.contains_key(t) {
                out.push(format!("{t} missing in first"));
            }
        }
    }
    out
}

/// The variation model is rebuilt from the same location set several times in this process (every HashSet / HashMap gets
/// fresh hash keys) and asked for rounded deltas of the same master values: model and deltas must be identical bit for bit.
/// Interior masters at positions that are not exact in binary make the order of floating-point operations visible (seed C01-2).
fn varmodel_stream(rng: &mut Rng, n: usize) -> serde_json::Value {
    use fontdrasil::coords::{NormalizedCoord, NormalizedLocation};
    use fontdrasil::types::Tag;
    use fontdrasil::variations::{RoundingBehaviour, VariationModel};
    use std::collections::{HashMap, HashSet};
    use std::str::FromStr;
    const TAGS: [&str; 3] = ["wght", "wdth", "opsz"];
    let (mut sets, mut value_trials, mut differing_models) = (0usize, 0usize, 0usize);
    // a rendering of a region that does not depend on hash order (its Debug output does: it holds a HashSet)
    let all_axes: Vec<Tag> = TAGS.iter().map(|t| Tag::from_str(t).unwrap()).collect();
    let region_key = |r: &fontdrasil::variations::VariationRegion| -> String {
        all_axes.iter().map(|t| format!("{:?}", r.get(t))).collect::<Vec<_>>().join("|")
    };
    for _ in 0..n {
        let n_axes = rng.range(2, 3) as usize;
        let d: i64 = *rng.pick(&[5, 10, 20, 25, 12, 16]);
        let axes: Vec<Tag> = TAGS[..n_axes].iter().map(|t| Tag::from_str(t).unwrap()).collect();
        let mut locs: Vec<Vec<i64>> = vec![vec![0; n_axes]];
        for a in 0..n_axes {
            let mut l = vec![0; n_axes];
            l[a] = d;
            locs.push(l);
        }
        for _ in 0..rng.range(2, 5) {
            locs.push((0..n_axes).map(|_| rng.range(1, d)).collect());
        }
        if rng.chance(1, 2) {
            locs.push(vec![d; n_axes]);
        }
        let mut seen = HashSet::new();
        locs.retain(|l| seen.insert(l.clone()));
        let nlocs: Vec<NormalizedLocation> =
            locs.iter().map(|l| axes.iter().zip(l).map(|(t, c)| (*t, NormalizedCoord::new(*c as f64 / d as f64))).collect()).collect();
        sets += 1;
        let models: Vec<VariationModel> = (0..6)
            .map(|k| {
                let set: HashSet<NormalizedLocation> = if k % 2 == 0 { nlocs.iter().cloned().collect() } else { nlocs.iter().rev().cloned().collect() };
                VariationModel::new(set, axes.clone())
            })
            .collect();
        let models_differ = models.iter().any(|m| *m != models[0]);
        if models_differ {
            differing_models += 1;
        }
        // master values for which the rounded deltas differ between two constructions: the concrete failing input
        let mut found = None;
        let trials = if models_differ { 4000 } else { 40 };
        for _ in 0..trials {
            value_trials += 1;
            let vals: Vec<f64> = nlocs.iter().map(|_| rng.range(-40, 40) as f64).collect();
            let seqs: HashMap<NormalizedLocation, Vec<f64>> = nlocs.iter().cloned().zip(vals.iter().map(|v| vec![*v])).collect();
            let ds: Vec<String> = models
                .iter()
                .map(|m| match m.deltas_with_rounding::<f64, f64>(&seqs, RoundingBehaviour::RoundTiesEven) {
                    Ok(d) => {
                        let mut v: Vec<String> = d.iter().map(|(r, x)| format!("{}={:?}", region_key(r), x.iter().map(|f| f.to_bits()).collect::<Vec<_>>())).collect();
                        v.sort();
                        v.join(";")
                    }
                    Err(e) => format!("error {e}"),
                })
                .collect();
            if let Some(other) = ds.iter().position(|x| *x != ds[0]) {
                let plain = |m: &VariationModel| -> Vec<f64> {
                    let mut out: Vec<(String, f64)> = m.deltas_with_rounding::<f64, f64>(&seqs, RoundingBehaviour::RoundTiesEven).map(|d| d.iter().map(|(r, x)| (region_key(r), x[0])).collect()).unwrap_or_default();
                    out.sort_by(|a, b| a.0.cmp(&b.0));
                    out.into_iter().map(|x| x.1).collect()
                };
                found = Some((vals.clone(), plain(&models[0]), plain(&models[other])));
                break;
            }
        }
        if let Some((vals, a, b)) = found {
            emit_violation(
                "varmodel-deltas-depend-on-hash-order",
                format!("the variation model built twice in one process from the masters {:?} / {} gives different rounded deltas for the master values {:?}: {:?} vs {:?} (these deltas are written to gvar / HVAR / MVAR as they are)", locs, d, vals, a, b),
                json!({"locations": locs, "denominator": d, "values": vals, "deltas_a": a, "deltas_b": b}),
            );
        } else if models_differ {
            emit_violation(
                "varmodel-depends-on-hash-order",
                format!("the variation model built twice in one process from the masters {:?} / {} differs (delta weights / regions); no master values with differing rounded deltas were found in {} trials", locs, d, trials),
                json!({"locations": locs, "denominator": d, "found_input": false}),
            );
        }
    }
    json!({"varmodel_location_sets": sets, "varmodel_value_trials": value_trials, "varmodel_sets_with_differing_models": differing_models})
}

fn main() {
    let args: Vec<String> = std::env::args().collect();
    if args.get(1).map(|s| s.as_str()) == Some("--child") {
        std::process::exit(child(&args[2], &args[3]));
    }
    let seed = arg_val(&args, "--seed", 1);
    let n_gen = arg_val(&args, "--n", 12) as usize;
    let corpus_max = arg_val(&args, "--corpus", 30) as usize;
    let builds = arg_val(&args, "--builds", 6) as usize;
    let mut rng = Rng::new(seed);
    let exe = std::env::current_exe().expect("current exe");
    let scratch = scratch_dir("c01");
    let mut sources: Vec<(String, PathBuf)> = Vec::new();
    let mut all = corpus();
    // a deterministic, seed-dependent sample of the corpus
    rng.shuffle(&mut all);
    for p in all.into_iter().take(corpus_max) {
        sources.push((p.file_name().unwrap().to_string_lossy().into_owned(), p));
    }
    // regression source for the repaired hash-order defect (DESIGN 6.3): family, style and default
    // instance all named "Regular" - before the fix 8 builds gave two different fonts
    {
        let mut des = Design::single("Regular", vec![GlyphSrc::new(".notdef", 500.0).rect(50., 0., 450., 700.), GlyphSrc::new("a", 600.0).uni(0x61).rect(10., 0., 300., 400.)]);
        des.axes.push(AxisSrc { name: "Weight".into(), tag: "wght".into(), min: 400., default: 400., max: 700., ..Default::default() });
        let mut m2 = des.masters[0].clone();
        m2.name = "Bold".into();
        m2.style = "Bold".into();
        des.masters[0].location = vec![("Weight".into(), 400.)];
        m2.location = vec![("Weight".into(), 700.)];
        m2.glyphs[1].advance = 700.0;
        des.masters.push(m2);
        des.instances.push(InstanceSrc { family: "Regular".into(), style: "Regular".into(), postscript: None, location: vec![("Weight".into(), 400.)] });
        des.instances.push(InstanceSrc { family: "Regular".into(), style: "Bold".into(), postscript: None, location: vec![("Weight".into(), 700.)] });
        let d = scratch.path().join("regular-regular");
        let p = des.write(&d);
        sources.push(("fixed-regular-regular".to_string(), p));
    }
    for k in 0..n_gen {
        let des = generated(&mut rng, k);
        let d = scratch.path().join(format!("gen{k}"));
        let p = des.write(&d);
        sources.push((format!("generated-{k}"), p));
    }
    let threads = ["1", "2", "16", "3", "8", "16"];
    let epoch: i64 = 1_600_000_000 + (seed as i64 % 1000);
    let mut id = 0usize;
    let mut total_builds = 0usize;
    let mut unbuildable = 0usize;
    for (name, path) in &sources {
        let mut outs: Vec<(String, Vec<u8>)> = Vec::new();
        let mut failed = false;
        // run the builds of one source in parallel processes
        let mut kids = Vec::new();
        for b in 0..builds {
            let out = scratch.path().join(format!("out-{id}-{b}.ttf"));
            let t = threads[b % threads.len()];
            let kid = Command::new(&exe)
                .arg("--child")
                .arg(path)
                .arg(&out)
                .env("RAYON_NUM_THREADS", t)
                .env("SOURCE_DATE_EPOCH", epoch.to_string())
                .stderr(std::process::Stdio::null())
                .spawn()
                .expect("spawn child");
            kids.push((kid, out, t));
        }
        for (mut kid, out, t) in kids {
            let st = kid.wait().expect("wait");
            total_builds += 1;
            if !st.success() {
                failed = true;
                continue;
            }
            outs.push((t.to_string(), std::fs::read(&out).unwrap_or_default()));
            let _ = std::fs::remove_file(&out);
        }
        if failed || outs.is_empty() {
            if !outs.is_empty() {
                // some builds of the same source succeeded and some failed: that is itself non-repeatable
                emit_violation("nondeterministic-outcome", format!("{name}: {} of {builds} identical builds failed while the others succeeded", builds - outs.len()), json!({"source": name}));
            } else {
                unbuildable += 1;
                if std::env::var("VERIF_C01_WHY").is_ok() {
                    let o = Command::new(&exe).arg("--child").arg(path).arg(scratch.path().join("why.ttf")).output().expect("spawn child");
                    eprintln!("does not compile: {name}: {}", String::from_utf8_lossy(&o.stderr).lines().last().unwrap_or(""));
                }
            }
            continue;
        }
        let first = &outs[0].1;
        let mut differing: Vec<String> = Vec::new();
        for (t, o) in &outs[1..] {
            if o != first {
                differing.push(format!("threads={t}: tables {:?}", table_dir_diff(first, o)));
            }
        }
        if !differing.is_empty() {
            let tables: Vec<String> = table_dir_diff(first, &outs.iter().find(|(_, o)| o != first).unwrap().1);
            let key = if tables.iter().any(|t| t == "name" || t == "fvar" || t == "STAT") && tables.iter().all(|t| ["name", "fvar", "STAT", "head"].contains(&t.as_str())) {
                "nondeterministic-name-ids"
            } else {
                "nondeterministic-output"
            };
            emit_violation(key, format!("{name}: {} of {} builds of the same source with SOURCE_DATE_EPOCH fixed differ from the first: {}", differing.len(), outs.len(), differing.join("; ")),
                json!({"source": name, "path": path, "differing_tables": tables}));
        }
        // timestamps: head.created / head.modified are a function of SOURCE_DATE_EPOCH only
        let head = sfnt::table(first, b"head");
        let (created, modified) = match head {
            Some(h) if h.len() >= 36 => (
                i64::from_be_bytes(h[20..28].try_into().unwrap()),
                i64::from_be_bytes(h[28..36].try_into().unwrap()),
            ),
            _ => (0, 0),
        };
        // head.created may come from the source (openTypeHeadCreated); head.modified is always the build time
        // name records as the font has them: (platform, encoding, language, name id); the model sorts them from two other
        // arrival orders and must reproduce the font's order (name_order_ok)
        let name_keys: Vec<String> = match sfnt::table(first, b"name") {
            Some(t) if t.len() >= 6 => {
                let count = sfnt::be16(t, 2).unwrap_or(0) as usize;
                (0..count)
                    .filter_map(|i| {
                        let o = 6 + 12 * i;
                        Some(format!("({},{},{},{})", sfnt::be16(t, o)?, sfnt::be16(t, o + 2)?, sfnt::be16(t, o + 4)?, sfnt::be16(t, o + 6)?))
                    })
                    .collect()
            }
            _ => Vec::new(),
        };
        // table directory tags as big-endian numbers, in file order
        let dir_tags: Vec<String> = sfnt::directory(first).map(|(_, d)| d.iter().map(|r| u32::from_be_bytes(r.tag).to_string()).collect()).unwrap_or_default();
        let coq = format!("(andb (andb (Z.eqb (head_timestamp (Some {}) 12345%Z) {}) (name_order_ok [{}]%N)) (dir_order_ok [{}]%N))", coq_z(epoch), coq_z(modified), name_keys.join(";"), dir_tags.join(";"));
        emit_case(id, if name.starts_with("generated") { "generated" } else { "corpus" }, coq, None, true, name.clone(),
            json!({"source": name, "builds": outs.len(), "bytes": first.len(), "identical": differing.is_empty(), "head_created": created, "name_records": name_keys.len(), "tables": dir_tags.len()}));
        id += 1;
    }
    let vm = varmodel_stream(&mut rng, arg_val(&args, "--varmodel", 80) as usize);
    emit_stat(vm);
    emit_stat(json!({"sources": sources.len(), "builds": total_builds, "sources_that_do_not_compile": unbuildable, "thread_counts": threads, "extra_evaluations": total_builds}));
}
