//! C13 probe (temporary)
use fea_rs::parse::{parse_root, SourceLoadError};
use fea_rs::{GlyphMap};
use std::collections::HashMap;
use std::path::{Path, PathBuf};
use std::sync::Arc;

fn parse_files(files: &[(&str, &str)], root: &str, gm: Option<&GlyphMap>) {
    let map: HashMap<String, Arc<str>> = files.iter().map(|(k, v)| (k.to_string(), Arc::from(*v))).collect();
    let r = std::panic::catch_unwind(|| {
        parse_root(
            PathBuf::from(root),
            gm,
            Box::new(move |p: &Path| {
                map.get(p.to_str().unwrap()).cloned().ok_or_else(|| SourceLoadError::new(p.to_path_buf(), "nope"))
            }),
        )
    });
    match r {
        Err(_) => println!("PANIC on {:?}", files),
        Ok(Err(e)) => println!("load error {e}"),
        Ok(Ok((tree, diags))) => {
            let cat: String = tree.root().iter_tokens().map(|t| t.as_str()).collect();
            println!("input {:?}\n  concat {:?} root_len {}", files, cat, tree.root().text_len());
            for d in diags.diagnostics() {
                println!("  diag {:?} {:?} {}", d.level, d.span(), d.text());
            }
        }
    }
}

fn main() {
    parse_files(&[("r", "languagesystem DFLT dflt;\0feature liga { sub a by b; } liga;")], "r", None);
    parse_files(&[("r", "feature liga { sub a by b }")], "r", None);
    parse_files(&[("r", "include(a)")], "r", None);
    parse_files(&[("r", "lookup foo é")], "r", None);
    parse_files(&[("r", "feature liga { sub a by b é")], "r", None);
    let gm = GlyphMap::new(["a", "b", "a-b", "c"]).unwrap();
    parse_files(&[("r", "feature liga { sub a--b by c; sub [a--b] by c; } liga;")], "r", Some(&gm));
    parse_files(&[("r", "feature liga { sub [a---c] by c;\n sub x by c; } liga;")], "r", Some(&gm));
    parse_files(&[("r", "feature kern { pos a ${x-12.5}; } kern;")], "r", None);
    parse_files(&[("r", "feature kern { pos a ${x-1.}; } kern;")], "r", None);
    parse_files(&[("r", "feature kern { pos a ${x-1.55}; } kern;")], "r", None);
    parse_files(&[("r", "feature liga { sub a by [b]é; } liga;")], "r", None);
    parse_files(&[("r", "include(r);")], "r", None);
    parse_files(&[("r", "include(b);"), ("b", "include(r);")], "r", None);
}
