//! C13: the feature-file front end is total and lossless.
//!
//! Streams (all randomness from one `Rng`, seeded by --seed):
//!  P  direct property checks on the real `fea_rs::parse::parse_root` (+ `compile::validate`):
//!     corpus, mutated corpus, grammar-generated text, token soup; with and without a glyph map.
//!  L  lexer cases: the real `Lexer` (hook) against the model `lex`.
//!  D  primitive-driving cases: the real `Parser`/`AstSink` primitives (hook) driven with
//!     generated call sequences against the model `run`.
//!  I  include graphs: the real include resolution against the model `validate`/`generate`.
use fea_rs::parse::{parse_root, SourceLoadError};
use fea_rs::{GlyphMap, Node, NodeOrToken};
use serde_json::json;
use std::collections::{BTreeMap, HashMap};
use std::path::{Path, PathBuf};
use std::sync::atomic::{AtomicU64, Ordering};
use std::sync::{Arc, Mutex};
use vh::*;

// ---------------------------------------------------------------------------
// panic capture and watchdog

static LAST_PANIC: Mutex<Option<(String, String)>> = Mutex::new(None); // (location file, message)
static CASE_START_MS: AtomicU64 = AtomicU64::new(0);
static CURRENT_INPUT: Mutex<String> = Mutex::new(String::new());
static HANG_KEY: Mutex<String> = Mutex::new(String::new());

fn now_ms() -> u64 {
    use std::time::{SystemTime, UNIX_EPOCH};
    SystemTime::now().duration_since(UNIX_EPOCH).unwrap().as_millis() as u64
}

fn install_hooks() {
    std::panic::set_hook(Box::new(|info| {
        // a panic is not a hang: stop the watchdog clock while the (slow) backtrace is taken
        CASE_START_MS.store(0, Ordering::SeqCst);
        let loc = info.location().map(|l| l.file().to_string()).unwrap_or_default();
        let msg = if let Some(s) = info.payload().downcast_ref::<&str>() {
            s.to_string()
        } else if let Some(s) = info.payload().downcast_ref::<String>() {
            s.clone()
        } else {
            "?".to_string()
        };
        // innermost fea_rs function on the stack: names the failing site
        let bt = std::backtrace::Backtrace::force_capture().to_string();
        let site = bt
            .lines()
            .filter_map(|l| l.trim().split_once(": ").map(|x| x.1.to_string()))
            .find(|f| f.starts_with("fea_rs::") || f.starts_with("<fea_rs::"))
            .unwrap_or_default();
        let site = site.split("::").filter(|p| !p.starts_with('h') || p.len() != 17).collect::<Vec<_>>().join("::");
        *LAST_PANIC.lock().unwrap() = Some((format!("{loc} in {site}"), msg));
    }));
    std::thread::spawn(|| loop {
        std::thread::sleep(std::time::Duration::from_millis(500));
        let st = CASE_START_MS.load(Ordering::SeqCst);
        if st != 0 && now_ms().saturating_sub(st) > 8_000 {
            let input = CURRENT_INPUT.lock().map(|s| s.clone()).unwrap_or_default();
            let key = HANG_KEY.lock().map(|s| s.clone()).unwrap_or_default();
            emit_violation(
                if key.is_empty() { "front-end-hang" } else { &key },
                format!("the feature-file front end did not return within 8 s (it normally takes milliseconds); input {}", trunc(&input, 300)),
                json!({"input": input}),
            );
            std::process::exit(0);
        }
    });
}

fn guarded<T>(input_desc: impl FnOnce() -> String, f: impl FnOnce() -> T) -> Result<T, (String, String)> {
    *CURRENT_INPUT.lock().unwrap() = input_desc();
    CASE_START_MS.store(now_ms(), Ordering::SeqCst);
    *LAST_PANIC.lock().unwrap() = None;
    let r = std::panic::catch_unwind(std::panic::AssertUnwindSafe(f));
    CASE_START_MS.store(0, Ordering::SeqCst);
    r.map_err(|_| LAST_PANIC.lock().unwrap().take().unwrap_or_default())
}

fn slug(s: &str) -> String {
    let mut out = String::new();
    for w in s.split(|c: char| !c.is_ascii_alphabetic()).filter(|w| !w.is_empty()).take(5) {
        if !out.is_empty() {
            out.push('-');
        }
        out.push_str(&w.to_ascii_lowercase());
    }
    out
}

fn panic_key(prefix: &str, loc: &str, msg: &str) -> String {
    let (file, site) = loc.split_once(" in ").unwrap_or((loc, ""));
    let stem = Path::new(file).file_stem().map(|s| s.to_string_lossy().to_string()).unwrap_or_default();
    let site: String = site
        .trim_start_matches('<')
        .replace("fea_rs::", "")
        .chars()
        .map(|c| if c.is_ascii_alphanumeric() || c == '_' { c } else { '.' })
        .collect::<String>()
        .split('.')
        .filter(|p| !p.is_empty())
        .collect::<Vec<_>>()
        .join(".");
    if site.is_empty() {
        return format!("{prefix}-panic-{}-{}", stem, slug(msg));
    }
    if prefix == "validate" && site.starts_with("token_tree.typed.") && msg.contains("Option::unwrap()") {
        // one class: a typed-AST accessor assumes a child that the (error-free) tree does not have
        return "validate-panic-typed-accessor-unwrap-none".to_string();
    }
    format!("{prefix}-panic-in-{}", site)
}

// ---------------------------------------------------------------------------
// text generators

const GLYPHS: &[&str] = &[
    "a", "b", "c", "d", "e", "f", "i", "x", "y", "z", "a.alt", "f_i", "one", "two", "A", "B", "acute", "grave", "a-b",
    "zero", "hyphen", "space", "o", "n", "u",
];

fn glyph_map() -> GlyphMap {
    GlyphMap::new(GLYPHS.iter().copied()).unwrap()
}

fn pick_s<'a>(rng: &mut Rng, v: &[&'a str]) -> &'a str {
    v[rng.below(v.len() as u64) as usize]
}

fn gname(rng: &mut Rng) -> String {
    match rng.below(40) {
        0 => "a-z".to_string(),   // a range when a glyph map is present
        1 => "a--b".to_string(),  // doubled hyphen
        2 => "a-b-c".to_string(), // ambiguous range
        3 => "\\a".to_string(),
        4 => "\\12".to_string(),
        5 => "NULL".to_string(),
        6 => "q".to_string(), // not in the map
        _ => pick_s(rng, GLYPHS).to_string(),
    }
}

fn gclass(rng: &mut Rng) -> String {
    match rng.below(6) {
        0 => "@CLS".to_string(),
        1 => format!("[{} - {}]", gname(rng), gname(rng)),
        2 => format!("[{}-{}]", pick_s(rng, &["a", "b", "one"]), pick_s(rng, &["c", "z", "two"])),
        _ => {
            let n = rng.range(1, 4);
            let v: Vec<String> = (0..n).map(|_| gname(rng)).collect();
            format!("[{}]", v.join(" "))
        }
    }
}

fn gitem(rng: &mut Rng) -> String {
    if rng.chance(1, 4) { gclass(rng) } else { gname(rng) }
}

fn num(rng: &mut Rng) -> String {
    match rng.below(14) {
        0 => "0".into(),
        1 => "-0".into(),
        2 => "00".into(),
        3 => "0x1F".into(),
        4 => "0x".into(),
        5 => "1.5".into(),
        6 => "-2.".into(),
        7 => "10n".into(),
        8 => "32768".into(),
        9 => "-99999999999999999999".into(),
        _ => rng.range(-300, 300).to_string(),
    }
}

fn metric(rng: &mut Rng) -> String {
    match rng.below(16) {
        0 => "$pad".into(),
        1 => format!("${{pad {} {}}}", pick_s(rng, &["+", "-", "*", "/"]), num(rng)),
        2 => format!("${{pad-{}}}", pick_s(rng, &["2", "x", "1.5", "12.5", "1.", "a-b", "/2", "é"])),
        3 => format!("${{{}-{}}}", rng.range(1, 30), rng.range(1, 30)),
        6 => format!("${{pad {}b-c}}", pick_s(rng, &["", " ", "#é\n", "# c\n "])),
        // identifiers with multi-byte characters before an unspaced '-' or '/' (seed C13-1)
        7 => format!("${{{}{}{}}}", pick_s(rng, &["pé", "a中", "largéur", "x\u{1F600}y", "é", "_ß", "p\u{301}"]),
                     pick_s(rng, &["-", "/", "--", "-/"]), pick_s(rng, &["2", "b", "é", "1.5", "b-c", ""])),
        4 => "(wght=100:10 wght=900:20)".into(),
        5 => format!("(wght={}:{} wdth=5u:{})", num(rng), num(rng), num(rng)),
        _ => num(rng),
    }
}

fn value_record(rng: &mut Rng) -> String {
    match rng.below(6) {
        0 => format!("<{} {} {} {}>", metric(rng), metric(rng), metric(rng), metric(rng)),
        1 => "<VR1>".into(),
        2 => "<NULL>".into(),
        _ => metric(rng),
    }
}

fn anchor(rng: &mut Rng) -> String {
    match rng.below(6) {
        0 => "<anchor NULL>".into(),
        1 => "<anchor ANCHOR1>".into(),
        2 => format!("<anchor {} {} contourpoint {}>", metric(rng), metric(rng), rng.range(0, 9)),
        _ => format!("<anchor {} {}>", metric(rng), metric(rng)),
    }
}

fn seq(rng: &mut Rng, lo: i64, hi: i64) -> String {
    let n = rng.range(lo, hi);
    (0..n).map(|_| gitem(rng)).collect::<Vec<_>>().join(" ")
}

fn marked(rng: &mut Rng, with_lookups: bool, with_values: bool) -> String {
    let n = rng.range(1, 3);
    (0..n)
        .map(|_| {
            let mut s = format!("{}'", gitem(rng));
            if with_lookups && rng.chance(1, 3) {
                for _ in 0..rng.range(1, 2) {
                    s.push_str(&format!(" lookup L{}", rng.range(1, 2)));
                }
            } else if with_values && rng.chance(1, 3) {
                s.push(' ');
                s.push_str(&value_record(rng));
            }
            s
        })
        .collect::<Vec<_>>()
        .join(" ")
}

fn statement(rng: &mut Rng) -> String {
    match rng.below(44) {
        0 => format!("sub {} by {};", gitem(rng), gitem(rng)),
        1 => format!("sub {} by {};", seq(rng, 2, 3), gname(rng)),
        2 => format!("sub {} from {};", gname(rng), gclass(rng)),
        3 => format!("sub {} by {};", gname(rng), seq(rng, 2, 3)),
        4 => format!("sub {} by NULL;", gitem(rng)),
        5 | 6 | 7 => format!("sub {} {} {} by {};", seq(rng, 0, 2), marked(rng, false, false), seq(rng, 0, 2), seq(rng, 1, 2)),
        8 | 9 => format!("sub {} {} {};", seq(rng, 0, 2), marked(rng, true, false), seq(rng, 0, 2)),
        10 => format!("ignore sub {} {} {}, {} {};", seq(rng, 0, 2), marked(rng, false, false), seq(rng, 0, 1), seq(rng, 1, 2), marked(rng, false, false)),
        11 => format!("ignore sub {};", seq(rng, 1, 3)),
        12 => format!("rsub {} {}' {} by {};", seq(rng, 0, 2), gitem(rng), seq(rng, 0, 2), gitem(rng)),
        13 => format!("sub {}' from {};", gname(rng), gclass(rng)),
        14 => format!("pos {} {};", gitem(rng), value_record(rng)),
        15 => format!("pos {} {} {};", gitem(rng), gitem(rng), value_record(rng)),
        16 => format!("enum pos {} {} {};", gitem(rng), gitem(rng), value_record(rng)),
        17 => format!("pos {} {} {} {};", gitem(rng), value_record(rng), gitem(rng), value_record(rng)),
        18 | 19 | 20 => format!("pos {} {} {};", seq(rng, 0, 2), marked(rng, true, true), seq(rng, 0, 2)),
        21 => format!("pos {} {}' {} {};", seq(rng, 0, 1), gitem(rng), seq(rng, 1, 2), value_record(rng)),
        22 => format!("ignore pos {} {} {};", seq(rng, 0, 2), marked(rng, false, false), seq(rng, 0, 2)),
        23 => format!("pos base {} {} mark @TOP;", gitem(rng), anchor(rng)),
        24 => format!("pos cursive {} {} {};", gitem(rng), anchor(rng), anchor(rng)),
        25 => format!("pos mark {} {} mark @TOP {} mark @TOP;", gitem(rng), anchor(rng), anchor(rng)),
        26 => format!("pos ligature {} {} mark @TOP ligComponent {} ;", gname(rng), anchor(rng), anchor(rng)),
        27 => format!("lookupflag {};", pick_s(rng, &["0", "IgnoreMarks", "RightToLeft IgnoreLigatures", "MarkAttachmentType @CLS", "UseMarkFilteringSet [acute]", "7"])),
        28 => format!("script {};", pick_s(rng, &["latn", "DFLT", "cyrl", "toolong", "é"])),
        29 => format!("language {} {};", pick_s(rng, &["DEU", "dflt", "TRK "]), pick_s(rng, &["", "exclude_dflt", "include_dflt", "required"])),
        30 => "subtable;".into(),
        31 => format!("lookup L{};", rng.range(1, 3)),
        32 => format!("@C{} = {};", rng.range(1, 3), gclass(rng)),
        33 => format!("markClass {} {} @TOP;", gitem(rng), anchor(rng)),
        34 => format!("parameters {} {} {} {};", num(rng), num(rng), num(rng), num(rng)),
        35 => format!("sizemenuname {};", pick_s(rng, &["\"Win\"", "3 \"Win\"", "1 0 0 \"Mac\"", "\"unterminated"])),
        36 => "featureNames { name \"Feature\"; name 3 1 0x409 \"F\"; };".into(),
        37 => "cvParameters { FeatUILabelNameID { name \"x\"; }; Character 0x61; };".into(),
        38 => format!("lookup IN{} {{ {} }} IN{};", rng.range(1, 2), statement(rng), rng.range(1, 2)),
        39 => format!("include({});", pick_s(rng, &["inc1.fea", "inc2.fea", "missing.fea", " inc1.fea ", "", "  "])),
        40 => format!("feature {};", pick_s(rng, &["liga", "kern"])),
        41 => format!("sub {} {}' {} by {};", gitem(rng), gitem(rng), gitem(rng), pick_s(rng, &["NULL", "a b", "[a b]"])),
        42 => format!("pos {}' {} {}' {};", gitem(rng), value_record(rng), gitem(rng), value_record(rng)),
        _ => format!("# comment {}\n", gname(rng)),
    }
}

fn top_level(rng: &mut Rng) -> String {
    match rng.below(24) {
        0 => format!("languagesystem {} {};", pick_s(rng, &["DFLT", "latn", "cyrl"]), pick_s(rng, &["dflt", "DEU ", "TRK"])),
        1 => format!("@CLS = {};", gclass(rng)),
        2 => format!("markClass {} {} @TOP;", gitem(rng), anchor(rng)),
        3 => {
            let n = rng.range(1, 4);
            let body: Vec<String> = (0..n).map(|_| statement(rng)).collect();
            let name = format!("L{}", rng.range(1, 3));
            format!("lookup {name} {}{{\n  {}\n}} {name};", if rng.chance(1, 5) { "useExtension " } else { "" }, body.join("\n  "))
        }
        4..=11 => {
            let n = rng.range(1, 6);
            let body: Vec<String> = (0..n).map(|_| statement(rng)).collect();
            let tag = pick_s(rng, &["liga", "kern", "ss01", "cv01", "size", "aalt", "mark", "calt"]);
            format!("feature {tag} {{\n  {}\n}} {tag};", body.join("\n  "))
        }
        12 => "table GDEF {\n  GlyphClassDef [a b], [f_i], [acute grave], ;\n  Attach a 1 2;\n  LigatureCaretByPos f_i 300;\n} GDEF;".into(),
        13 => format!("table head {{ FontRevision {}; }} head;", num(rng)),
        14 => format!("table hhea {{ Ascender {}; Descender {}; LineGap {}; CaretOffset 1; }} hhea;", num(rng), num(rng), num(rng)),
        15 => "table OS/2 { TypoAscender 800; Panose 1 2 3 4 5 6 7 8 9 0; Vendor \"ABCD\"; UnicodeRange 0 1 2; winAscent 900; XHeight 500; } OS/2;".into(),
        16 => "table name { nameid 1 \"Family\"; nameid 9 3 1 0x409 \"X\"; } name;".into(),
        17 => "table BASE { HorizAxis.BaseTagList ideo romn; HorizAxis.BaseScriptList latn romn -120 0, cyrl romn -120 0; } BASE;".into(),
        18 => "table STAT { ElidedFallbackName { name \"Regular\"; }; DesignAxis wght 0 { name \"Weight\"; }; AxisValue { location wght 400; name \"Regular\"; flag ElidableAxisValueName; }; } STAT;".into(),
        19 => format!("anchorDef {} {} ANCHOR1;", num(rng), num(rng)),
        20 => format!("valueRecordDef {} VR1;", value_record(rng)),
        21 => format!("anon {0} {{ {1} }} {0};", pick_s(rng, &["foo", "bar"]), pick_s(rng, &["junk ; } foo", "a b c", "} bar ;", ""])),
        22 => format!("include({}){}", pick_s(rng, &["inc1.fea", "inc2.fea", "missing.fea", " inc1.fea "]), if rng.chance(3, 4) { ";" } else { "" }),
        _ => "conditionset heavy { wght 600 900; } heavy;\nvariation rvrn heavy { sub a by a.alt; } rvrn;".into(),
    }
}

fn gen_fea(rng: &mut Rng) -> String {
    let n = rng.range(1, 6);
    let mut s = String::new();
    for _ in 0..n {
        s.push_str(&top_level(rng));
        s.push_str(pick_s(rng, &["\n", "\n", "\n\n", " ", "", " # c\n", "\r\n"]));
    }
    s
}

const SOUP: &[&str] = &[
    "feature", "lookup", "sub", "pos", "by", "from", "ignore", "rsub", "enum", "table", "include", "include(", "(", ")",
    "{", "}", "[", "]", "<", ">", ";", ";", ";", ",", "'", "-", "=", "@CLS", "@", "\\", "\\a", "\\1", "a", "b", "a-b",
    "a--b", "f_i", "liga", "kern", "0", "0x", "0x1f", "012", "-5", "1.5", "5n", "\"s\"", "\"open", "#c\n", "\n", " ", "  ",
    "\t", "$", "${", "$pad", "*", "+", "/", ":", "anchor", "mark", "NULL", "markClass", "anon", "languagesystem", "script",
    "language", "é", "中", "𝐀", "aé", "\0", "lookupflag", "useExtension", "contourpoint", "device", "name", "nameid",
    "anchorDef", "valueRecordDef", "conditionset", "variation", "base", "ligature", "ligComponent", "cursive", "GDEF",
    "head", "OS/2", "wght=1:2", "DFLT", "dflt",
];

fn gen_soup(rng: &mut Rng) -> String {
    let n = rng.range(1, 40);
    let mut s = String::new();
    for _ in 0..n {
        s.push_str(pick_s(rng, SOUP));
        if rng.chance(2, 3) {
            s.push(' ');
        }
    }
    s
}

/// character-level mutation that keeps the text valid UTF-8
fn mutate(rng: &mut Rng, text: &str, max_mut: i64) -> String {
    let mut chars: Vec<char> = text.chars().collect();
    let n = rng.range(1, max_mut);
    for _ in 0..n {
        let len = chars.len();
        let at = if len == 0 { 0 } else { rng.below(len as u64 + 1) as usize };
        match rng.below(10) {
            0 | 1 => {
                if at < len {
                    chars.remove(at);
                }
            }
            2 | 3 | 4 => {
                let ins = pick_s(rng, SOUP);
                for (k, c) in ins.chars().enumerate() {
                    chars.insert((at + k).min(chars.len()), c);
                }
            }
            5 => {
                if at < len {
                    chars[at] = *rng.pick(&[';', '{', '}', '\'', '-', '"', '#', '\\', '(', ')', '0', 'é', '\0', ' ', '\n', '<', '>', '[', ']', '@', '$']);
                }
            }
            6 => chars.truncate(at),
            7 => {
                // duplicate a span
                if len > 0 {
                    let a = rng.below(len as u64) as usize;
                    let b = (a + rng.range(1, 12) as usize).min(len);
                    let span: Vec<char> = chars[a..b].to_vec();
                    for (k, c) in span.into_iter().enumerate() {
                        chars.insert((at + k).min(chars.len()), c);
                    }
                }
            }
            8 => {
                // delete a span
                if len > 0 {
                    let a = rng.below(len as u64) as usize;
                    let b = (a + rng.range(1, 12) as usize).min(len);
                    chars.drain(a..b);
                }
            }
            _ => {
                // swap two characters
                if len > 1 {
                    let a = rng.below(len as u64) as usize;
                    let b = rng.below(len as u64) as usize;
                    chars.swap(a, b);
                }
            }
        }
    }
    chars.into_iter().collect()
}

fn window(rng: &mut Rng, text: &str, max: usize) -> String {
    if text.len() <= max {
        return text.to_string();
    }
    let mut a = rng.below((text.len() - max) as u64) as usize;
    while !text.is_char_boundary(a) {
        a += 1;
    }
    let mut b = (a + max).min(text.len());
    while !text.is_char_boundary(b) {
        b -= 1;
    }
    text[a..b].to_string()
}

fn load_corpus() -> Vec<(String, String)> {
    fn walk(dir: &Path, out: &mut Vec<(String, String)>) {
        let mut entries: Vec<_> = match std::fs::read_dir(dir) {
            Ok(r) => r.filter_map(|e| e.ok()).map(|e| e.path()).collect(),
            Err(_) => return,
        };
        entries.sort();
        for p in entries {
            if p.is_dir() {
                walk(&p, out);
            } else if p.extension().map(|e| e == "fea").unwrap_or(false) {
                if let Ok(s) = std::fs::read_to_string(&p) {
                    out.push((p.to_string_lossy().to_string(), s));
                }
            }
        }
    }
    let mut out = Vec::new();
    walk(Path::new("/repo/fea-rs/test-data"), &mut out);
    out
}

// ---------------------------------------------------------------------------
// stream P: direct property checks on the real parser

struct Parsed {
    concat: String,
    n_diag: usize,
    has_errors: bool,
    diag_problems: Vec<(String, String)>, // (key, description)
    pos_problem: Option<String>,
    include_msgs: Vec<(String, usize, String)>, // (file, start, message) of include errors
    validate_panic: Option<(String, String)>,
    tree_files: Vec<String>,
}

fn run_parse(files: &BTreeMap<String, String>, root: &str, gm: Option<&GlyphMap>, do_validate: bool) -> Result<Parsed, (String, String)> {
    let map: HashMap<String, Arc<str>> = files.iter().map(|(k, v)| (k.clone(), Arc::from(v.as_str()))).collect();
    let desc_files = files.clone();
    let root_s = root.to_string();
    guarded(
        move || json!({"files": desc_files, "root": root_s}).to_string(),
        || {
            let map2 = map.clone();
            let (tree, diags) = parse_root(
                PathBuf::from(root),
                gm,
                Box::new(move |p: &Path| {
                    map2.get(p.to_str().unwrap_or("")).cloned().ok_or_else(|| SourceLoadError::new(p.to_path_buf(), "no such file"))
                }),
            )
            .expect("root source exists");
            let concat: String = tree.root().iter_tokens().map(|t| t.as_str()).collect();
            let mut diag_problems = Vec::new();
            let mut include_msgs = Vec::new();
            for d in diags.diagnostics() {
                let src = tree.get_source(d.message.file);
                let (name, text) = match src {
                    Some(s) => (s.path().to_string_lossy().to_string(), s.text().to_string()),
                    None => {
                        diag_problems.push(("diag-unknown-file".to_string(), format!("diagnostic {:?} names a file that is not in the source list", d.text())));
                        continue;
                    }
                };
                let r = d.span();
                if d.text().contains("cyclical include") || d.text().contains("maximum include depth") {
                    include_msgs.push((name.clone(), r.start, d.text().to_string()));
                }
                if r.start > r.end {
                    diag_problems.push(("diag-range-reversed".into(), format!("diagnostic {:?} has range {:?}", d.text(), r)));
                } else if r.end > text.len() {
                    let key = if r.start == text.len() && r.end == text.len() + 1 { "diag-range-past-end-of-source" } else { "diag-range-outside-source" };
                    diag_problems.push((key.into(), format!("diagnostic {:?} in {:?} has range {:?} but the source has {} bytes", d.text(), name, r, text.len())));
                } else if !text.is_char_boundary(r.start) || !text.is_char_boundary(r.end) {
                    diag_problems.push(("diag-range-splits-character".into(), format!("diagnostic {:?} in {:?} has range {:?} which is not on character boundaries", d.text(), name, r)));
                }
            }
            // positions: token ranges tile [0, root.text_len)
            let mut pos_problem = None;
            let mut at = 0usize;
            for t in tree.root().iter_tokens() {
                let r = t.range();
                if r.start != at || r.end != at + t.as_str().len() {
                    pos_problem = Some(format!("token {:?} has range {:?}, expected start {}", t.as_str(), r, at));
                    break;
                }
                at = r.end;
            }
            if pos_problem.is_none() && at != tree.root().text_len() {
                pos_problem = Some(format!("tokens end at {} but the root node has length {}", at, tree.root().text_len()));
            }
            let has_errors = diags.has_errors();
            let mut validate_panic = None;
            if do_validate && !has_errors {
                let g = gm.cloned().unwrap_or_else(glyph_map);
                *LAST_PANIC.lock().unwrap() = None;
                let r = std::panic::catch_unwind(std::panic::AssertUnwindSafe(|| {
                    let v = fea_rs::compile::validate(&tree, &g, None::<&fea_rs::compile::NopVariationInfo>);
                    v.len()
                }));
                if r.is_err() {
                    validate_panic = Some(LAST_PANIC.lock().unwrap().take().unwrap_or_default());
                }
            }
            let mut tree_files = Vec::new();
            let _ = &mut tree_files;
            Parsed { concat, n_diag: diags.len(), has_errors, diag_problems, pos_problem, include_msgs, validate_panic, tree_files }
        },
    )
}

struct PStats {
    parses: usize,
    error_free: usize,
    validated: usize,
    with_diags: usize,
    by_kind: BTreeMap<String, usize>,
}

fn check_text(kind: &str, text: &str, rng: &mut Rng, st: &mut PStats) {
    let mut files = BTreeMap::new();
    files.insert("root.fea".to_string(), text.to_string());
    files.insert("inc1.fea".to_string(), "sub a by b;\n".to_string());
    files.insert("inc2.fea".to_string(), "@INC = [a b];\n".to_string());
    let has_include = text.contains("include");
    let gm = glyph_map();
    let with_map = rng.chance(1, 2);
    for pass in 0..2 {
        let use_map = (pass == 0) == with_map;
        let gmo = if use_map { Some(&gm) } else { None };
        *st.by_kind.entry(format!("{kind}{}", if use_map { "+glyphmap" } else { "" })).or_default() += 1;
        st.parses += 1;
        match run_parse(&files, "root.fea", gmo, use_map) {
            Err((loc, msg)) => {
                emit_violation(
                    &panic_key("parse", &loc, &msg),
                    format!("parsing panicked at {loc}: {msg}; input {:?}", trunc(text, 200)),
                    json!({"input": text, "glyph_map": use_map, "kind": kind}),
                );
            }
            Ok(p) => {
                if p.n_diag > 0 {
                    st.with_diags += 1;
                }
                if !p.has_errors {
                    st.error_free += 1;
                    if use_map {
                        st.validated += 1;
                    }
                }
                // lossless (when nothing was spliced in)
                let spliced = has_include && p.concat != text && (p.concat.contains("sub a by b;\n") || p.concat.contains("@INC = [a b];\n"));
                if !spliced && p.concat != text {
                    let key = if text.contains('\0') {
                        "lossless-nul-byte-ends-parse"
                    } else if use_map && text.contains("--") {
                        "lossless-glyph-range-split-drops-hyphens"
                    } else {
                        "lossless-tree-text-differs"
                    };
                    let at = p.concat.bytes().zip(text.bytes()).take_while(|(a, b)| a == b).count();
                    emit_violation(
                        key,
                        format!("token texts concatenate to {} bytes but the input has {} bytes (first difference at byte {}); input {:?}", p.concat.len(), text.len(), at, trunc(text, 200)),
                        json!({"input": text, "glyph_map": use_map, "kind": kind, "tree_text": p.concat}),
                    );
                }
                for (key, desc) in &p.diag_problems {
                    emit_violation(key, format!("{desc}; input {:?}", trunc(text, 200)), json!({"input": text, "glyph_map": use_map, "kind": kind}));
                }
                if let Some(pp) = &p.pos_problem {
                    emit_violation("positions-inconsistent", format!("{pp}; input {:?}", trunc(text, 200)), json!({"input": text, "glyph_map": use_map, "kind": kind}));
                }
                if let Some((loc, msg)) = &p.validate_panic {
                    emit_violation(
                        &panic_key("validate", loc, msg),
                        format!("validation of an error-free parse tree panicked at {loc}: {msg}; input {:?}", trunc(text, 200)),
                        json!({"input": text, "glyph_map": use_map, "kind": kind}),
                    );
                }
                let _ = &p.tree_files;
                let _ = &p.include_msgs;
            }
        }
    }
}

fn trunc(s: &str, n: usize) -> String {
    if s.len() <= n {
        return s.to_string();
    }
    let mut e = n;
    while !s.is_char_boundary(e) {
        e -= 1;
    }
    format!("{}…", &s[..e])
}

// ---------------------------------------------------------------------------
// Gallina printers

fn coq_bytes(b: &[u8]) -> String {
    format!("[{}]%N", b.iter().map(|x| x.to_string()).collect::<Vec<_>>().join(";"))
}
fn coq_tree(t: &NodeOrToken) -> String {
    match t {
        NodeOrToken::Token(t) => format!("Tok {}%N {}", t.kind as u16, coq_bytes(t.as_str().as_bytes())),
        NodeOrToken::Node(n) => coq_node(n),
    }
}
fn coq_node(n: &Node) -> String {
    let ch: Vec<String> = n.iter_children().map(coq_tree).collect();
    format!("Nd {}%N {} {} [{}]", n.kind() as u16, n.text_len(), coq_bool(n.error), ch.join("; "))
}

// ---------------------------------------------------------------------------
// stream L: lexer cases

fn lexer_case(id: &mut usize, kind: &str, text: &str) {
    let t = text.to_string();
    let r = guarded(|| json!({"lex": t}).to_string(), || Node::verif_lex(text));
    match r {
        Err((loc, msg)) => emit_violation(&panic_key("lexer", &loc, &msg), format!("the lexer panicked at {loc}: {msg}"), json!({"input": text})),
        Ok(lx) => {
            // property predicate on the implementation: lengths tile the input, every lexeme
            // is non-empty, boundaries are character boundaries
            let mut pos = 0usize;
            let mut bad = None;
            for (k, l) in &lx {
                if *l == 0 {
                    bad = Some(format!("empty lexeme of kind {k} at {pos}"));
                    break;
                }
                pos += l;
                if pos > text.len() || !text.is_char_boundary(pos) {
                    bad = Some(format!("lexeme of kind {k} ends at {pos}, not a character boundary inside the input"));
                    break;
                }
            }
            if bad.is_none() && pos != text.len() {
                bad = Some(format!("lexemes cover {pos} of {} bytes", text.len()));
            }
            if let Some((_, at)) = lx.iter().scan(0usize, |p, (k, l)| { let at = *p; *p += l; Some((*k, at)) }).find(|(k, _)| *k == 0) {
                // the parser stops at the first Eof lexeme: everything after it would be dropped
                emit_violation("lexer-eof-lexeme-inside-input", format!("the lexer yields an Eof lexeme at byte {at} of {}; input {:?}", text.len(), trunc(text, 200)), json!({"input": text}));
            }
            if let Some(b) = bad {
                emit_violation("lexer-lexemes-do-not-tile-input", format!("{b}; input {:?}", trunc(text, 200)), json!({"input": text}));
            }
            let impl_l = format!("[{}]", lx.iter().map(|(k, l)| format!("({}%N,{})", k, l)).collect::<Vec<_>>().join(";"));
            let coq = format!("lex_matches {} {}", coq_bytes(text.as_bytes()), impl_l);
            let show = format!("lex {}", coq_bytes(text.as_bytes()));
            emit_case(*id, kind, coq, Some(show), lx.len() > 1, format!("L:{text}"), json!({"input": text, "impl_lexemes": lx}));
            *id += 1;
        }
    }
}

// ---------------------------------------------------------------------------
// stream D: drive the primitives

type Op = (u8, usize, usize, Vec<(usize, usize, u16)>);

const K_WS: u16 = 10;
const K_COMMENT: u16 = 11;
const K_BACKSLASH: u16 = 15;
const K_HYPHEN: u16 = 16;
const K_GLYPHNAME: u16 = 126;
const K_GLYPHNAMEORRANGE: u16 = 127;
const K_GSUB_REWRITE: u16 = 131;
const K_GPOS_REWRITE: u16 = 142;
const NODE_KINDS: &[u16] = &[120, 123, 128, 129, 130, 133, 140, 144, 150, 165, 166, 170, 131, 142];

fn is_trivia_k(k: u16) -> bool {
    k == K_WS || k == K_COMMENT || k == K_BACKSLASH
}

struct OpGen<'a> {
    text: &'a str,
    toks: Vec<(u16, usize, usize)>, // non-trivia lexemes: (kind, start, len)
    consumed: usize,
    ops: Vec<Op>,
    open: usize,
}

impl<'a> OpGen<'a> {
    fn new(text: &'a str) -> Self {
        let lx = Node::verif_lex(text);
        let mut toks = Vec::new();
        let mut pos = 0;
        for (k, l) in lx {
            if !is_trivia_k(k) {
                toks.push((k, pos, l));
            }
            pos += l;
        }
        OpGen { text, toks, consumed: 0, ops: Vec::new(), open: 0 }
    }
    fn cur(&self) -> (u16, usize, usize) {
        self.toks.get(self.consumed).copied().unwrap_or((0, self.text.len(), 0))
    }
    fn eat(&mut self, rng: &mut Rng) {
        let (k, start, len) = self.cur();
        let txt = &self.text[start.min(self.text.len())..(start + len).min(self.text.len())];
        match rng.below(12) {
            0 | 1 => {
                // remap; idents with hyphens become GlyphNameOrRange as in eat_and_validate_glyph_name
                let kind = if k == 1 && txt.contains('-') { K_GLYPHNAMEORRANGE } else if k == 1 { K_GLYPHNAME } else { *rng.pick(&[1u16, 126, 127, 44, 121]) };
                self.ops.push((5, kind as usize, 1, vec![]));
                self.consumed += 1;
            }
            2 if len >= 2 && rng.chance(1, 2) => {
                // split the current token
                let mut cuts: Vec<usize> = vec![0, len];
                for _ in 0..rng.range(1, 2) {
                    cuts.push(rng.below(len as u64 + 1) as usize);
                }
                cuts.sort();
                cuts.dedup();
                let mut parts: Vec<(usize, usize, u16)> = cuts.windows(2).map(|w| (w[0], w[1], *rng.pick(&[1u16, K_HYPHEN, 4, K_WS, 119, 232]))).collect();
                match rng.below(12) {
                    0 => {
                        parts.pop();
                    }
                    1 => {
                        if let Some(p) = parts.first_mut() {
                            p.0 += 1;
                        }
                    }
                    2 => parts.clear(),
                    _ => {}
                }
                let n_parts = parts.len();
                self.ops.push((6, 0, 0, parts));
                if n_parts > 0 {
                    self.consumed += 1;
                }
            }
            3 if rng.chance(1, 6) => {
                let n = rng.range(2, 3) as usize;
                self.ops.push((5, *rng.pick(&[1u16, 126, 4]) as usize, n, vec![]));
                self.consumed += n;
            }
            _ => {
                self.ops.push((4, 0, 0, vec![]));
                self.consumed += 1;
            }
        }
    }
    fn noise(&mut self, rng: &mut Rng) {
        match rng.below(9) {
            0 => self.ops.push((7, 0, 0, vec![])),
            1 => self.ops.push((8, 0, 0, vec![])),
            2 => self.ops.push((9, 0, 0, vec![])),
            3 => self.ops.push((10, 0, 0, vec![])),
            4 => {
                let a = rng.below(self.text.len() as u64 + 2) as usize;
                let b = a + rng.below(5) as usize;
                self.ops.push((11, a, b, vec![]));
            }
            _ => self.ops.push((3, 0, 0, vec![])),
        }
    }
    fn block(&mut self, rng: &mut Rng, depth: usize, budget: &mut i64) {
        if rng.chance(4, 5) {
            self.ops.push((3, 0, 0, vec![]));
        }
        let kind = *rng.pick(NODE_KINDS);
        self.ops.push((0, kind as usize, 0, vec![]));
        self.open += 1;
        let n = rng.range(0, 7);
        for _ in 0..n {
            if *budget <= 0 {
                break;
            }
            *budget -= 1;
            match rng.below(10) {
                0 if depth < 4 => self.block(rng, depth + 1, budget),
                1 => self.noise(rng),
                _ => self.eat(rng),
            }
        }
        if rng.chance(1, 40) {
            return; // leave the node open
        }
        if rng.chance(1, 3) {
            self.ops.push((2, *rng.pick(NODE_KINDS) as usize, 0, vec![]));
        } else {
            self.ops.push((1, 0, 0, vec![]));
        }
        self.open -= 1;
    }
}

/// text + ops for a contextual rule that the real reparse functions will rewrite
fn gen_rewrite_case(rng: &mut Rng) -> (String, Vec<Op>) {
    let gpos = rng.chance(1, 2);
    let mut words: Vec<(String, u16)> = Vec::new(); // (text, ast kind to bump with; 0 = eat_raw)
    let g = |rng: &mut Rng, words: &mut Vec<(String, u16)>| {
        words.push((pick_s(rng, &["a", "b", "c", "f_i", "@CLS", "\\a"]).to_string(), K_GLYPHNAME));
    };
    if rng.chance(1, 5) {
        words.push(("ignore".into(), 0));
    }
    words.push(((if gpos { "pos" } else if rng.chance(1, 5) { "rsub" } else { "sub" }).into(), 0));
    for _ in 0..rng.range(0, 2) {
        g(rng, &mut words);
    }
    for _ in 0..rng.range(0, 3) {
        g(rng, &mut words);
        words.push(("'".into(), 0));
        if rng.chance(1, 3) {
            words.push(("lookup".into(), 0));
            words.push(("L1".into(), 0));
        }
    }
    for _ in 0..rng.range(0, 2) {
        g(rng, &mut words);
    }
    if !gpos && rng.chance(1, 2) {
        words.push(((if rng.chance(1, 8) { "from" } else { "by" }).into(), 0));
        if rng.chance(1, 6) {
            words.push(("NULL".into(), 0));
        } else {
            for _ in 0..rng.range(1, 2) {
                g(rng, &mut words);
            }
        }
    }
    if rng.chance(1, 8) {
        words.push((",".into(), 0));
        g(rng, &mut words);
        words.push(("'".into(), 0));
    }
    if rng.chance(9, 10) {
        words.push((";".into(), 0));
    }
    if rng.chance(1, 10) {
        g(rng, &mut words);
    }
    let mut text = String::new();
    let mut ops: Vec<Op> = Vec::new();
    if rng.chance(1, 2) {
        text.push_str("# lead\n ");
    }
    ops.push((3, 0, 0, vec![]));
    ops.push((0, 129, 0, vec![]));
    for (i, (w, k)) in words.iter().enumerate() {
        if i > 0 && !(w == "'" || w == ";" || w == ",") || (i > 0 && rng.chance(1, 6)) {
            text.push_str(pick_s(rng, &[" ", " ", "  ", "\n", " #x\n"]));
        }
        let w2 = if w == "\\a" { "\\a" } else { w.as_str() };
        text.push_str(w2);
        if *k != 0 && !w.starts_with('@') {
            ops.push((5, *k as usize, 1, vec![]));
        } else {
            ops.push((4, 0, 0, vec![]));
        }
    }
    text.push_str(pick_s(rng, &["", " ", "\n", " sub"]));
    if rng.chance(1, 12) {
        ops.push((7, 0, 0, vec![])); // an error in the node: no rewrite
    }
    ops.push((2, (if gpos { K_GPOS_REWRITE } else { K_GSUB_REWRITE }) as usize, 0, vec![]));
    (text, ops)
}

#[derive(Clone, Debug)]
enum Rw {
    Bump,
    Start(u16),
    Finish,
    Diag(bool),
}

/// Reconstruct the ReparseCtx calls from the rewritten node: items of the moved children appear
/// unchanged and in order; every other node was opened and closed by the reparse function.
fn derive_script(before: &[NodeOrToken], after: &Node, diags: &[(usize, usize, bool)], text_pos0: usize) -> Option<Vec<Rw>> {
    fn walk(n: &Node, before: &[NodeOrToken], ptr: &mut usize, out: &mut Vec<Rw>) -> bool {
        for c in n.iter_children() {
            if *ptr < before.len() && *c == before[*ptr] {
                out.push(Rw::Bump);
                *ptr += 1;
            } else if let NodeOrToken::Node(inner) = c {
                out.push(Rw::Start(inner.kind() as u16));
                if !walk(inner, before, ptr, out) {
                    return false;
                }
                out.push(Rw::Finish);
            } else {
                return false;
            }
        }
        true
    }
    let mut script = Vec::new();
    let mut ptr = 0;
    if !walk(after, before, &mut ptr, &mut script) || ptr != before.len() {
        return None;
    }
    if diags.is_empty() {
        return Some(script);
    }
    // place the diagnostics: at the first point (in order) where the position and the length of
    // the next non-trivia item fit
    let first_nontrivia_len = |from: usize| -> usize { before[from..].iter().find(|t| !is_trivia_k(t.kind() as u16)).map(|t| t.text_len()).unwrap_or(0) };
    let mut out = Vec::new();
    let mut di = 0;
    let mut pos = text_pos0;
    let mut p = 0usize;
    let fits = |di: usize, pos: usize, p: usize| -> bool { di < diags.len() && diags[di].0 == pos && diags[di].1 - diags[di].0 == first_nontrivia_len(p) && (p >= before.len() || !is_trivia_k(before[p].kind() as u16) || first_nontrivia_len(p) == 0) };
    for op in script {
        while fits(di, pos, p) {
            out.push(Rw::Diag(diags[di].2));
            di += 1;
        }
        if let Rw::Bump = op {
            pos += before[p].text_len();
            p += 1;
        }
        out.push(op);
    }
    while fits(di, pos, p) {
        out.push(Rw::Diag(diags[di].2));
        di += 1;
    }
    if di != diags.len() {
        return None;
    }
    Some(out)
}

fn coq_script(s: &[Rw]) -> String {
    let v: Vec<String> = s
        .iter()
        .map(|o| match o {
            Rw::Bump => "RBump".to_string(),
            Rw::Start(k) => format!("RStart {}%N", k),
            Rw::Finish => "RFinish".to_string(),
            Rw::Diag(h) => format!("RDiag {}", coq_bool(*h)),
        })
        .collect();
    format!("[{}]", v.join("; "))
}

fn drive_case(id: &mut usize, kind: &str, text: &str, ops: &[Op], use_map: bool, stats: &mut BTreeMap<String, usize>) {
    let gm = glyph_map();
    let mut out = Node::verif_out();
    let desc = json!({"drive": text, "ops": ops.iter().map(|o| json!([o.0, o.1, o.2, o.3])).collect::<Vec<_>>()}).to_string();
    let r = guarded(|| desc.clone(), || Node::verif_drive(text, if use_map { Some(&gm) } else { None }, ops, &mut out));
    let panicked = r.is_err();
    // scripts for the finishes that rewrote
    let mut scripts: HashMap<usize, (String, u16)> = HashMap::new();
    let mut strict = true;
    for (i, before, cur_err, pk, last, diags, text_pos) in &out.finishes {
        let (code, a, _, _) = &ops[*i];
        let cur_kind = if *code == 2 { Some(*a as u16) } else { *pk };
        let rewrote = !*cur_err && matches!(cur_kind, Some(K_GSUB_REWRITE) | Some(K_GPOS_REWRITE));
        if !rewrote {
            continue;
        }
        let after = match last {
            Some(NodeOrToken::Node(n)) => n,
            _ => {
                *stats.entry("skipped_underivable".into()).or_default() += 1;
                return;
            }
        };
        let off: usize = before.iter().map(|t| t.text_len()).sum();
        match derive_script(before, after, diags, text_pos.saturating_sub(off)) {
            Some(s) => {
                if !diags.is_empty() {
                    strict = false;
                }
                scripts.insert(*i, (coq_script(&s), after.kind() as u16));
            }
            None => {
                *stats.entry("skipped_underivable".into()).or_default() += 1;
                return;
            }
        }
    }
    if panicked {
        // a panic inside a rewriting finish cannot be replayed (its script is unknown)
        let (code, a, _, _) = &ops[out.cur_op.min(ops.len() - 1)];
        if (*code == 1 || *code == 2) && (*code == 1 || *a as u16 == K_GSUB_REWRITE || *a as u16 == K_GPOS_REWRITE) {
            let (loc, msg) = r.err().unwrap();
            if loc.contains("token_tree") && msg.contains("rewrite finished with unhandled items") || loc.contains("rewrite.rs") {
                *stats.entry("skipped_panic_in_rewrite".into()).or_default() += 1;
                if std::env::var("C13_DEBUG").is_ok() {
                    eprintln!("REWRITE-PANIC {loc}: {msg}: {:?}", text);
                }
                return;
            }
        }
    }
    let coq_ops: Vec<String> = ops
        .iter()
        .enumerate()
        .map(|(i, (code, a, b, parts))| match code {
            0 => format!("OStart {}%N", a),
            1 | 2 => {
                let remap = if *code == 2 { format!("(Some {}%N)", a) } else { "None".to_string() };
                match scripts.get(&i) {
                    Some((s, k)) => format!("OFinish {} {} {}%N", remap, s, k),
                    None => format!("OFinish {} [] 0%N", remap),
                }
            }
            3 => "OEatTrivia".into(),
            4 => "OEatRaw".into(),
            5 => format!("OBump {} {}%N", b, a),
            6 => format!("OSplit [{}]", parts.iter().map(|(x, y, k)| format!("({},{},{}%N)", x, y, k)).collect::<Vec<_>>().join(";")),
            7 => "OErr true".into(),
            8 => "OErr false".into(),
            9 => "OErrBeforeWs true".into(),
            10 => "OErrBeforeWs false".into(),
            _ => format!("ORawErr {} {}", a, b),
        })
        .collect();
    let expected = if panicked {
        *stats.entry("drive_panics".into()).or_default() += 1;
        format!("(inr {})", out.cur_op)
    } else {
        let children: Vec<String> = out.children.iter().map(coq_tree).collect();
        format!(
            "(inl (mkObs {} [{}] [{}] [{}] {} {} [{}] {}))",
            out.text_pos,
            children.join("; "),
            out.parents.iter().map(|(k, i)| format!("({}%N,{})", k, i)).collect::<Vec<_>>().join(";"),
            out.errors.iter().map(|(a, b, h)| format!("({},{},{})", a, b, coq_bool(*h))).collect::<Vec<_>>().join(";"),
            coq_bool(out.cur_err),
            out.include_count,
            out.buf.iter().map(|(s, tl, nt, k, l)| format!("({},{},{},{}%N,{})", s, tl, nt, k, l)).collect::<Vec<_>>().join(";"),
            coq_bool(strict)
        )
    };
    let gm_term = if use_map {
        format!("(gm_of [{}])", GLYPHS.iter().map(|g| coq_bytes(g.as_bytes())).collect::<Vec<_>>().join(";"))
    } else {
        "None".to_string()
    };
    let mut coq = format!("drive_matches {} {} [{}] {}", gm_term, coq_bytes(text.as_bytes()), coq_ops.join("; "), expected);
    // positions of the finished tree
    if let Some(root) = &out.root {
        let mut toks = Vec::new();
        let mut nodes = vec![root.range()];
        fn collect(n: &Node, toks: &mut Vec<std::ops::Range<usize>>, nodes: &mut Vec<std::ops::Range<usize>>) {
            for c in n.iter_children() {
                match c {
                    NodeOrToken::Token(t) => toks.push(t.range()),
                    NodeOrToken::Node(m) => {
                        nodes.push(m.range());
                        collect(m, toks, nodes);
                    }
                }
            }
        }
        collect(root, &mut toks, &mut nodes);
        // property predicate on the implementation: ranges tile and carry the token text
        let mut at = 0;
        let flat: String = root.iter_tokens().map(|t| t.as_str()).collect();
        for t in root.iter_tokens() {
            let r = t.range();
            if r.start != at || flat.get(r.clone()) != Some(t.as_str()) {
                emit_violation("positions-inconsistent", format!("token {:?} has range {:?}, expected start {at}", t.as_str(), r), json!({"input": text, "ops": desc}));
                break;
            }
            at = r.end;
        }
        let fmt = |v: &Vec<std::ops::Range<usize>>| v.iter().map(|r| format!("({},{})", r.start, r.end)).collect::<Vec<_>>().join(";");
        coq = format!("({}) && positions_match ({}) [{}] [{}]", coq, coq_node(root), fmt(&toks), fmt(&nodes));
        *stats.entry("drive_with_finished_root".into()).or_default() += 1;
    }
    if !strict {
        *stats.entry("drive_rewrite_with_diagnostics".into()).or_default() += 1;
    }
    if !scripts.is_empty() {
        *stats.entry("drive_rewrites".into()).or_default() += scripts.len();
    }
    emit_case(*id, kind, coq, None, ops.len() > 2, format!("D:{use_map}:{text}:{:?}", ops), json!({"input": text, "glyph_map": use_map, "n_ops": ops.len(), "impl_panicked": panicked, "impl_text_pos": out.text_pos}));
    *id += 1;
}

// ---------------------------------------------------------------------------
// stream I: include graphs

struct IncGraph {
    n: usize,
    edges: Vec<Vec<usize>>, // file i includes edges[i] (file indexes; usize::MAX = missing file)
}

/// A chain root -> c1 -> … -> cK -> x around the depth limit (the edge out of c48 is the first
/// too-deep one), with a second, shorter route to x and something below x.
/// `short_from`: the node (0 = root, j = c_j) that also includes x; `short_first`: whether that
/// include comes before the node's chain include; `below`: 0 nothing, 1 x -> x, 2 x -> y -> x,
/// 3 x -> y, 4 x -> y -> z -> y, 5 x -> c1 (back into the chain), 6 x -> y -> y
fn deep_short_graph(k: usize, short_from: usize, short_first: bool, below: u64) -> IncGraph {
    let x = k + 1;
    let mut e: Vec<Vec<usize>> = vec![vec![]; k + 4];
    for i in 0..k {
        e[i].push(i + 1);
    }
    e[k].push(x);
    let sf = short_from.min(k.saturating_sub(1));
    if short_first {
        e[sf].insert(0, x);
    } else {
        e[sf].push(x);
    }
    let (y, z) = (k + 2, k + 3);
    match below {
        1 => e[x].push(x),
        2 => {
            e[x].push(y);
            e[y].push(x);
        }
        3 => e[x].push(y),
        4 => {
            e[x].push(y);
            e[y].push(z);
            e[z].push(y);
        }
        5 => e[x].push(1),
        6 => {
            e[x].push(y);
            e[y].push(y);
        }
        _ => {}
    }
    IncGraph { n: k + 4, edges: e }
}

/// Include graphs that are always run first.
fn fixed_graphs() -> Vec<(IncGraph, &'static str)> {
    let mut v = Vec::new();
    {
        // the shared chain is reached by the short path first (56 files deep by the long one)
        let (a, b) = (28usize, 27usize);
        let n = 1 + a + b;
        let shared = 1 + a;
        let mut e = vec![vec![]; n];
        e[0].push(shared);
        e[0].push(1);
        for i in 1..a {
            e[i].push(i + 1);
        }
        e[a].push(shared);
        for i in shared..n - 1 {
            e[i].push(i + 1);
        }
        v.push((IncGraph { n, edges: e }, "twopaths"));
    }
    // a file first reached through a too-deep include, reached again by a shorter route, with a
    // cycle below it (and the other visiting order, and the neighbouring chain lengths)
    for (k, from, first, below) in [
        (48, 0, false, 1), (48, 0, true, 1), (48, 0, false, 2), (48, 1, false, 1), (48, 0, false, 4),
        (47, 0, false, 1), (49, 0, false, 1), (48, 0, false, 5), (48, 3, false, 6), (48, 0, false, 3),
    ] {
        v.push((deep_short_graph(k, from, first, below), "deepshort"));
    }
    v
}

/// The include graphs of a run: the fixed ones, then `count` generated ones (own PRNG stream, so
/// that the list can be regenerated by the parent and by a restarted worker).
fn include_graphs(seed: u64, count: usize) -> Vec<(IncGraph, &'static str)> {
    let mut v = fixed_graphs();
    let mut rng = Rng::new(seed.wrapping_mul(1000).wrapping_add(777));
    for _ in 0..count {
        v.push(gen_graph(&mut rng));
    }
    v
}

fn graph_files(g: &IncGraph) -> BTreeMap<String, String> {
    let mut files = BTreeMap::new();
    for i in 0..g.n {
        let mut s = format!("#{}\n", i);
        for &c in &g.edges[i] {
            if c == usize::MAX {
                s.push_str("include(nofile);\n");
            } else {
                s.push_str(&format!("include(f{});\n", c));
            }
        }
        files.insert(format!("f{}", i), s);
    }
    files
}

fn gen_graph(rng: &mut Rng) -> (IncGraph, &'static str) {
    match rng.below(16) {
        12..=15 => {
            let k = match rng.below(8) {
                0 => 46,
                1 => 47,
                2 => 49,
                3 => 50,
                _ => 48,
            };
            let from = if rng.chance(2, 3) { 0 } else { rng.range(1, 4) as usize };
            (deep_short_graph(k, from, rng.chance(1, 3), rng.below(7)), "deepshort")
        }
        0 => {
            // self include
            (IncGraph { n: 1, edges: vec![vec![0]] }, "self")
        }
        1 => {
            // cycle of length k, entered after a tail
            let tail = rng.range(0, 3) as usize;
            let k = rng.range(2, 6) as usize;
            let n = tail + k;
            let mut e = vec![vec![]; n];
            for i in 0..n - 1 {
                e[i].push(i + 1);
            }
            e[n - 1].push(tail);
            (IncGraph { n, edges: e }, "cycle")
        }
        2 | 3 => {
            // chain around the depth limit
            let n = rng.range(44, 56) as usize;
            let mut e = vec![vec![]; n];
            for i in 0..n - 1 {
                e[i].push(i + 1);
            }
            (IncGraph { n, edges: e }, "chain")
        }
        4 => {
            // long cycle (deeper than the limit)
            let n = rng.range(50, 60) as usize;
            let mut e = vec![vec![]; n];
            for i in 0..n - 1 {
                e[i].push(i + 1);
            }
            e[n - 1].push(0);
            (IncGraph { n, edges: e }, "longcycle")
        }
        5 | 6 => {
            // DAG: edges only forward, duplicates and diamonds
            let n = rng.range(2, 9) as usize;
            let mut e = vec![vec![]; n];
            for i in 0..n - 1 {
                let k = rng.range(0, 3);
                for _ in 0..k {
                    e[i].push(rng.range(i as i64 + 1, n as i64 - 1) as usize);
                }
            }
            (IncGraph { n, edges: e }, "dag")
        }
        7 => {
            // DAG with a missing file
            let n = rng.range(2, 6) as usize;
            let mut e = vec![vec![]; n];
            for i in 0..n - 1 {
                e[i].push(i + 1);
                if rng.chance(1, 2) {
                    e[i].push(usize::MAX);
                }
            }
            (IncGraph { n, edges: e }, "missing")
        }
        8 => {
            // short first, long second path to the same file, then a chain below it
            let a = rng.range(20, 30) as usize;
            let b = rng.range(20, 30) as usize;
            let n = 1 + a + b;
            let mut e = vec![vec![]; n];
            // root -> shared (index 1+a) directly, and through a chain of a files
            let shared = 1 + a;
            e[0].push(if rng.chance(1, 2) { shared } else { 1 });
            let second = if e[0][0] == shared { 1 } else { shared };
            e[0].push(second);
            for i in 1..a {
                e[i].push(i + 1);
            }
            e[a].push(shared);
            for i in shared..n - 1 {
                e[i].push(i + 1);
            }
            (IncGraph { n, edges: e }, "twopaths")
        }
        _ => {
            // arbitrary small digraph
            let n = rng.range(1, 7) as usize;
            let mut e = vec![vec![]; n];
            for i in 0..n {
                let k = rng.range(0, 3);
                for _ in 0..k {
                    e[i].push(rng.below(n as u64) as usize);
                }
            }
            (IncGraph { n, edges: e }, "random")
        }
    }
}

fn include_case(id: &mut usize, g: &IncGraph, kind: &str, stats: &mut BTreeMap<String, usize>) {
    let files = graph_files(g);
    // reachable subgraph from the root: does it have a cycle / how deep is it
    let mut color = vec![0u8; g.n];
    let mut cyclic = false;
    fn dfs(g: &IncGraph, v: usize, color: &mut Vec<u8>, cyclic: &mut bool) {
        color[v] = 1;
        for &c in &g.edges[v] {
            if c == usize::MAX {
                continue;
            }
            if color[c] == 1 {
                *cyclic = true;
            } else if color[c] == 0 {
                dfs(g, c, color, cyclic);
            }
        }
        color[v] = 2;
    }
    dfs(g, 0, &mut color, &mut cyclic);
    // longest path (only when acyclic)
    let mut depth = vec![0usize; g.n];
    if !cyclic {
        fn longest(g: &IncGraph, v: usize, memo: &mut Vec<usize>) -> usize {
            if memo[v] != 0 {
                return memo[v];
            }
            let mut d = 1;
            for &c in &g.edges[v] {
                if c != usize::MAX {
                    d = d.max(1 + longest(g, c, memo));
                }
            }
            memo[v] = d;
            d
        }
        longest(g, 0, &mut depth);
    }
    let max_depth = depth[0]; // number of files on the longest include chain
    let r = run_parse(&files, "f0", None, false);
    *stats.entry(format!("include_{kind}")).or_default() += 1;
    match r {
        Err((loc, msg)) => {
            emit_violation(&panic_key("include", &loc, &msg), format!("include resolution panicked at {loc}: {msg}"), json!({"files": files}));
        }
        Ok(p) => {
            let cyc_reported = p.include_msgs.iter().any(|m| m.2.contains("cyclical"));
            let deep_reported = p.include_msgs.iter().any(|m| m.2.contains("depth"));
            if cyclic && !(cyc_reported || deep_reported) {
                emit_violation("include-cycle-not-reported", "a cyclic include graph produced no include error".to_string(), json!({"files": files}));
            }
            if !cyclic && max_depth > 50 && !deep_reported {
                emit_violation("include-depth-not-reported", format!("an include chain of {max_depth} files produced no depth error"), json!({"files": files}));
            }
            if !cyclic && max_depth <= 40 && (cyc_reported || deep_reported) {
                emit_violation("include-spurious-error", format!("an acyclic include graph of depth {max_depth} produced an include error"), json!({"files": files, "msgs": p.include_msgs.iter().map(|m| m.2.clone()).collect::<Vec<_>>()}));
            }
            for (key, desc) in &p.diag_problems {
                emit_violation(key, desc.clone(), json!({"files": files}));
            }
            if let Some(pp) = &p.pos_problem {
                emit_violation("positions-inconsistent", pp.clone(), json!({"files": files}));
            }
            // lossless across includes when nothing is cut: full textual expansion
            if !cyclic && !deep_reported && !cyc_reported {
                fn expand(g: &IncGraph, v: usize, out: &mut String) {
                    out.push_str(&format!("#{}\n", v));
                    for &c in &g.edges[v] {
                        if c == usize::MAX {
                            out.push_str("include(nofile);\n");
                        } else {
                            expand(g, c, out);
                            out.push('\n');
                        }
                    }
                }
                let mut want = String::new();
                expand(g, 0, &mut want);
                if want != p.concat {
                    emit_violation("include-expansion-differs", "the resolved tree is not the textual expansion of the includes".to_string(), json!({"files": files, "tree_text": p.concat, "expected": want}));
                }
            }
            // model correspondence: include errors (file, statement index, kind) in order, and the
            // order in which files are spliced (the `#k` markers of the resolved text)
            let mut errs = Vec::new();
            for (file, start, msg) in &p.include_msgs {
                let fi: usize = file[1..].parse().unwrap_or(0);
                // statement index among the *resolved* includes of that file
                let text = &files[file];
                let mut idx = 0usize;
                let mut pos = 0usize;
                let mut found = None;
                for line in text.split_inclusive('\n') {
                    if line.starts_with("include(f") {
                        if pos == *start {
                            found = Some(idx);
                        }
                        idx += 1;
                    }
                    pos += line.len();
                }
                errs.push((fi, found.unwrap_or(999), msg.contains("cyclical")));
            }
            let order: Vec<usize> = p.concat.lines().filter_map(|l| l.strip_prefix('#').and_then(|x| x.parse().ok())).collect();
            // the graph as IncludeGraph holds it: resolved includes only, parsed files only
            let mut reach = vec![false; g.n];
            let mut stack = vec![0usize];
            while let Some(v) = stack.pop() {
                if reach[v] {
                    continue;
                }
                reach[v] = true;
                for &c in &g.edges[v] {
                    if c != usize::MAX {
                        stack.push(c);
                    }
                }
            }
            let gterm: Vec<String> = (0..g.n)
                .filter(|i| reach[*i] && g.edges[*i].iter().any(|c| *c != usize::MAX))
                .map(|i| format!("({}%N, [{}]%N)", i, g.edges[i].iter().filter(|c| **c != usize::MAX).map(|c| c.to_string()).collect::<Vec<_>>().join(";")))
                .collect();
            let coq = format!(
                "include_matches [{}] 0%N [{}] [{}]%N",
                gterm.join("; "),
                errs.iter().map(|(f, i, c)| format!("({}%N,{},{})", f, i, coq_bool(*c))).collect::<Vec<_>>().join(";"),
                order.iter().map(|o| o.to_string()).collect::<Vec<_>>().join(";")
            );
            emit_case(*id, &format!("include-{kind}"), coq, None, g.n > 1, format!("I:{:?}", g.edges), json!({"edges": g.edges.iter().map(|e| e.iter().map(|c| if *c == usize::MAX { -1 } else { *c as i64 }).collect::<Vec<_>>()).collect::<Vec<_>>(), "impl_errors": errs, "impl_order_len": order.len(), "cyclic": cyclic, "depth": max_depth}));
            *id += 1;
        }
    }
}

/// One share of stream P (run in a child process).  chunk 0 also runs the fixed inputs.
fn worker_parse(seed: u64, chunk: usize, nchunks: usize, n_parse: usize, skip_hang: u64, probe: Option<usize>) {
    install_hooks();
    let mut pst = PStats { parses: 0, error_free: 0, validated: 0, with_diags: 0, by_kind: BTreeMap::new() };
    let mut rng = Rng::new(seed.wrapping_mul(1000).wrapping_add(chunk as u64 + 1));
    let mut skipped = 0usize;
    if let Some(k) = probe {
        *HANG_KEY.lock().unwrap() = HANG_KEYS[k].to_string();
        check_text("hang-probe", HANG_PROBES[k], &mut rng, &mut pst);
    } else {
        let corpus = load_corpus();
        if chunk == 0 {
            for t in FIXED {
                check_text("fixed", t, &mut rng, &mut pst);
            }
        }
        for (k, (_, text)) in corpus.iter().enumerate() {
            if k % nchunks == chunk {
                check_text("corpus", text, &mut rng, &mut pst);
            }
        }
        let corpus: Vec<(String, String)> = corpus;
        let share = n_parse / nchunks + usize::from(chunk < n_parse % nchunks);
        for i in 0..share {
            let (kind, text) = match i % 4 {
                0 => {
                    let (_, base) = rng.pick(&corpus);
                    let w = window(&mut rng, base, 1500);
                    ("corpus-mutated", mutate(&mut rng, &w, 4))
                }
                1 => ("grammar", gen_fea(&mut rng)),
                2 => {
                    let t = gen_fea(&mut rng);
                    ("grammar-mutated", mutate(&mut rng, &t, 3))
                }
                _ => ("soup", gen_soup(&mut rng)),
            };
            if (skip_hang & 1 != 0 && may_hit_class_hyphen_loop(&text)) || (skip_hang & 2 != 0 && may_hit_anchordef_metric_loop(&text)) {
                skipped += 1;
                continue;
            }
            check_text(kind, &text, &mut rng, &mut pst);
        }
    }
    emit(json!({"type": "pstat", "parses": pst.parses, "error_free": pst.error_free, "validated": pst.validated,
                "with_diags": pst.with_diags, "by_kind": pst.by_kind, "skipped_known_hang_pattern": skipped}));
}

/// Run stream P in child processes (16 shares in parallel), forward their records in a fixed order.
fn orchestrate_parse_stream(seed: u64, n_parse: usize) -> serde_json::Value {
    let exe = std::env::current_exe().expect("current_exe");
    let run_child = |extra: Vec<String>| -> String {
        let out = std::process::Command::new(&exe).args(&extra).stdin(std::process::Stdio::null()).stderr(std::process::Stdio::null()).output();
        match out {
            Ok(o) => String::from_utf8_lossy(&o.stdout).to_string(),
            Err(e) => json!({"type":"violation","key":"harness-worker-failed","desc":format!("worker {:?} failed: {e}", extra),"found_input":false}).to_string(),
        }
    };
    // the inputs known not to terminate, each alone
    let mut hang_seen = 0u64;
    let mut outputs: Vec<String> = Vec::new();
    for k in 0..HANG_PROBES.len() {
        let o = run_child(vec!["--worker-parse".into(), "--seed".into(), seed.to_string(), "--probe".into(), k.to_string()]);
        if o.contains(HANG_KEYS[k]) {
            hang_seen |= 1 << k;
        }
        outputs.push(o);
    }
    let nchunks = 16usize;
    let handles: Vec<_> = (0..nchunks)
        .map(|c| {
            let exe = exe.clone();
            let args: Vec<String> = vec![
                "--worker-parse".into(), "--seed".into(), seed.to_string(), "--chunk".into(), c.to_string(), "--nchunks".into(), nchunks.to_string(),
                "--parse".into(), n_parse.to_string(), "--skip-hang".into(), hang_seen.to_string(),
            ];
            std::thread::spawn(move || {
                let out = std::process::Command::new(&exe).args(&args).stdin(std::process::Stdio::null()).stderr(std::process::Stdio::null()).output();
                out.map(|o| String::from_utf8_lossy(&o.stdout).to_string()).unwrap_or_default()
            })
        })
        .collect();
    for h in handles {
        outputs.push(h.join().unwrap_or_default());
    }
    let mut total: BTreeMap<String, u64> = BTreeMap::new();
    let mut by_kind: BTreeMap<String, u64> = BTreeMap::new();
    let mut workers_reporting = 0;
    for o in &outputs {
        for line in o.lines() {
            if !line.starts_with('{') {
                continue;
            }
            match serde_json::from_str::<serde_json::Value>(line) {
                Ok(v) if v["type"] == "pstat" => {
                    workers_reporting += 1;
                    for k in ["parses", "error_free", "validated", "with_diags", "skipped_known_hang_pattern"] {
                        *total.entry(k.to_string()).or_default() += v[k].as_u64().unwrap_or(0);
                    }
                    if let Some(m) = v["by_kind"].as_object() {
                        for (k, n) in m {
                            *by_kind.entry(k.clone()).or_default() += n.as_u64().unwrap_or(0);
                        }
                    }
                }
                Ok(_) => println!("{line}"),
                Err(_) => {}
            }
        }
    }
    json!({"totals": total, "by_kind": by_kind, "workers_reporting": workers_reporting, "workers": nchunks + HANG_PROBES.len(), "hang_pattern_skipped": hang_seen})
}

/// Stream I worker: graphs `from..` of the run's list, announcing each before it is parsed.
fn worker_include(seed: u64, count: usize, from: usize) {
    install_hooks();
    *HANG_KEY.lock().unwrap() = "include-resolution-hang".to_string();
    let graphs = include_graphs(seed, count);
    let mut stats: BTreeMap<String, usize> = BTreeMap::new();
    for (idx, (g, kind)) in graphs.iter().enumerate().skip(from) {
        emit(json!({"type": "iprogress", "idx": idx}));
        let mut id = 1_000_000 + idx;
        include_case(&mut id, g, kind, &mut stats);
    }
    emit(json!({"type": "istat", "stats": stats}));
}

/// Run stream I in child processes; a child that dies (stack overflow, abort) is reported with the
/// graph it was working on and the stream continues after that graph.
fn orchestrate_include_stream(seed: u64, count: usize, stats: &mut BTreeMap<String, usize>) {
    let exe = std::env::current_exe().expect("current_exe");
    let graphs = include_graphs(seed, count);
    let mut from = 0usize;
    let mut restarts = 0usize;
    while from < graphs.len() && restarts <= 25 {
        let out = std::process::Command::new(&exe)
            .args(["--worker-include", "--seed", &seed.to_string(), "--n", &count.to_string(), "--from", &from.to_string()])
            .stdin(std::process::Stdio::null())
            .output();
        let out = match out {
            Ok(o) => o,
            Err(e) => {
                emit_violation("harness-worker-failed", format!("include worker failed to start: {e}"), json!({}));
                return;
            }
        };
        let stdout = String::from_utf8_lossy(&out.stdout).to_string();
        let stderr = String::from_utf8_lossy(&out.stderr).to_string();
        let mut last: Option<usize> = None;
        let mut finished = false;
        for line in stdout.lines() {
            if !line.starts_with('{') {
                continue;
            }
            match serde_json::from_str::<serde_json::Value>(line) {
                Ok(v) if v["type"] == "iprogress" => last = v["idx"].as_u64().map(|x| x as usize),
                Ok(v) if v["type"] == "istat" => {
                    finished = true;
                    if let Some(m) = v["stats"].as_object() {
                        for (k, n) in m {
                            *stats.entry(k.clone()).or_default() += n.as_u64().unwrap_or(0) as usize;
                        }
                    }
                }
                Ok(_) => println!("{line}"),
                Err(_) => {}
            }
        }
        if finished {
            break;
        }
        // the worker stopped inside graph `last`
        let idx = last.unwrap_or(from);
        if !out.status.success() {
            let (g, kind) = &graphs[idx.min(graphs.len() - 1)];
            let overflow = stderr.contains("overflowed its stack");
            let key = if overflow { "include-assembly-stack-overflow" } else { "include-resolution-abort" };
            let what = if overflow {
                "resolving the includes overflowed the stack (the process aborted): tree assembly recursed without end, i.e. a cyclic include statement was not reported and skipped"
            } else {
                "the process resolving the includes died"
            };
            emit_violation(
                key,
                format!("{what}; {} status {:?}; include graph ({kind}): {}", stderr.lines().rev().find(|l| !l.trim().is_empty()).unwrap_or(""), out.status, trunc(&format!("{:?}", g.edges.iter().enumerate().filter(|(_, e)| !e.is_empty()).collect::<Vec<_>>()), 400)),
                json!({"files": graph_files(g), "root": "f0", "edges": g.edges.iter().map(|e| e.iter().map(|c| if *c == usize::MAX { -1 } else { *c as i64 }).collect::<Vec<_>>()).collect::<Vec<_>>(), "kind": kind}),
            );
            *stats.entry("include_worker_died".into()).or_default() += 1;
        }
        from = idx + 1;
        restarts += 1;
    }
}

/// Fixed regression inputs (always run first).
const FIXED: &[&str] = &[
    "",
    "\0",
    "languagesystem DFLT dflt;\0feature liga { sub a by b; } liga;",
    "feature liga { sub a by b }",
    "include(a)",
    "@a = [b]é;",
    "feature liga { sub a--b by c; } liga;",
    "feature liga { sub [a---b] by c; } liga;",
    "feature kern { pos a ${x-12.5}; } kern;",
    "feature kern { pos a ${x-1.}; } kern;",
    "feature liga { sub a' from [b c]; sub a b' c' lookup L1 by d; } liga;",
    "feature liga { sub a-z from [a u]; } liga;",
    "table hhea { LineGap 32768; } hhea;",
    "table BASE { HorizAxis.BaseTagList ideo romn; HorizAxis.BaseScriptList latn toolong -120 0; } BASE;",
    "feature ss01 { include(inc1.fea);",
    "feature kern { pos a ${a #é\n b-c}; } kern;",
    "feature kern { pos a ${pad -2}; } kern;",
    "feature kern { pos a ${pé-2}; } kern;",
    "feature kern { pos a ${a中-b}; } kern;",
    "feature kern { pos a ${largéur/2}; } kern;",
    "\"unterminated",
    "0x",
    "include(",
    "include()",
    "anon x { ",
    "table",
    "feature liga {",
    "é",
    "#",
    "\\",
];
/// Inputs on which the unchanged parser does not terminate (run last, each in its own process).
const HANG_PROBES: &[&str] = &["@a = [b]-c;", "anchorDef (toolong=1:1) A;"];
const HANG_KEYS: &[&str] = &["parser-hang-glyph-class-non-name-before-hyphen", "parser-hang-anchordef-variable-metric-bad-axis-tag"];

/// Over-approximation of the trigger of the known non-termination in the variable-metric loop
/// of `eat_metric` when the recovery set contains identifiers (anchorDef).
fn may_hit_anchordef_metric_loop(text: &str) -> bool {
    text.contains("anchorDef") && text.contains('(')
}

/// Over-approximation of the trigger of the known non-termination in
/// `glyph_class_list_member` (a token that is not a glyph name, followed by a hyphen token):
/// a '-' that does not start a number and is preceded by something other than a name character.
fn may_hit_class_hyphen_loop(text: &str) -> bool {
    let b = text.as_bytes();
    for i in 0..b.len() {
        if b[i] != b'-' {
            continue;
        }
        let next = b.get(i + 1).copied().unwrap_or(0);
        let starts_number = next.is_ascii_digit() && !(next == b'0' && matches!(b.get(i + 2), Some(c) if c.is_ascii_digit() || *c == b'x' || *c == b'X'));
        if starts_number {
            continue;
        }
        let mut j = i;
        while j > 0 && (b[j - 1] == b' ' || (0x9..=0xd).contains(&b[j - 1])) {
            j -= 1;
        }
        let prev = if j == 0 { b' ' } else { b[j - 1] };
        if j == i && prev == b'-' {
            continue; // inside a name such as a--b
        }
        if !(prev.is_ascii_alphanumeric() || prev == b'_' || prev == b'.' || prev >= 0x80) {
            return true;
        }
    }
    false
}

// ---------------------------------------------------------------------------

fn main() {
    let args: Vec<String> = std::env::args().collect();
    let args = &args[1..];
    let seed = arg_val(args, "--seed", 1);
    let n = arg_val(args, "--n", 600) as usize;
    let n_parse = arg_val(args, "--parse", 4000) as usize;
    let mut rng = Rng::new(seed);
    if let Some(i) = args.iter().position(|a| a == "--debug-file") {
        // developer aid: parse one file (JSON object {name: text}, root = first key or "root.fea") verbosely
        let raw = std::fs::read_to_string(&args[i + 1]).unwrap();
        let files: BTreeMap<String, String> = if raw.trim_start().starts_with('{') { serde_json::from_str(&raw).unwrap() } else { [("root.fea".to_string(), raw)].into_iter().collect() };
        let root = if files.contains_key("root.fea") { "root.fea".to_string() } else if files.contains_key("f0") { "f0".to_string() } else { files.keys().next().unwrap().clone() };
        let gm = glyph_map();
        for use_map in [false, true] {
            let map: HashMap<String, Arc<str>> = files.iter().map(|(k, v)| (k.clone(), Arc::from(v.as_str()))).collect();
            let r = std::panic::catch_unwind(|| {
                let (tree, diags) = parse_root(PathBuf::from(&root), if use_map { Some(&gm) } else { None }, Box::new(move |p: &Path| map.get(p.to_str().unwrap_or("")).cloned().ok_or_else(|| SourceLoadError::new(p.to_path_buf(), "no such file")))).unwrap();
                println!("== glyph_map={use_map} root_len={} errors={}", tree.root().text_len(), diags.has_errors());
                for d in diags.diagnostics() {
                    println!("  {:?} {:?} {}", d.level, d.span(), d.text());
                }
                println!("{}", diags.display());
                if !diags.has_errors() {
                    let v = fea_rs::compile::validate(&tree, &gm, None::<&fea_rs::compile::NopVariationInfo>);
                    println!("  validate: {} diagnostics", v.len());
                }
            });
            println!("  result: {}", if r.is_ok() { "ok" } else { "PANIC" });
        }
        return;
    }
    if args.iter().any(|a| a == "--worker-include") {
        worker_include(seed, n, arg_val(args, "--from", 0) as usize);
        return;
    }
    if args.iter().any(|a| a == "--worker-parse") {
        let probe = args.iter().position(|a| a == "--probe").map(|i| args[i + 1].parse::<usize>().unwrap());
        worker_parse(seed, arg_val(args, "--chunk", 0) as usize, arg_val(args, "--nchunks", 1) as usize, n_parse, arg_val(args, "--skip-hang", 0), probe);
        return;
    }
    install_hooks();
    let corpus = load_corpus();
    let mut id = 0usize;
    let mut stats: BTreeMap<String, usize> = BTreeMap::new();

    // ---- stream P: in child processes (a parse that never returns cannot be abandoned in-process)
    let pst = orchestrate_parse_stream(seed, n_parse);

    // ---- stream L -----------------------------------------------------------
    for t in FIXED.iter().chain(HANG_PROBES.iter()) {
        lexer_case(&mut id, "lex-fixed", t);
    }
    for i in 0..n {
        match i % 5 {
            0 => {
                let (_, base) = rng.pick(&corpus);
                let w = window(&mut rng, base, 240);
                lexer_case(&mut id, "lex-corpus", &w);
            }
            1 => {
                let (_, base) = rng.pick(&corpus);
                let w = window(&mut rng, base, 200);
                let m = mutate(&mut rng, &w, 4);
                lexer_case(&mut id, "lex-corpus-mutated", &m);
            }
            2 => {
                let t = gen_fea(&mut rng);
                let w = window(&mut rng, &t, 260);
                lexer_case(&mut id, "lex-grammar", &w);
            }
            3 => {
                let t = gen_soup(&mut rng);
                let w = window(&mut rng, &t, 200);
                lexer_case(&mut id, "lex-soup", &w);
            }
            _ => {
                let t = gen_fea(&mut rng);
                let w = window(&mut rng, &t, 200);
                let m = mutate(&mut rng, &w, 3);
                lexer_case(&mut id, "lex-grammar-mutated", &m);
            }
        }
    }

    // ---- stream D -----------------------------------------------------------
    for i in 0..n {
        let use_map = rng.chance(1, 2);
        if i % 3 == 0 {
            let (text, ops) = gen_rewrite_case(&mut rng);
            drive_case(&mut id, "drive-rewrite", &text, &ops, use_map, &mut stats);
            continue;
        }
        let text = match i % 4 {
            0 => {
                let t = gen_fea(&mut rng);
                window(&mut rng, &t, 160)
            }
            1 => {
                let t = gen_soup(&mut rng);
                window(&mut rng, &t, 120)
            }
            2 => {
                let t = gen_fea(&mut rng);
                let w = window(&mut rng, &t, 140);
                mutate(&mut rng, &w, 3)
            }
            _ => {
                let (_, base) = rng.pick(&corpus);
                window(&mut rng, base, 160)
            }
        };
        let mut g = OpGen::new(&text);
        let mut budget = rng.range(3, 40);
        // a root node around everything most of the time
        let rooted = rng.chance(3, 4);
        if rooted {
            g.ops.push((0, 120, 0, vec![]));
        }
        while budget > 0 && g.consumed <= g.toks.len() + 1 {
            if rng.chance(1, 3) {
                g.block(&mut rng, 0, &mut budget);
            } else if rng.chance(1, 6) {
                g.noise(&mut rng);
            } else {
                g.eat(&mut rng);
            }
            budget -= 1;
        }
        if rooted && rng.chance(9, 10) {
            g.ops.push((3, 0, 0, vec![]));
            g.ops.push((1, 0, 0, vec![]));
        }
        if rng.chance(1, 25) {
            g.ops.push((1, 0, 0, vec![])); // one finish too many
        }
        let ops = g.ops.clone();
        drive_case(&mut id, "drive", &text, &ops, use_map, &mut stats);
    }

    // ---- stream I: in a child process (a stack overflow in tree assembly aborts the process)
    orchestrate_include_stream(seed, (n / 3).max(30), &mut stats);

    emit_stat(json!({
        "extra_evaluations": pst["totals"]["parses"].as_u64().unwrap_or(0),
        "parse_stream": pst,
        "corpus_files": corpus.len(),
        "drive_and_include": stats,
    }));
}
