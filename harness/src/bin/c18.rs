//! C18 probe (temporary)
use serde_json::json;
use std::collections::{BTreeMap, BTreeSet};
use vh::srcgen::{compile_path, quiet_panics, scratch_dir, AxisSrc, Design, GlyphSrc, InstanceSrc, Master, Outcome};
use vh::*;
use write_fonts::read::{FontRef, TableProvider};

#[derive(Clone, Debug, Default)]
struct AxisCfg {
    name: String,
    tag: String,
    label: Option<String>,
    min: f64,
    def: f64,
    max: f64,
}
#[derive(Clone, Debug, Default)]
struct InstCfg {
    style: String,
    ps: Option<String>,
    loc: Vec<f64>,
}
#[derive(Clone, Debug, Default)]
struct Cfg {
    family: String,
    style: String,
    /// extra fontinfo entries of the default master: (key, raw plist value)
    fontinfo: Vec<(String, String)>,
    axes: Vec<AxisCfg>,
    instances: Vec<InstCfg>,
    fea: Option<String>,
}

fn pstr(s: &str) -> String {
    format!("<string>{}</string>", vh::srcgen::xml_escape(s))
}

fn glyphs(shift: f64) -> Vec<GlyphSrc> {
    vec![
        GlyphSrc::new(".notdef", 500.0).rect(50.0, 0.0, 450.0 + shift, 700.0),
        GlyphSrc::new("a", 500.0 + shift).uni(0x61).rect(40.0, 0.0, 400.0 + shift, 500.0),
        GlyphSrc::new("a.alt", 520.0 + shift).rect(40.0, 0.0, 420.0 + shift, 500.0),
        GlyphSrc::new("b", 520.0 + shift).uni(0x62).rect(40.0, 0.0, 420.0 + shift, 700.0),
    ]
}

fn build_design(c: &Cfg) -> Design {
    let mut d = Design { family: c.family.clone(), upem: 1000, ..Default::default() };
    for a in &c.axes {
        d.axes.push(AxisSrc {
            name: a.name.clone(),
            tag: a.tag.clone(),
            min: a.min,
            default: a.def,
            max: a.max,
            map: vec![(a.min, a.min), (a.def, a.def), (a.max, a.max)],
            hidden: false,
        });
    }
    let defloc: Vec<(String, f64)> = c.axes.iter().map(|a| (a.name.clone(), a.def)).collect();
    d.masters.push(Master {
        name: "M0".into(),
        style: c.style.clone(),
        location: defloc.clone(),
        glyphs: glyphs(0.0),
        fontinfo: c.fontinfo.clone(),
        features: c.fea.clone(),
        ..Default::default()
    });
    for (i, a) in c.axes.iter().enumerate() {
        let mut loc = defloc.clone();
        loc[i].1 = if a.max != a.def { a.max } else { a.min };
        d.masters.push(Master {
            name: format!("M{}", i + 1),
            style: format!("Master{}", i + 1),
            location: loc,
            glyphs: glyphs(40.0 * (i as f64 + 1.0)),
            ..Default::default()
        });
    }
    for i in &c.instances {
        d.instances.push(InstanceSrc {
            family: c.family.clone(),
            style: i.style.clone(),
            postscript: i.ps.clone(),
            location: c.axes.iter().zip(i.loc.iter()).map(|(a, v)| (a.name.clone(), *v)).collect(),
        });
    }
    d
}

/// Write the design; axis label names are patched into the designspace document (srcgen has no
/// field for them).
fn write_design(c: &Cfg, dir: &std::path::Path) -> std::path::PathBuf {
    let d = build_design(c);
    if c.axes.is_empty() {
        return d.write(dir);
    }
    let p = d.write_designspace(dir);
    let mut xml = std::fs::read_to_string(&p).unwrap();
    let mut out = String::new();
    let mut k = 0usize;
    while let Some(pos) = xml.find("    </axis>\n") {
        out.push_str(&xml[..pos]);
        if let Some(l) = c.axes.get(k).and_then(|a| a.label.as_ref()) {
            out.push_str(&format!("      <labelname xml:lang=\"en\">{}</labelname>\n", vh::srcgen::xml_escape(l)));
            out.push_str(&format!("      <labelname xml:lang=\"de\">{}-de</labelname>\n", vh::srcgen::xml_escape(l)));
        }
        out.push_str("    </axis>\n");
        xml = xml[pos + "    </axis>\n".len()..].to_string();
        k += 1;
    }
    out.push_str(&xml);
    std::fs::write(&p, out).unwrap();
    p
}

#[derive(Debug, Default, Clone)]
struct Decoded {
    names: Vec<(u16, u16, u16, u16, String)>, // id, platform, encoding, language, string
    fvar_axes: Vec<(String, u16)>,
    fvar_inst: Vec<(u16, Option<u16>, Vec<f64>)>,
    stat_axes: Vec<(String, u16)>,
    stat_values: Vec<u16>,
    stat_elided: Option<u16>,
    has_stat: bool,
    feat: Vec<(String, String, Vec<u16>)>, // (table/tag, kind, ids)
}

fn decode(bytes: &[u8]) -> Result<Decoded, String> {
    let font = FontRef::new(bytes).map_err(|e| e.to_string())?;
    let mut d = Decoded::default();
    let name = font.name().map_err(|e| format!("name: {e}"))?;
    for r in name.name_record() {
        let s = r.string(name.string_data()).map_err(|e| format!("name string: {e}"))?;
        d.names.push((r.name_id().to_u16(), r.platform_id(), r.encoding_id(), r.language_id(), s.chars().collect()));
    }
    if let Ok(fvar) = font.fvar() {
        for a in fvar.axes().map_err(|e| e.to_string())? {
            d.fvar_axes.push((a.axis_tag().to_string(), a.axis_name_id().to_u16()));
        }
        let insts = fvar.instances().map_err(|e| e.to_string())?;
        for i in insts.iter() {
            let i = i.map_err(|e| e.to_string())?;
            d.fvar_inst.push((
                i.subfamily_name_id.to_u16(),
                i.post_script_name_id.map(|x| x.to_u16()),
                i.coordinates.iter().map(|c| c.get().to_f64()).collect(),
            ));
        }
    }
    if let Ok(stat) = font.stat() {
        d.has_stat = true;
        for a in stat.design_axes().map_err(|e| e.to_string())? {
            d.stat_axes.push((a.axis_tag().to_string(), a.axis_name_id().to_u16()));
        }
        if let Some(v) = stat.offset_to_axis_values() {
            let v = v.map_err(|e| e.to_string())?;
            for av in v.axis_values().iter() {
                let av = av.map_err(|e| e.to_string())?;
                d.stat_values.push(av.value_name_id().to_u16());
            }
        }
        d.stat_elided = stat.elided_fallback_name_id().map(|x| x.to_u16());
    }
    use write_fonts::read::tables::layout::FeatureParams as FP;
    let mut feats = |which: &str, fl: write_fonts::read::tables::layout::FeatureList| -> Result<(), String> {
        for rec in fl.feature_records() {
            let f = rec.feature(fl.offset_data()).map_err(|e| e.to_string())?;
            if let Some(p) = f.feature_params() {
                let p = p.map_err(|e| format!("feature params {}: {e}", rec.feature_tag()))?;
                let tag = format!("{which}/{}", rec.feature_tag());
                match p {
                    FP::StylisticSet(s) => d.feat.push((tag, "ss".into(), vec![s.ui_name_id().to_u16()])),
                    FP::Size(s) => d.feat.push((tag, "size".into(), vec![s.name_entry()])),
                    FP::CharacterVariant(c) => {
                        let mut ids = vec![c.feat_ui_label_name_id().to_u16(), c.feat_ui_tooltip_text_name_id().to_u16(), c.sample_text_name_id().to_u16()];
                        let first = c.first_param_ui_label_name_id().to_u16();
                        for k in 0..c.num_named_parameters() {
                            ids.push(first + k);
                        }
                        d.feat.push((tag, "cv".into(), ids));
                    }
                }
            }
        }
        Ok(())
    };
    if let Ok(g) = font.gsub() {
        feats("GSUB", g.feature_list().map_err(|e| e.to_string())?)?;
    }
    if let Ok(g) = font.gpos() {
        feats("GPOS", g.feature_list().map_err(|e| e.to_string())?)?;
    }
    Ok(d)
}

fn compile_cfg(c: &Cfg) -> Outcome {
    let dir = scratch_dir("c18");
    let p = write_design(c, dir.path());
    compile_path(&p, None, None)
}

fn show(c: &Cfg, label: &str, reps: usize) {
    println!("==== {label}");
    let mut seen = BTreeSet::new();
    for _ in 0..reps {
        match compile_cfg(c) {
            Outcome::Font(b) => match decode(&b) {
                Ok(d) => {
                    let s = format!("{:?}", d);
                    if seen.insert(s) {
                        for n in &d.names {
                            println!("  name {:?}", n);
                        }
                        println!("  fvar axes {:?}\n  fvar inst {:?}\n  stat {:?} {:?} elided {:?} has={}\n  feat {:?}", d.fvar_axes, d.fvar_inst, d.stat_axes, d.stat_values, d.stat_elided, d.has_stat, d.feat);
                        println!("  ----");
                    }
                }
                Err(e) => println!("  decode error {e}"),
            },
            Outcome::Error(e) => {
                if seen.insert(format!("E{e}")) {
                    println!("  ERROR {e}")
                }
            }
            Outcome::Panic(e) => {
                if seen.insert(format!("P{e}")) {
                    println!("  PANIC {e}")
                }
            }
        }
    }
    println!("  distinct outcomes: {}", seen.len());
}

fn main() {
    quiet_panics();
    let _ = (json!({}), BTreeMap::<u8, u8>::new());
    let wght = AxisCfg { name: "Weight".into(), tag: "wght".into(), label: None, min: 400.0, def: 400.0, max: 700.0 };
    let base = Cfg {
        family: "Fam".into(),
        style: "Regular".into(),
        axes: vec![wght.clone()],
        instances: vec![InstCfg { style: "Regular".into(), ps: None, loc: vec![400.0] }, InstCfg { style: "Bold".into(), ps: Some("Fam-Bold".into()), loc: vec![700.0] }],
        ..Default::default()
    };
    show(&base, "basic", 1);
    let mut c = base.clone();
    c.instances[0].style = "Fam".into();
    show(&c, "default instance named like the family", 4);
    let mut c = base.clone();
    c.family = "Regular".into();
    show(&c, "all Regular", 12);
    let mut c = base.clone();
    c.fontinfo.push(("openTypeNameRecords".into(), "<array><dict><key>nameID</key><integer>256</integer><key>platformID</key><integer>3</integer><key>encodingID</key><integer>1</integer><key>languageID</key><integer>1033</integer><key>string</key><string>Source 256</string></dict></array>".into()));
    show(&c, "source name record 256", 12);
    let common = "feature ss01 { featureNames { name \"Alt a\"; name 1 \"Alt a mac\"; }; sub a by a.alt; } ss01;\nfeature cv01 { cvParameters { FeatUILabelNameID { name \"CV label\"; }; ParamUILabelNameID { name \"P1\"; }; ParamUILabelNameID { name \"P2\"; }; Character 0x61; }; sub a by a.alt; } cv01;\n";
    let mut c = base.clone();
    c.fea = Some(format!("{common}table STAT {{ ElidedFallbackName {{ name \"Regular\"; }}; DesignAxis wght 0 {{ name \"Weight\"; }}; AxisValue {{ location wght 400; name \"Regular\"; flag ElidableAxisValueName; }}; AxisValue {{ location wght 700; name \"Bold\"; }}; }} STAT;\ntable name {{ nameid 9 \"Designer\"; nameid 300 \"Three hundred\"; }} name;\n"));
    show(&c, "fea names + STAT elided name", 2);
    let mut c = base.clone();
    c.fea = Some(format!("{common}table name {{ nameid 2 \"Regular\"; nameid 9 \"Designer\"; }} name;\ntable STAT {{ ElidedFallbackNameID 2; DesignAxis wght 0 {{ name \"Weight\"; }}; }} STAT;\n"));
    show(&c, "fea names + STAT elided id 2 + name 2 in fea", 2);
    let mut c = base.clone();
    c.fea = Some("feature size { parameters 10.0 3 80 139; sizemenuname \"Win Text\"; sizemenuname 1 \"Mac Text\"; } size;\n".to_string());
    show(&c, "size feature", 1);
    let mut c = base.clone();
    c.fea = Some("feature ss01 { featureNames { name \"\"; }; sub a by a.alt; } ss01;\nfeature ss02 { featureNames { name \"Second\"; }; sub a by a.alt; } ss02;\n".into());
    show(&c, "fea empty name", 2);
    let mut c = base.clone();
    c.axes.clear();
    c.instances.clear();
    c.fea = Some("feature ss01 { featureNames { name \"Alt a\"; }; sub a by a.alt; } ss01;\ntable STAT { ElidedFallbackNameID 2; DesignAxis wght 0 { name \"Weight\"; }; } STAT;".into());
    show(&c, "static + fea", 2);
}
