//! C18: names referenced from other tables exist and say what the source says.
//!
//! Three streams, all seeded from one `Rng`:
//!  A. `fontir::ir::NameBuilder` (public) on generated `add` sequences: the fallback chain for
//!     family / style / version / unique id / full / PostScript names;
//!  B. `fontir::ir::StaticMetadata::new` (public) on generated name maps, axes and instances: the
//!     name-id registration. Every source goes through several calls on fresh HashMaps (16 when the
//!     source supplies ids above 255); each call's iteration order is observed and handed to the model;
//!  C. whole fonts compiled in-process from generated designspace + UFO sources (fontinfo naming
//!     fields, axis label names, instances, names from FEA: featureNames, cvParameters, size,
//!     STAT, name table), decoded with read-fonts (name, fvar, STAT, GSUB/GPOS feature params).
//! For every case the property predicate is evaluated directly on the implementation's output
//! (violations carry a key naming the failure class) and a Gallina term compares the Coq model
//! (FV.C18.Model) with it.
use fontdrasil::coords::{CoordConverter, NormalizedCoord, NormalizedLocation, UserCoord};
use fontdrasil::types::{Axis, Tag};
use fontir::ir::{NameBuilder, NameKey, NamedInstance, StaticMetadata};
use serde_json::json;
use std::collections::{BTreeMap, BTreeSet, HashMap, HashSet};
use std::str::FromStr;
use vh::srcgen::{compile_path, quiet_panics, scratch_dir, xml_escape, AxisSrc, Design, GlyphSrc, InstanceSrc, Master, Outcome};
use vh::*;
use write_fonts::read::{FontRef, TableProvider};
use write_fonts::types::NameId;

// ---------------------------------------------------------------------------------------------
// Gallina printers
// ---------------------------------------------------------------------------------------------
fn cs(s: &str) -> String {
    coq_str(s)
}
fn c_names(v: &[(u16, u16, String)]) -> String {
    coq_list(v, |(id, enc, s)| format!("(({}, {}), {})", coq_n(*id as u64), coq_n(*enc as u64), cs(s)))
}
fn c_frecs(v: &[(u16, u16, u16, u16, String)]) -> String {
    // decoded order is (id, platform, encoding, language, string); the model wants ((p, e, l, id), s)
    coq_list(v, |(id, p, e, l, s)| format!("(({}, {}, {}, {}), {})", coq_n(*p as u64), coq_n(*e as u64), coq_n(*l as u64), coq_n(*id as u64), cs(s)))
}
fn c_nlist(v: &[u16]) -> String {
    coq_list(v, |x| coq_n(*x as u64))
}

// ---------------------------------------------------------------------------------------------
// Source description for whole fonts
// ---------------------------------------------------------------------------------------------
#[derive(Clone, Debug, Default)]
struct AxisCfg {
    name: String,
    tag: String,
    label: Option<String>,
    min: i64,
    def: i64,
    max: i64,
}
impl AxisCfg {
    /// fontdrasil Axis::ui_label_name
    fn ui_label(&self) -> String {
        if let Some(l) = &self.label {
            return l.clone();
        }
        match self.name.as_str() {
            "weight" => "Weight".into(),
            "width" => "Width".into(),
            "slant" => "Slant".into(),
            "optical" => "Optical Size".into(),
            "italic" => "Italic".into(),
            n => n.into(),
        }
    }
    fn is_point(&self) -> bool {
        self.min == self.def && self.max == self.def
    }
}
#[derive(Clone, Debug, Default)]
struct InstCfg {
    style: String,
    ps: Option<String>,
    loc: Vec<i64>,
}
/// one FEA name statement: (platform, encoding, language, text)
type Spec = (u16, u16, u16, String);
#[derive(Clone, Debug)]
enum Elided {
    Rec(Vec<Spec>),
    Id(u16),
}
#[derive(Clone, Debug, Default)]
struct CvCfg {
    label: Option<Vec<Spec>>,
    tooltip: Option<Vec<Spec>>,
    sample: Option<Vec<Spec>>,
    params: Vec<Vec<Spec>>,
}
#[derive(Clone, Debug, Default)]
struct StatCfg {
    elided: Option<Elided>,
    /// (tag, names, values: (location value, names))
    axes: Vec<(String, Vec<Spec>, Vec<(i64, Vec<Spec>)>)>,
}
#[derive(Clone, Debug, Default)]
struct FeaCfg {
    explicit: Vec<(u16, Spec)>,
    stat: Option<StatCfg>,
    size: Option<Vec<Spec>>,
    ss: BTreeMap<String, Vec<Spec>>,
    cv: BTreeMap<String, CvCfg>,
    /// name-bearing features (by tag) with script-specific rules: several feature records per tag
    scripted: BTreeSet<String>,
    /// stylistic sets that also have a positioning rule: the tag is in GSUB and in GPOS
    in_gpos: BTreeSet<String>,
}
#[derive(Clone, Debug, Default)]
struct Cfg {
    family: String,
    style: String,
    /// string-valued fontinfo fields that feed the name table: (fontinfo key, value)
    info: Vec<(String, String)>,
    version_major: Option<i64>,
    version_minor: Option<i64>,
    vendor: Option<String>,
    /// openTypeNameRecords: (name id, string)
    records: Vec<(u16, String)>,
    axes: Vec<AxisCfg>,
    instances: Vec<InstCfg>,
    fea: Option<FeaCfg>,
}

fn cfg_json(c: &Cfg) -> serde_json::Value {
    json!({
        "family": c.family, "style": c.style, "fontinfo": c.info, "versionMajor": c.version_major,
        "versionMinor": c.version_minor, "vendor": c.vendor, "openTypeNameRecords": c.records,
        "axes": c.axes.iter().map(|a| json!({"name": a.name, "tag": a.tag, "label": a.label, "min": a.min, "default": a.def, "max": a.max})).collect::<Vec<_>>(),
        "instances": c.instances.iter().map(|i| json!({"stylename": i.style, "postscriptfontname": i.ps, "location": i.loc})).collect::<Vec<_>>(),
        "features": c.fea.as_ref().map(fea_text),
    })
}

fn spec_syntax(s: &Spec) -> String {
    let (p, e, l, t) = s;
    if (*p, *e, *l) == (3, 1, 0x409) {
        format!("\"{t}\"")
    } else if (*p, *e, *l) == (1, 0, 0) {
        format!("1 \"{t}\"")
    } else {
        format!("{p} {e} {l} \"{t}\"")
    }
}
fn names_block(v: &[Spec], kw: &str) -> String {
    v.iter().map(|s| format!("{kw} {};", spec_syntax(s))).collect::<Vec<_>>().join(" ")
}

fn fea_text(f: &FeaCfg) -> String {
    let mut s = String::new();
    if !f.scripted.is_empty() {
        s.push_str("languagesystem DFLT dflt;\nlanguagesystem latn dflt;\nlanguagesystem cyrl dflt;\n");
    }
    // features first, tables after: the allocation order does not depend on the file order
    for (tag, names) in &f.ss {
        let pos = if f.in_gpos.contains(tag) { " pos a 10;" } else { "" };
        let scr = if f.scripted.contains(tag) { " script cyrl; sub b by b.alt;" } else { "" };
        s.push_str(&format!("feature {tag} {{ featureNames {{ {} }}; sub a by a.alt;{pos}{scr} }} {tag};\n", names_block(names, "name")));
    }
    for (tag, cv) in &f.cv {
        let mut p = String::new();
        if let Some(n) = &cv.label {
            p.push_str(&format!("FeatUILabelNameID {{ {} }}; ", names_block(n, "name")));
        }
        if let Some(n) = &cv.tooltip {
            p.push_str(&format!("FeatUITooltipTextNameID {{ {} }}; ", names_block(n, "name")));
        }
        if let Some(n) = &cv.sample {
            p.push_str(&format!("SampleTextNameID {{ {} }}; ", names_block(n, "name")));
        }
        for n in &cv.params {
            p.push_str(&format!("ParamUILabelNameID {{ {} }}; ", names_block(n, "name")));
        }
        let scr = if f.scripted.contains(tag) { " script cyrl; sub b by b.alt;" } else { "" };
        s.push_str(&format!("feature {tag} {{ cvParameters {{ {p}Character 0x61; }}; sub a by a.alt;{scr} }} {tag};\n"));
    }
    if let Some(n) = &f.size {
        s.push_str(&format!("feature size {{ parameters 10.0 3 80 139; {} }} size;\n", names_block(n, "sizemenuname")));
    }
    if let Some(st) = &f.stat {
        s.push_str("table STAT {\n");
        match &st.elided {
            Some(Elided::Rec(n)) => s.push_str(&format!("  ElidedFallbackName {{ {} }};\n", names_block(n, "name"))),
            Some(Elided::Id(i)) => s.push_str(&format!("  ElidedFallbackNameID {i};\n")),
            None => {}
        }
        for (k, (tag, names, _)) in st.axes.iter().enumerate() {
            s.push_str(&format!("  DesignAxis {tag} {k} {{ {} }};\n", names_block(names, "name")));
        }
        for (tag, _, values) in &st.axes {
            for (v, names) in values {
                s.push_str(&format!("  AxisValue {{ location {tag} {v}; {} }};\n", names_block(names, "name")));
            }
        }
        s.push_str("} STAT;\n");
    }
    if !f.explicit.is_empty() {
        s.push_str("table name {\n");
        for (id, sp) in &f.explicit {
            s.push_str(&format!("  nameid {id} {};\n", spec_syntax(sp)));
        }
        s.push_str("} name;\n");
    }
    s
}

/// the allocation program of the model: (kind, specs) in the order fea-rs allocates ids
fn fea_prog(f: &FeaCfg) -> Vec<(String, Vec<Spec>)> {
    let mut p: Vec<(String, Vec<Spec>)> = Vec::new();
    for (id, sp) in &f.explicit {
        p.push((format!("GExplicit {}", coq_n(*id as u64)), vec![sp.clone()]));
    }
    if let Some(st) = &f.stat {
        match &st.elided {
            Some(Elided::Rec(n)) => p.push(("GElidedRec".into(), n.clone())),
            Some(Elided::Id(i)) => p.push((format!("GElidedId {}", coq_n(*i as u64)), vec![])),
            None => {}
        }
        for (_, names, values) in &st.axes {
            p.push(("GAdj".into(), names.clone()));
            for (_, vn) in values {
                p.push(("GAdj".into(), vn.clone()));
            }
        }
    }
    if let Some(n) = &f.size {
        p.push(("GSize".into(), n.clone()));
    }
    for names in f.ss.values() {
        p.push(("GAdj".into(), names.clone()));
    }
    for cv in f.cv.values() {
        for n in [&cv.label, &cv.tooltip, &cv.sample].into_iter().flatten() {
            p.push(("GAdj".into(), n.clone()));
        }
        for (k, n) in cv.params.iter().enumerate() {
            p.push((if k == 0 { "GAdj".into() } else { "GAnon".into() }, n.clone()));
        }
    }
    p
}
fn c_prog(p: &[(String, Vec<Spec>)]) -> String {
    coq_list(p, |(k, specs)| {
        format!("({}, {})", k, coq_list(specs, |(p, e, l, t)| format!("(({}, {}, {}), {})", coq_n(*p as u64), coq_n(*e as u64), coq_n(*l as u64), cs(t))))
    })
}

/// the `add` calls ufo2fontir's names() performs for this fontinfo, in its order
fn ufo_adds(c: &Cfg) -> Vec<(u16, String)> {
    let get = |k: &str| c.info.iter().find(|(kk, _)| kk == k).map(|(_, v)| v.clone());
    let mut a: Vec<(u16, String)> = Vec::new();
    let mut add = |id: u16, v: Option<String>| {
        if let Some(v) = v {
            a.push((id, v));
        }
    };
    add(0, get("copyright"));
    add(1, get("styleMapFamilyName"));
    add(
        2,
        get("styleMapStyleName").map(|s| match s.as_str() {
            "regular" => "Regular".to_string(),
            "italic" => "Italic".to_string(),
            "bold" => "Bold".to_string(),
            _ => "Bold Italic".to_string(),
        }),
    );
    add(3, get("openTypeNameUniqueID"));
    add(5, get("openTypeNameVersion"));
    add(6, get("postscriptFontName"));
    add(7, get("trademark"));
    add(8, get("openTypeNameManufacturer"));
    add(9, get("openTypeNameDesigner"));
    add(10, get("openTypeNameDescription"));
    add(11, get("openTypeNameManufacturerURL"));
    add(12, get("openTypeNameDesignerURL"));
    add(13, get("openTypeNameLicense"));
    add(14, get("openTypeNameLicenseURL"));
    add(16, get("openTypeNamePreferredFamilyName").or(Some(c.family.clone())));
    add(17, get("openTypeNamePreferredSubfamilyName").or(Some(c.style.clone())));
    add(18, get("openTypeNameCompatibleFullName"));
    add(19, get("openTypeNameSampleText"));
    add(21, get("openTypeNameWWSFamilyName"));
    add(22, get("openTypeNameWWSSubfamilyName"));
    for (id, s) in &c.records {
        a.push((*id, s.clone()));
    }
    a
}

fn glyphs(shift: f64) -> Vec<GlyphSrc> {
    vec![
        GlyphSrc::new(".notdef", 500.0).rect(50.0, 0.0, 450.0 + shift, 700.0),
        GlyphSrc::new("a", 500.0 + shift).uni(0x61).rect(40.0, 0.0, 400.0 + shift, 500.0),
        GlyphSrc::new("a.alt", 520.0 + shift).rect(40.0, 0.0, 420.0 + shift, 500.0),
        GlyphSrc::new("b", 510.0 + shift).uni(0x431).rect(40.0, 0.0, 410.0 + shift, 700.0),
        GlyphSrc::new("b.alt", 530.0 + shift).rect(40.0, 0.0, 430.0 + shift, 700.0),
    ]
}

fn pstr(s: &str) -> String {
    format!("<string>{}</string>", xml_escape(s))
}

fn build_design(c: &Cfg) -> Design {
    let mut d = Design { family: c.family.clone(), upem: 1000, ..Default::default() };
    for a in &c.axes {
        d.axes.push(AxisSrc {
            name: a.name.clone(),
            tag: a.tag.clone(),
            min: a.min as f64,
            default: a.def as f64,
            max: a.max as f64,
            map: vec![(a.min as f64, a.min as f64), (a.def as f64, a.def as f64), (a.max as f64, a.max as f64)],
            hidden: false,
        });
    }
    let mut fontinfo: Vec<(String, String)> = c.info.iter().map(|(k, v)| (k.clone(), pstr(v))).collect();
    if let Some(v) = c.version_major {
        fontinfo.push(("versionMajor".into(), format!("<integer>{v}</integer>")));
    }
    if let Some(v) = c.version_minor {
        fontinfo.push(("versionMinor".into(), format!("<integer>{v}</integer>")));
    }
    if let Some(v) = &c.vendor {
        fontinfo.push(("openTypeOS2VendorID".into(), pstr(v)));
    }
    if !c.records.is_empty() {
        let mut s = String::from("<array>");
        for (id, t) in &c.records {
            s.push_str(&format!("<dict><key>nameID</key><integer>{id}</integer><key>platformID</key><integer>3</integer><key>encodingID</key><integer>1</integer><key>languageID</key><integer>1033</integer><key>string</key>{}</dict>", pstr(t)));
        }
        s.push_str("</array>");
        fontinfo.push(("openTypeNameRecords".into(), s));
    }
    let defloc: Vec<(String, f64)> = c.axes.iter().map(|a| (a.name.clone(), a.def as f64)).collect();
    d.masters.push(Master {
        name: "M0".into(),
        style: c.style.clone(),
        location: defloc.clone(),
        glyphs: glyphs(0.0),
        fontinfo,
        features: c.fea.as_ref().map(fea_text),
        ..Default::default()
    });
    for (i, a) in c.axes.iter().enumerate() {
        if a.is_point() {
            continue;
        }
        let mut loc = defloc.clone();
        loc[i].1 = if a.max != a.def { a.max as f64 } else { a.min as f64 };
        d.masters.push(Master { name: format!("M{}", i + 1), style: format!("Master{}", i + 1), location: loc, glyphs: glyphs(40.0 * (i as f64 + 1.0)), ..Default::default() });
    }
    for i in &c.instances {
        d.instances.push(InstanceSrc {
            family: c.family.clone(),
            style: i.style.clone(),
            postscript: i.ps.clone(),
            location: c.axes.iter().zip(i.loc.iter()).map(|(a, v)| (a.name.clone(), *v as f64)).collect(),
        });
    }
    d
}

/// Write the design. Axis label names are patched into the designspace document (srcgen has no
/// field for them): every axis is written with a map, so it has a closing tag to insert before.
fn write_design(c: &Cfg, dir: &std::path::Path) -> std::path::PathBuf {
    let d = build_design(c);
    if c.axes.is_empty() {
        return d.write(dir);
    }
    let p = d.write_designspace(dir);
    let mut xml = std::fs::read_to_string(&p).unwrap();
    let mut out = String::new();
    let mut k = 0usize;
    let close = "    </axis>\n";
    while let Some(pos) = xml.find(close) {
        out.push_str(&xml[..pos]);
        if let Some(l) = c.axes.get(k).and_then(|a| a.label.as_ref()) {
            out.push_str(&format!("      <labelname xml:lang=\"de\">{}-de</labelname>\n", xml_escape(l)));
            out.push_str(&format!("      <labelname xml:lang=\"en\">{}</labelname>\n", xml_escape(l)));
        }
        out.push_str(close);
        xml = xml[pos + close.len()..].to_string();
        k += 1;
    }
    out.push_str(&xml);
    std::fs::write(&p, out).unwrap();
    p
}

// ---------------------------------------------------------------------------------------------
// Decoding
// ---------------------------------------------------------------------------------------------
#[derive(Debug, Default, Clone, PartialEq, Eq, PartialOrd, Ord)]
struct Decoded {
    names: Vec<(u16, u16, u16, u16, String)>, // id, platform, encoding, language, string
    fvar_axes: Vec<(String, u16)>,
    fvar_inst: Vec<(u16, Option<u16>, Vec<i64>)>,
    has_stat: bool,
    stat_axes: Vec<(String, u16)>,
    stat_values: Vec<(u16, u16)>, // (axis index, value name id)
    stat_elided: Option<u16>,
    /// EVERY feature record that has parameters: (table, record index, tag, kind, ids)
    feat: Vec<(String, usize, String, String, Vec<u16>)>,
}

fn decode(bytes: &[u8]) -> Result<Decoded, String> {
    let font = FontRef::new(bytes).map_err(|e| e.to_string())?;
    let mut d = Decoded::default();
    let name = font.name().map_err(|e| format!("name: {e}"))?;
    for r in name.name_record() {
        let s = r.string(name.string_data()).map_err(|e| format!("name string: {e}"))?;
        d.names.push((r.name_id().to_u16(), r.platform_id(), r.encoding_id(), r.language_id(), s.chars().collect()));
    }
    if let Ok(fvar) = font.fvar() {
        for a in fvar.axes().map_err(|e| e.to_string())? {
            d.fvar_axes.push((a.axis_tag().to_string(), a.axis_name_id().to_u16()));
        }
        let insts = fvar.instances().map_err(|e| e.to_string())?;
        for i in insts.iter() {
            let i = i.map_err(|e| e.to_string())?;
            d.fvar_inst.push((
                i.subfamily_name_id.to_u16(),
                i.post_script_name_id.map(|x| x.to_u16()),
                i.coordinates.iter().map(|c| c.get().to_f64().round() as i64).collect(),
            ));
        }
    }
    if let Ok(stat) = font.stat() {
        d.has_stat = true;
        for a in stat.design_axes().map_err(|e| e.to_string())? {
            d.stat_axes.push((a.axis_tag().to_string(), a.axis_name_id().to_u16()));
        }
        if let Some(v) = stat.offset_to_axis_values() {
            let v = v.map_err(|e| e.to_string())?;
            for av in v.axis_values().iter() {
                use write_fonts::read::tables::stat::AxisValue as AV;
                let av = av.map_err(|e| e.to_string())?;
                let (ix, id) = match &av {
                    AV::Format1(t) => (t.axis_index(), t.value_name_id()),
                    AV::Format2(t) => (t.axis_index(), t.value_name_id()),
                    AV::Format3(t) => (t.axis_index(), t.value_name_id()),
                    AV::Format4(t) => (0xFFFF, t.value_name_id()),
                };
                d.stat_values.push((ix, id.to_u16()));
            }
        }
        d.stat_elided = stat.elided_fallback_name_id().map(|x| x.to_u16());
    }
    use write_fonts::read::tables::layout::FeatureParams as FP;
    let mut feats = |table: &str, fl: write_fonts::read::tables::layout::FeatureList| -> Result<(), String> {
        for (ix, rec) in fl.feature_records().iter().enumerate() {
            let f = rec.feature(fl.offset_data()).map_err(|e| e.to_string())?;
            if let Some(p) = f.feature_params() {
                let p = p.map_err(|e| format!("feature params {}: {e}", rec.feature_tag()))?;
                let tag = rec.feature_tag().to_string();
                let (kind, ids) = match p {
                    FP::StylisticSet(s) => ("ss", vec![s.ui_name_id().to_u16()]),
                    FP::Size(s) => ("size", vec![s.name_entry()]),
                    FP::CharacterVariant(c) => {
                        ("cv", vec![c.feat_ui_label_name_id().to_u16(), c.feat_ui_tooltip_text_name_id().to_u16(), c.sample_text_name_id().to_u16(), c.first_param_ui_label_name_id().to_u16(), c.num_named_parameters()])
                    }
                };
                d.feat.push((table.to_string(), ix, tag, kind.to_string(), ids));
            }
        }
        Ok(())
    };
    if let Ok(g) = font.gsub() {
        feats("GSUB", g.feature_list().map_err(|e| e.to_string())?)?;
    }
    if let Ok(g) = font.gpos() {
        feats("GPOS", g.feature_list().map_err(|e| e.to_string())?)?;
    }
    Ok(d)
}

fn compile_cfg(c: &Cfg) -> Outcome {
    let dir = scratch_dir("c18");
    let p = write_design(c, dir.path());
    compile_path(&p, None, None)
}

// ---------------------------------------------------------------------------------------------
// String pools
// ---------------------------------------------------------------------------------------------
const FAMILIES: &[&str] = &["Fam", "Test Sans", "Regular", "Bold", "Weight", "Fam Light", "\u{dc}n\u{ef} Sans", "A\u{1D400}", "Fam [1]"];
const STYLES: &[&str] = &["Regular", "Bold", "Italic", "Bold Italic", "Light", "Condensed Light", "regular", "BOLD", "Semi Bold Italic", "Light  Italic", "Fam"];
const INST_NAMES: &[&str] = &["Regular", "Bold", "Light", "Italic", "Fam", "Weight", "Medium", "Fam-Regular", "Fam Regular", "Black", "Test Sans"];
const LABELS: &[&str] = &["Weight", "Gewicht", "Bold", "Regular", "Fam", "Width", "Medium"];
const VERSIONS: &[&str] = &["Version 2.1", "2.100", "Version 1.0;fontc 0.0.1", "Version 3.0; custom note", "", "Version Version 4", ";fontc 9.9", "v1"];
const FEA_TEXTS: &[&str] = &["Alt a", "Regular", "Bold", "Weight", "Fam", "Text", "Single storey", "Medium"];

fn pick_s(rng: &mut Rng, pool: &[&str]) -> String {
    (*rng.pick(pool)).to_string()
}

// ---------------------------------------------------------------------------------------------
// Stream A: NameBuilder
// ---------------------------------------------------------------------------------------------
struct Tally {
    by_kind: BTreeMap<String, usize>,
    viol: BTreeMap<String, usize>,
    fonts_compiled: usize,
    font_builds: usize,
    alloc_calls: usize,
}
fn viol(t: &mut Tally, key: &str, desc: String, extra: serde_json::Value) {
    let n = t.viol.entry(key.to_string()).or_insert(0);
    *n += 1;
    if *n <= 3 {
        emit_violation(key, desc, extra);
    }
}

fn is_ribbi(s: &str) -> bool {
    matches!(s.to_lowercase().as_str(), "regular" | "italic" | "bold" | "bold italic")
}

fn gen_adds(rng: &mut Rng) -> (Vec<(u16, String)>, &'static str) {
    let mut adds: Vec<(u16, String)> = Vec::new();
    let weird: &[&str] = &["", "Line\r\nBreak", "Old\rMac", "  Spaced   Out ", "\u{dc}n\u{ef}", "A\u{1D400}B", "Br[ack]et(s)", "Tab\tbed", "\u{212A}elvin", "New Font"];
    let val = |rng: &mut Rng, pool: &[&str]| -> String { if rng.chance(1, 6) { pick_s(rng, weird) } else { pick_s(rng, pool) } };
    if rng.chance(2, 5) {
        adds.push((1, val(rng, FAMILIES)));
    }
    if rng.chance(2, 5) {
        adds.push((2, val(rng, STYLES)));
    }
    if rng.chance(1, 4) {
        adds.push((3, val(rng, &["1.000;ABCD;Fam-Regular", "unique"])));
    }
    if rng.chance(1, 5) {
        adds.push((4, val(rng, &["Fam Full", "Fam Regular"])));
    }
    if rng.chance(2, 5) {
        adds.push((5, val(rng, VERSIONS)));
    }
    if rng.chance(1, 4) {
        adds.push((6, val(rng, &["Fam-Regular", "Custom PS"])));
    }
    if rng.chance(4, 5) {
        adds.push((16, val(rng, FAMILIES)));
    }
    if rng.chance(4, 5) {
        adds.push((17, val(rng, STYLES)));
    }
    for id in [0u16, 7, 9, 13, 18, 21, 22, 25, 256, 300] {
        if rng.chance(1, 8) {
            adds.push((id, val(rng, &["Copyright 2026", "Designer", "OFL", "Fam"])));
        }
    }
    let mut kind = "distinct-ids";
    if rng.chance(1, 10) && !adds.is_empty() {
        // the same id twice (UFO openTypeNameRecords can do this)
        let (id, _) = rng.pick(&adds).clone();
        adds.push((id, val(rng, FAMILIES)));
        kind = "repeated-id";
    }
    rng.shuffle(&mut adds);
    (adds, kind)
}

fn stream_namebuilder(rng: &mut Rng, n: usize, id: &mut usize, t: &mut Tally) {
    for _ in 0..n {
        let (adds, kind) = gen_adds(rng);
        let major: i32 = *rng.pick(&[0, 0, 1, 2, 12, -1, 2147483647]);
        let minor: u32 = *rng.pick(&[0, 0, 5, 50, 500, 5000, 7]);
        let vendor = pick_s(rng, &["NONE", "ABCD", "", "A;B"]);
        let src = json!({"adds": adds, "major": major, "minor": minor, "vendor": vendor});
        let adds2 = adds.clone();
        let vendor2 = vendor.clone();
        let r = std::panic::catch_unwind(move || {
            let mut b = NameBuilder::default();
            b.set_version(major, minor);
            for (i, s) in &adds2 {
                b.add(NameId::new(*i), s.clone());
            }
            b.build(&vendor2)
        });
        let out: HashMap<NameKey, String> = match r {
            Ok(o) => o,
            Err(_) => {
                viol(t, "namebuilder-panic", "NameBuilder::build panicked".into(), src);
                continue;
            }
        };
        let mut recs: Vec<(u16, u16, String)> = out.iter().map(|(k, v)| (k.name_id.to_u16(), k.encoding_id, v.clone())).collect();
        recs.sort();
        // ---- property predicate on the implementation's output
        let supplied = |i: u16| adds.iter().rev().find(|(k, _)| *k == i).map(|(_, s)| s.clone());
        for (k, _) in out.iter() {
            if k.platform_id != 3 || k.lang_id != 0x409 {
                viol(t, "name-key-platform", format!("record {:?} is not Windows / en-US", k), src.clone());
            }
        }
        if recs.iter().any(|(_, _, s)| s.is_empty()) {
            viol(t, "name-empty-record", "an empty string is emitted".into(), src.clone());
        }
        let mut ids: Vec<u16> = recs.iter().map(|r| r.0).collect();
        let n_ids = ids.len();
        ids.dedup();
        if ids.len() != n_ids {
            viol(t, "namebuilder-stale-record", format!("two records with the same name id and language (different encodings): {:?}", recs), src.clone());
        }
        // an explicitly blank family / style string blocks the fallbacks by design (ufo2ft #958):
        // such degenerate sources are left to the model comparison
        let degenerate = [1u16, 2, 16, 17].iter().any(|i| supplied(*i).map_or(false, |s| s.trim().is_empty()));
        for i in [1u16, 2, 3, 4, 5] {
            // 6 can legitimately be empty (no printable ASCII in family / style)
            if !degenerate && supplied(i).as_deref() != Some("") && !recs.iter().any(|r| r.0 == i) {
                viol(t, "name-mandatory-missing", format!("name id {i} is missing although the source did not blank it: {:?}", recs), src.clone());
            }
        }
        if supplied(2).is_none() {
            if let Some((_, _, s)) = recs.iter().find(|r| r.0 == 2) {
                if !is_ribbi(s) {
                    viol(t, "legacy-subfamily-not-ribbi", format!("derived legacy subfamily {:?} is not one of the four style names", s), src.clone());
                }
            }
        }
        for (_, enc, s) in &recs {
            let want = if s.chars().all(|c| (c as u32) < 0xFFFF) { 1 } else { 10 };
            if *enc != want {
                viol(t, "name-encoding-wrong", format!("encoding {enc} for {:?}", s), src.clone());
            }
        }
        // ---- model
        let c_adds = coq_list(&adds, |(i, s)| format!("({}, {})", coq_n(*i as u64), cs(s)));
        let coq = format!("same_names (nb_run {} {} {} {}) {}", c_adds, coq_z(major as i64), coq_n(minor as u64), cs(&vendor), c_names(&recs));
        let show = format!("nb_run {} {} {} {}", c_adds, coq_z(major as i64), coq_n(minor as u64), cs(&vendor));
        *t.by_kind.entry(format!("namebuilder:{kind}")).or_insert(0) += 1;
        emit_case(*id, "namebuilder", coq, Some(show), !adds.is_empty(), format!("nb:{:?}{major}.{minor}{vendor}", adds), json!({"src": src, "impl": recs}));
        *id += 1;
    }
}

// ---------------------------------------------------------------------------------------------
// Stream B: StaticMetadata::new
// ---------------------------------------------------------------------------------------------
fn c_axes(axes: &[AxisCfg]) -> String {
    coq_list(axes, |a| format!("{{| a_label := {}; a_min := {}; a_def := {}; a_max := {} |}}", cs(&a.ui_label()), coq_z(a.min), coq_z(a.def), coq_z(a.max)))
}
fn c_insts(insts: &[InstCfg]) -> String {
    coq_list(insts, |i| {
        format!("{{| i_name := {}; i_ps := {}; i_loc := {} |}}", cs(&i.style), coq_opt(&i.ps, |p| cs(p)), coq_list(&i.loc, |z| coq_z(*z)))
    })
}

fn gen_axes(rng: &mut Rng, n: usize, allow_point: bool) -> Vec<AxisCfg> {
    let names = [("Weight", "wght"), ("Width", "wdth"), ("optical", "opsz"), ("Custom Axis", "CUST")];
    let mut v = Vec::new();
    for k in 0..n {
        let (nm, tag) = names[k];
        let nm = if k == 0 && rng.chance(1, 4) { "weight" } else { nm };
        let (min, def, max) = if allow_point && rng.chance(1, 6) {
            (100, 100, 100)
        } else {
            match rng.below(3) {
                0 => (400, 400, 700),
                1 => (100, 400, 900),
                _ => (100, 700, 700),
            }
        };
        v.push(AxisCfg { name: nm.into(), tag: tag.into(), label: if rng.chance(1, 3) { Some(pick_s(rng, LABELS)) } else { None }, min, def, max });
    }
    v
}

fn gen_insts(rng: &mut Rng, axes: &[AxisCfg], n: usize, extra_names: &[String]) -> Vec<InstCfg> {
    let mut v = Vec::new();
    for _ in 0..n {
        let style = if !extra_names.is_empty() && rng.chance(1, 3) { rng.pick(extra_names).clone() } else { pick_s(rng, INST_NAMES) };
        let ps = match rng.below(5) {
            0 => Some(format!("Fam-{}", style.replace(' ', ""))),
            1 => Some(pick_s(rng, &["Fam-Regular", "Regular", "Fam-Bold", "Weight"])),
            _ => None,
        };
        let at_default = rng.chance(2, 5);
        let loc = axes.iter().map(|a| if at_default { a.def } else { *rng.pick(&[a.min, a.def, a.max, (a.min + a.max) / 2]) }).collect();
        v.push(InstCfg { style, ps, loc });
    }
    v
}

type NameRec = (u16, u16, String); // (name id, encoding id, string)

/// One call of the real `StaticMetadata::new` on a FRESH HashMap (new RandomState, so a new
/// iteration order). Returns the iteration order the call saw and the resulting name table.
fn alloc_once(src: &[(u16, String)], axes: &[AxisCfg], insts: &[InstCfg]) -> (Vec<NameRec>, Result<Vec<NameRec>, String>) {
    let names: HashMap<NameKey, String> = src.iter().map(|(i, s)| (NameKey::new(NameId::new(*i), s), s.clone())).collect();
    // the iteration order StaticMetadata::new will see (a move does not rehash)
    let order: Vec<NameRec> = names.iter().map(|(k, v)| (k.name_id.to_u16(), k.encoding_id, v.clone())).collect();
    let ir_axes: Vec<Axis> = axes
        .iter()
        .map(|a| {
            let (mn, df, mx) = (UserCoord::new(a.min as f64), UserCoord::new(a.def as f64), UserCoord::new(a.max as f64));
            Axis {
                name: a.name.clone(),
                tag: Tag::from_str(&a.tag).unwrap(),
                min: mn,
                default: df,
                max: mx,
                hidden: false,
                converter: CoordConverter::unmapped(mn, df, mx),
                localized_names: a.label.iter().map(|l| ("en".to_string(), l.clone())).chain([("fr".to_string(), "Graisse".to_string())]).collect(),
            }
        })
        .collect();
    let ir_insts: Vec<NamedInstance> = insts
        .iter()
        .map(|i| NamedInstance {
            name: i.style.clone(),
            postscript_name: i.ps.clone(),
            location: axes.iter().zip(i.loc.iter()).map(|(a, v)| (Tag::from_str(&a.tag).unwrap(), UserCoord::new(*v as f64))).collect::<Vec<_>>().into(),
        })
        .collect();
    let default_loc: NormalizedLocation = axes.iter().filter(|a| !a.is_point()).map(|a| (Tag::from_str(&a.tag).unwrap(), NormalizedCoord::new(0.0))).collect::<Vec<_>>().into();
    let r = std::panic::catch_unwind(move || StaticMetadata::new(1000, names, ir_axes, ir_insts, HashSet::from([default_loc]), None, 0.0, None, false));
    let out = match r {
        Ok(Ok(sm)) => {
            let mut out: Vec<NameRec> = sm.names.iter().map(|(k, v)| (k.name_id.to_u16(), k.encoding_id, v.clone())).collect();
            out.sort();
            Ok(out)
        }
        Ok(Err(e)) => Err(format!("error: {e}")),
        Err(_) => Err("panic".to_string()),
    };
    (order, out)
}

/// Source name records above 255 of which two or more share a string, the largest id among them.
fn gen_dup_high(rng: &mut Rng, shared: &str) -> Vec<(u16, String)> {
    let ids: &[u16] = *rng.pick(&[&[256u16, 257][..], &[256, 257, 258], &[256, 300], &[257, 300, 301], &[256, 257, 258, 259], &[260, 256]]);
    let mut v: Vec<(u16, String)> = ids.iter().map(|i| (*i, shared.to_string())).collect();
    let top = *ids.iter().max().unwrap();
    // sometimes one more record with its own string, below the top id
    if rng.chance(1, 3) {
        let other = (256..top).find(|i| !ids.contains(i));
        if let Some(i) = other {
            v.push((i, "Another source string".into()));
        }
    }
    rng.shuffle(&mut v);
    v
}

fn stream_alloc(rng: &mut Rng, n: usize, id: &mut usize, t: &mut Tally) {
    for _ in 0..n {
        // source names: reserved ids with strings that collide with labels / instance names
        let mut src: Vec<(u16, String)> = vec![(1, pick_s(rng, FAMILIES)), (2, pick_s(rng, &["Regular", "Bold", "Italic", "Bold Italic"]))];
        for i in [0u16, 3, 4, 5, 6, 9, 16, 17, 21, 25] {
            if rng.chance(1, 3) {
                src.push((i, if rng.chance(1, 2) { pick_s(rng, INST_NAMES) } else { pick_s(rng, FAMILIES) }));
            }
        }
        // font-specific ids supplied by the source: distinct strings, or several records sharing one
        let class = rng.below(16);
        let mut shared: Option<String> = None;
        if class < 2 {
            for i in [256u16, 257, 300] {
                if rng.chance(1, 2) {
                    src.push((i, if rng.chance(1, 2) { pick_s(rng, LABELS) } else { "Source string".into() }));
                }
            }
        } else if class < 5 {
            let sh = match rng.below(3) {
                0 => pick_s(rng, LABELS),
                1 => pick_s(rng, INST_NAMES),
                _ => "Alternate a".to_string(),
            };
            src.extend(gen_dup_high(rng, &sh));
            shared = Some(sh);
        }
        let high = src.iter().any(|(i, _)| *i > 255);
        let dup = shared.is_some();
        let nax = if dup { rng.range(1, 2) as usize } else if high { rng.range(0, 2) as usize } else { rng.range(0, 3) as usize };
        let mut axes = gen_axes(rng, nax, !dup);
        let extra: Vec<String> = src.iter().map(|(_, s)| s.clone()).collect();
        let nin = if dup { rng.range(1, 3) as usize } else if high { rng.range(0, 2) as usize } else { rng.range(0, 5) as usize };
        let mut insts = gen_insts(rng, &axes, nin, &extra);
        if let Some(sh) = &shared {
            // the shared string is also an axis label / an instance name in some cases
            if rng.chance(1, 3) {
                axes[0].label = Some(sh.clone());
            }
            if rng.chance(1, 3) {
                insts[0].style = sh.clone();
            }
        }
        let variable: Vec<&AxisCfg> = axes.iter().filter(|a| !a.is_point()).collect();
        let src_json = json!({"source_names": src, "axes": axes.iter().map(|a| json!({"label": a.ui_label(), "min": a.min, "default": a.def, "max": a.max})).collect::<Vec<_>>(),
            "instances": insts.iter().map(|i| json!({"name": i.style, "ps": i.ps, "loc": i.loc})).collect::<Vec<_>>()});
        // the same source through fresh HashMaps: every call has its own iteration orders
        let reps = if high { 16 } else { 3 };
        let mut outcomes: Vec<(Vec<NameRec>, Result<Vec<NameRec>, String>)> = Vec::new();
        for _ in 0..reps {
            let (order, out) = alloc_once(&src, &axes, &insts);
            if !outcomes.iter().any(|(_, o)| *o == out) {
                outcomes.push((order, out));
            }
        }
        t.alloc_calls += reps;
        if outcomes.len() > 1 {
            let show: Vec<String> = outcomes.iter().map(|(_, o)| match o {
                Ok(v) => format!("{:?}", v.iter().filter(|r| r.0 > 255).collect::<Vec<_>>()),
                Err(e) => e.clone(),
            }).collect();
            viol(t, if high { "names-depend-on-hash-order" } else { "name-alloc-hash-order" },
                format!("{reps} calls of StaticMetadata::new on one source (fresh HashMaps) gave {} different name tables; ids above 255: {}", outcomes.len(), show.join("  vs  ")), src_json.clone());
        }
        let kind = if dup { "alloc:source-ids-above-255-shared-string" } else if high { "alloc:source-ids-above-255" } else if variable.is_empty() { "alloc:static" } else { "alloc:variable" };
        *t.by_kind.entry(kind.to_string()).or_insert(0) += 1;
        for (order, out) in outcomes {
            let mut sj = src_json.clone();
            sj["names_in_iteration_order"] = json!(order);
            let out = match out {
                Ok(o) => o,
                Err(e) => {
                    viol(t, if e == "panic" { "static-metadata-panic" } else { "static-metadata-error" }, format!("StaticMetadata::new: {e}"), sj);
                    continue;
                }
            };
            // ---- property predicate
            // every source record is still there with its string, under its id
            for (i, s) in &src {
                if !out.iter().any(|(oi, _, os)| oi == i && os == s) {
                    let now: Vec<&NameRec> = out.iter().filter(|r| r.0 == *i).collect();
                    viol(t, "source-name-record-overwritten", format!("source name record {i} = {:?} is gone after StaticMetadata::new; name id {i} now holds {:?} (an invented id equals a source id). Result: {:?}", s, now, out), sj.clone());
                }
            }
            // nothing but source records under source ids, and one record per invented string
            let src_ids: BTreeSet<u16> = src.iter().map(|(i, _)| *i).collect();
            let invented: Vec<&NameRec> = out.iter().filter(|r| !src.iter().any(|(i, s)| *i == r.0 && *s == r.2)).collect();
            for r in &invented {
                if src_ids.contains(&r.0) {
                    viol(t, "source-name-record-overwritten", format!("invented record {:?} uses a name id the source already uses", r), sj.clone());
                }
                if r.0 < 256 {
                    viol(t, "invented-id-reserved", format!("invented record {:?} has a reserved id", r), sj.clone());
                }
            }
            for a in &variable {
                let l = a.ui_label();
                if !out.iter().any(|(oi, _, os)| *oi >= 256 && *os == l) {
                    viol(t, "axis-label-unregistered", format!("axis label {:?} has no record with id >= 256: {:?}", l, out), sj.clone());
                }
            }
            if !variable.is_empty() {
                for i in &insts {
                    if !out.iter().any(|(_, _, os)| *os == i.style) {
                        viol(t, "instance-name-unregistered", format!("instance name {:?} has no record", i.style), sj.clone());
                    }
                    if let Some(p) = &i.ps {
                        if !out.iter().any(|(oi, _, os)| *oi >= 256 && os == p) {
                            viol(t, "instance-psname-unregistered", format!("PostScript name {:?} has no record with id >= 256", p), sj.clone());
                        }
                    }
                }
            }
            // ---- model (given the iteration order this call saw)
            let coq = format!("alloc_agrees {} {} {} {}", c_names(&order), c_axes(&axes), c_insts(&insts), c_names(&out));
            let show = format!("extend {o} (alloc {o} {} {})", c_axes(&axes), c_insts(&insts), o = c_names(&order));
            emit_case(*id, "alloc", coq, Some(show), !variable.is_empty(), format!("al:{:?}{:?}{:?}", order, axes, insts), json!({"src": sj, "impl": out}));
            *id += 1;
        }
    }
}

// ---------------------------------------------------------------------------------------------
// Stream C: whole fonts
// ---------------------------------------------------------------------------------------------
fn gen_specs(rng: &mut Rng, allow_empty: bool) -> Vec<Spec> {
    let mut v: Vec<Spec> = Vec::new();
    let text = pick_s(rng, FEA_TEXTS);
    if allow_empty && rng.chance(1, 12) {
        v.push((3, 1, 0x409, String::new()));
        return v;
    }
    v.push((3, 1, 0x409, text.clone()));
    if rng.chance(1, 3) {
        v.push((1, 0, 0, format!("{text} mac")));
    }
    if rng.chance(1, 5) {
        v.push((3, 1, 0x407, format!("{text} de")));
    }
    v
}

fn gen_fea(rng: &mut Rng, axes: &[AxisCfg]) -> FeaCfg {
    let mut f = FeaCfg::default();
    if rng.chance(1, 3) {
        // (feaLib refuses nameid 1-6, so sources that build with fontmake do not have them)
        for id in [9u16, 300, 7, 256] {
            if rng.chance(1, 3) {
                f.explicit.push((id, (3, 1, 0x409, pick_s(rng, &["Designer", "Three hundred", "Fea Family", "Weight"]))));
            }
        }
    }
    for tag in ["ss01", "ss02"] {
        if rng.chance(1, 2) {
            f.ss.insert(tag.into(), gen_specs(rng, true));
            // several feature records for this tag: script-specific rules, and / or the tag in GPOS too
            if rng.chance(1, 3) {
                f.scripted.insert(tag.into());
            }
            if rng.chance(1, 4) {
                f.in_gpos.insert(tag.into());
            }
        }
    }
    if rng.chance(2, 5) {
        let mut cv = CvCfg::default();
        if rng.chance(3, 4) {
            cv.label = Some(gen_specs(rng, false));
        }
        if rng.chance(1, 3) {
            cv.tooltip = Some(gen_specs(rng, false));
        }
        if rng.chance(1, 3) {
            cv.sample = Some(gen_specs(rng, false));
        }
        for _ in 0..rng.below(3) {
            cv.params.push(gen_specs(rng, false));
        }
        f.cv.insert("cv01".into(), cv);
        if rng.chance(1, 3) {
            f.scripted.insert("cv01".into());
        }
    }
    if rng.chance(1, 5) {
        f.size = Some(gen_specs(rng, false));
    }
    if rng.chance(1, 4) {
        let mut st = StatCfg::default();
        st.elided = Some(match rng.below(10) {
            0 => Elided::Id(2), // not in the FEA name table unless declared above
            1 | 2 => {
                // a reserved id the feature file itself declares (feaLib refuses 1-6; 8 is used by nothing else here)
                if !f.explicit.iter().any(|(i, _)| *i == 8) {
                    f.explicit.push((8, (3, 1, 0x409, "Regular".into())));
                }
                Elided::Id(8)
            }
            _ => Elided::Rec(gen_specs(rng, false)),
        });
        let variable: Vec<&AxisCfg> = axes.iter().filter(|a| !a.is_point()).collect();
        if variable.is_empty() {
            st.axes.push(("wght".into(), gen_specs(rng, false), vec![(400, gen_specs(rng, false))]));
        } else {
            for a in variable {
                let mut vals = Vec::new();
                for v in [a.def, a.max] {
                    if rng.chance(1, 2) {
                        vals.push((v, gen_specs(rng, false)));
                    }
                }
                st.axes.push((a.tag.clone(), gen_specs(rng, false), vals));
            }
        }
        f.stat = Some(st);
    }
    f
}

fn gen_cfg(rng: &mut Rng) -> Cfg {
    let mut c = Cfg { family: pick_s(rng, FAMILIES), style: pick_s(rng, STYLES), ..Default::default() };
    let put = |c: &mut Cfg, k: &str, v: String| c.info.push((k.to_string(), v));
    if rng.chance(1, 3) {
        let v = pick_s(rng, FAMILIES);
        put(&mut c, "styleMapFamilyName", v);
    }
    if rng.chance(1, 3) {
        let v = pick_s(rng, &["regular", "italic", "bold", "bold italic"]);
        put(&mut c, "styleMapStyleName", v);
    }
    if rng.chance(1, 5) {
        let v = pick_s(rng, FAMILIES);
        put(&mut c, "openTypeNamePreferredFamilyName", v);
    }
    if rng.chance(1, 5) {
        let v = pick_s(rng, STYLES);
        put(&mut c, "openTypeNamePreferredSubfamilyName", v);
    }
    if rng.chance(1, 3) {
        // (a version that is nothing but a stale ";fontc" stamp is left to the NameBuilder stream)
        let v = pick_s(rng, &VERSIONS[..6]);
        put(&mut c, "openTypeNameVersion", v);
    }
    if rng.chance(1, 6) {
        put(&mut c, "openTypeNameUniqueID", "custom unique id".into());
    }
    if rng.chance(1, 6) {
        let v = pick_s(rng, &["Custom-PS", "Fam-Regular"]);
        put(&mut c, "postscriptFontName", v);
    }
    for k in ["copyright", "trademark", "openTypeNameDesigner", "openTypeNameLicense", "openTypeNameWWSFamilyName", "openTypeNameCompatibleFullName"] {
        if rng.chance(1, 6) {
            let v = pick_s(rng, &["Copyright 2026", "Regular", "Fam", "Some text"]);
            put(&mut c, k, v);
        }
    }
    if rng.chance(1, 2) {
        c.version_major = Some(*rng.pick(&[0, 1, 2, 12]));
        c.version_minor = Some(*rng.pick(&[0, 5, 50, 500, 1000]));
    }
    if rng.chance(1, 4) {
        c.vendor = Some(pick_s(rng, &["ABCD", "GOOG"]));
    }
    if rng.chance(1, 12) {
        c.records.push((*rng.pick(&[9u16, 25, 256, 257, 300]), pick_s(rng, &["Source record", "Weight", "Bold"])));
    }
    // several source records above 255 that share a string, the largest id among them
    let dup_shared: Option<String> = if c.records.is_empty() && rng.chance(1, 10) {
        Some(match rng.below(3) {
            0 => pick_s(rng, LABELS),
            1 => pick_s(rng, INST_NAMES),
            _ => "Alternate a".to_string(),
        })
    } else {
        None
    };
    if let Some(sh) = &dup_shared {
        c.records.extend(gen_dup_high(rng, sh));
    }
    let nax = match rng.below(8) {
        0 | 1 => 0,
        2..=5 => 1,
        _ => 2,
    };
    let nax = if dup_shared.is_some() { nax.max(1) } else { nax };
    c.axes = gen_axes(rng, nax, nax == 2 && dup_shared.is_none());
    let extra = vec![c.family.clone(), c.style.clone()];
    let nin = if nax == 0 { rng.below(2) as usize } else { rng.range(0, 4) as usize };
    let nin = if dup_shared.is_some() { nin.max(1) } else { nin };
    c.instances = gen_insts(rng, &c.axes, nin, &extra);
    if let Some(sh) = &dup_shared {
        // the shared string is also an axis label / an instance name in some cases
        if rng.chance(1, 3) {
            c.axes[0].label = Some(sh.clone());
        }
        if rng.chance(1, 3) {
            c.instances[0].style = sh.clone();
        }
    }
    if rng.chance(2, 5) {
        c.fea = Some(gen_fea(rng, &c.axes));
    }
    c
}

fn scenarios() -> Vec<(&'static str, Cfg, usize)> {
    let wght = AxisCfg { name: "Weight".into(), tag: "wght".into(), label: None, min: 400, def: 400, max: 700 };
    let base = Cfg {
        family: "Fam".into(),
        style: "Regular".into(),
        axes: vec![wght],
        instances: vec![InstCfg { style: "Regular".into(), ps: None, loc: vec![400] }, InstCfg { style: "Bold".into(), ps: Some("Fam-Bold".into()), loc: vec![700] }],
        ..Default::default()
    };
    let w = |t: &str| -> Vec<Spec> { vec![(3, 1, 0x409, t.to_string())] };
    let mut v = vec![("basic", base.clone(), 2)];
    let mut c = base.clone();
    c.instances[0].style = "Fam".into();
    v.push(("default-instance-named-like-family", c, 2));
    let mut c = base.clone();
    c.family = "Regular".into();
    v.push(("family-style-instance-all-regular", c, 10));
    let mut c = base.clone();
    c.records.push((256, "Source 256".into()));
    v.push(("source-record-256", c, 10));
    let mut c = base.clone();
    c.records.push((256, "Alternate a".into()));
    c.records.push((257, "Alternate a".into()));
    v.push(("source-records-256-257-same-string", c, 16));
    let mut c = base.clone();
    c.records.push((1, "B\u{1D400}".into()));
    c.info.push(("styleMapFamilyName".into(), "Fam".into()));
    v.push(("source-record-1-other-encoding", c, 1));
    let mut c = base.clone();
    let mut f = FeaCfg::default();
    f.size = Some(w("Text"));
    c.fea = Some(f);
    v.push(("size-feature-variable", c.clone(), 1));
    c.axes.clear();
    c.instances.clear();
    v.push(("size-feature-static", c, 1));
    let mut c = base.clone();
    let mut f = FeaCfg::default();
    f.explicit.push((8, (3, 1, 0x409, "Regular".into())));
    f.stat = Some(StatCfg { elided: Some(Elided::Id(8)), axes: vec![("wght".into(), w("Weight"), vec![(400, w("Regular")), (700, w("Bold"))])] });
    c.fea = Some(f.clone());
    v.push(("stat-elided-id-8-declared-in-fea", c.clone(), 1));
    f.explicit.clear();
    f.stat.as_mut().unwrap().elided = Some(Elided::Id(2));
    c.fea = Some(f);
    v.push(("stat-elided-id-2-from-source", c, 1));
    let mut c = base.clone();
    let mut f = FeaCfg::default();
    f.ss.insert("ss01".into(), w(""));
    f.ss.insert("ss02".into(), w("Second"));
    c.fea = Some(f);
    v.push(("fea-empty-feature-name", c, 1));
    let mut c = base.clone();
    let mut f = FeaCfg::default();
    f.ss.insert("ss01".into(), vec![(3, 1, 0x409, "Alt a".into()), (1, 0, 0, "Alt a mac".into())]);
    f.cv.insert("cv01".into(), CvCfg { label: Some(w("CV label")), tooltip: None, sample: Some(w("a")), params: vec![w("P1"), w("P2")] });
    f.explicit.push((9, (3, 1, 0x409, "Designer".into())));
    f.explicit.push((300, (3, 1, 0x409, "Three hundred".into())));
    f.stat = Some(StatCfg { elided: Some(Elided::Rec(w("Regular"))), axes: vec![("wght".into(), w("Weight"), vec![(400, w("Regular"))])] });
    c.fea = Some(f);
    v.push(("fea-all-kinds", c, 1));
    // name-bearing features with more than one feature record (script-specific rules, GSUB and GPOS)
    let mut c = base.clone();
    let mut f = FeaCfg::default();
    f.ss.insert("ss01".into(), w("Fancy a and be"));
    f.ss.insert("ss02".into(), w("Second set"));
    f.scripted.insert("ss01".into());
    f.in_gpos.insert("ss01".into());
    f.in_gpos.insert("ss02".into());
    f.cv.insert("cv01".into(), CvCfg { label: Some(w("CV label")), tooltip: Some(w("Tip")), sample: None, params: vec![w("P1"), w("P2")] });
    f.scripted.insert("cv01".into());
    c.fea = Some(f.clone());
    v.push(("several-feature-records-variable", c.clone(), 1));
    c.axes.clear();
    c.instances.clear();
    c.records.push((300, "Source 300".into()));
    v.push(("several-feature-records-static-source-id-300", c, 1));
    v
}

fn win_string(d: &Decoded, id: u16) -> Option<String> {
    d.names.iter().find(|n| n.0 == id && n.1 == 3 && n.3 == 0x409).map(|n| n.4.clone())
}

/// Evaluate the property on one decoded font. Returns the observation for the model.
fn check_font(t: &mut Tally, c: &Cfg, d: &Decoded, version: &str, sj: &serde_json::Value) -> String {
    let variable: Vec<&AxisCfg> = c.axes.iter().filter(|a| !a.is_point()).collect();
    let fea = c.fea.clone().unwrap_or_default();
    let has_id = |id: u16| d.names.iter().any(|n| n.0 == id);
    let need = |t: &mut Tally, whre: &str, id: u16| {
        if !has_id(id) {
            viol(t, &format!("ref-missing-{whre}"), format!("{whre} refers to name id {id}, which has no record"), sj.clone());
        } else if d.names.iter().any(|n| n.0 == id && n.4.is_empty()) {
            viol(t, &format!("ref-empty-{whre}"), format!("{whre} refers to name id {id}, whose record is empty"), sj.clone());
        }
    };
    if d.names.iter().any(|n| n.4.is_empty()) && !fea.explicit.iter().any(|(_, s)| s.3.is_empty()) {
        viol(t, "name-empty-record", "the name table holds an empty record".into(), sj.clone());
    }
    // ---- fvar
    if variable.is_empty() {
        if !d.fvar_axes.is_empty() {
            viol(t, "fvar-in-static-font", "fvar present without a variable axis".into(), sj.clone());
        }
    } else {
        if d.fvar_axes.len() != variable.len() {
            viol(t, "fvar-axis-count", format!("{} fvar axes for {} variable source axes", d.fvar_axes.len(), variable.len()), sj.clone());
        }
        for (a, (tag, id)) in variable.iter().zip(d.fvar_axes.iter()) {
            need(t, "fvar-axis", *id);
            if *id < 256 {
                viol(t, "axis-id-reserved", format!("fvar axis {tag} uses reserved name id {id}"), sj.clone());
            }
            if has_id(*id) && win_string(d, *id).as_deref() != Some(a.ui_label().as_str()) {
                viol(t, "axis-name-wrong", format!("fvar axis {tag}: name id {id} = {:?}, the source label is {:?}", win_string(d, *id), a.ui_label()), sj.clone());
            }
        }
        if d.fvar_inst.len() != c.instances.len() {
            viol(t, "fvar-instance-count", format!("{} fvar instances for {} source instances", d.fvar_inst.len(), c.instances.len()), sj.clone());
        }
        let any_ps = c.instances.iter().any(|i| i.ps.is_some());
        for (i, (sub, ps, _coords)) in c.instances.iter().zip(d.fvar_inst.iter()) {
            let at_default = c.axes.iter().zip(i.loc.iter()).filter(|(a, _)| !a.is_point()).all(|(a, v)| a.def == *v);
            need(t, "fvar-instance", *sub);
            if !(*sub >= 256 || (at_default && (*sub == 2 || *sub == 17))) {
                viol(t, "fvar-instance-reserved-id", format!("instance {:?} (default location: {at_default}) uses subfamilyNameID {sub}; only 2 / 17 at the default instance or ids >= 256 are allowed", i.style), sj.clone());
            }
            if has_id(*sub) && win_string(d, *sub).as_deref() != Some(i.style.as_str()) {
                viol(t, "instance-name-wrong", format!("instance {:?}: name id {sub} = {:?}", i.style, win_string(d, *sub)), sj.clone());
            }
            match (ps, &i.ps, any_ps) {
                (None, _, false) => {}
                // read-fonts reports postScriptNameID 0xFFFF ("none") as None
                (None, None, true) | (Some(0xFFFF), None, true) => {}
                (Some(id), Some(p), true) => {
                    need(t, "fvar-psname", *id);
                    if !(*id >= 256 || (at_default && *id == 6)) {
                        viol(t, "fvar-psname-reserved-id", format!("instance {:?} uses postScriptNameID {id}", i.style), sj.clone());
                    }
                    if has_id(*id) && win_string(d, *id).as_deref() != Some(p.as_str()) {
                        viol(t, "instance-psname-wrong", format!("instance {:?}: name id {id} = {:?}, the source says {:?}", i.style, win_string(d, *id), p), sj.clone());
                    }
                }
                other => viol(t, "fvar-psname-presence", format!("instance {:?}: postScriptNameID {:?}", i.style, other.0), sj.clone()),
            }
        }
    }
    // ---- STAT
    let mut o_adj: Vec<u16> = Vec::new();
    let mut o_elided: Option<u16> = None;
    // (kind, specs, id the font uses, where it is used, number of the source group)
    let mut groups: Vec<(String, Vec<Spec>, u16, String, usize)> = Vec::new();
    let mut gid = 1000usize;
    if let Some(st) = &fea.stat {
        if !d.has_stat {
            viol(t, "stat-missing", "the FEA declares a STAT table, the font has none".into(), sj.clone());
        } else {
            o_elided = d.stat_elided;
            match (&st.elided, d.stat_elided) {
                (Some(Elided::Id(want)), Some(got)) => {
                    if *want == got {
                        need(t, "stat-elided", got);
                    }
                    if *want != got {
                        viol(t, "stat-elided-id-shifted", format!("ElidedFallbackNameID {want} in the source, elidedFallbackNameID {got} = {:?} in the font", win_string(d, got)), sj.clone());
                    }
                }
                (Some(Elided::Rec(specs)), Some(got)) => { gid += 1; groups.push(("stat-elided".into(), specs.clone(), got, String::new(), gid)) },
                _ => {}
            }
            for (k, (tag, names, values)) in st.axes.iter().enumerate() {
                if let Some((dtag, id)) = d.stat_axes.get(k) {
                    if dtag != tag {
                        viol(t, "stat-axis-order", format!("STAT axis {k} is {dtag}, the source says {tag}"), sj.clone());
                    }
                    o_adj.push(*id);
                    { gid += 1; groups.push(("stat-axis".into(), names.clone(), *id, String::new(), gid)) };
                    if *id < 256 {
                        viol(t, "axis-id-reserved", format!("STAT axis {tag} uses reserved name id {id}"), sj.clone());
                    }
                } else {
                    viol(t, "stat-axis-count", format!("STAT has {} axes", d.stat_axes.len()), sj.clone());
                }
                let vals: Vec<u16> = d.stat_values.iter().filter(|(ix, _)| *ix as usize == k).map(|(_, id)| *id).collect();
                if vals.len() != values.len() {
                    viol(t, "stat-value-count", format!("{} axis values for axis {tag}, the source has {}", vals.len(), values.len()), sj.clone());
                }
                for ((_, vn), id) in values.iter().zip(vals.iter()) {
                    o_adj.push(*id);
                    { gid += 1; groups.push(("stat-value".into(), vn.clone(), *id, String::new(), gid)) };
                }
            }
        }
    } else if !variable.is_empty() {
        if !d.has_stat {
            viol(t, "stat-missing", "variable font without STAT".into(), sj.clone());
        }
        for (a, (tag, id)) in variable.iter().zip(d.stat_axes.iter()) {
            need(t, "stat-axis", *id);
            if *id < 256 {
                viol(t, "axis-id-reserved", format!("STAT axis {tag} uses reserved name id {id}"), sj.clone());
            }
            if has_id(*id) && win_string(d, *id).as_deref() != Some(a.ui_label().as_str()) {
                viol(t, "axis-name-wrong", format!("STAT axis {tag}: name id {id} = {:?}, the source label is {:?}", win_string(d, *id), a.ui_label()), sj.clone());
            }
        }
        if let Some(e) = d.stat_elided {
            need(t, "stat-elided", e);
        }
    }
    // ---- feature parameters: EVERY feature record of a name-bearing tag, not the first per tag
    let mut o_size: Vec<u16> = Vec::new();
    let mut o_records: Vec<(bool, Vec<usize>, Vec<u16>)> = Vec::new(); // (size?, positions in o_size / o_adj, ids of the record)
    let recs_of = |tag: &str, kind: &str| -> Vec<&(String, usize, String, String, Vec<u16>)> { d.feat.iter().filter(|f| f.2 == tag && f.3 == kind).collect() };
    if let Some(specs) = &fea.size {
        let recs = recs_of("size", "size");
        if recs.is_empty() {
            viol(t, "feature-params-missing", "size feature has no parameters".into(), sj.clone());
        }
        gid += 1;
        for (k, f) in recs.iter().enumerate() {
            if k == 0 {
                o_size.push(f.4[0]);
            }
            o_records.push((true, vec![0], vec![f.4[0]]));
            groups.push(("size".into(), specs.clone(), f.4[0], format!("{} feature record #{} (size)", f.0, f.1), gid));
        }
    }
    for (tag, specs) in &fea.ss {
        let recs = recs_of(tag, "ss");
        if recs.is_empty() {
            viol(t, "feature-params-missing", format!("{tag} has no feature parameters"), sj.clone());
        }
        gid += 1;
        let pos = o_adj.len();
        for (k, f) in recs.iter().enumerate() {
            if k == 0 {
                o_adj.push(f.4[0]);
            }
            o_records.push((false, vec![pos], vec![f.4[0]]));
            groups.push(("ss".into(), specs.clone(), f.4[0], format!("{} feature record #{} ({tag})", f.0, f.1), gid));
        }
        let want_records = 1 + fea.scripted.contains(tag) as usize + fea.in_gpos.contains(tag) as usize;
        if !recs.is_empty() && recs.len() < want_records {
            viol(t, "feature-record-count", format!("{tag}: {} feature records with parameters, the source calls for at least {want_records}", recs.len()), sj.clone());
        }
    }
    for (tag, cv) in &fea.cv {
        let recs = recs_of(tag, "cv");
        if recs.is_empty() {
            viol(t, "feature-params-missing", format!("{tag} has no feature parameters"), sj.clone());
        }
        let gid0 = gid;
        gid += 3 + cv.params.len();
        let pos0 = o_adj.len();
        for (k, f) in recs.iter().enumerate() {
            let whre = format!("{} feature record #{} ({tag})", f.0, f.1);
            let mut positions = Vec::new();
            let mut ids = Vec::new();
            let mut p = pos0;
            for (slot, g) in [&cv.label, &cv.tooltip, &cv.sample].into_iter().enumerate() {
                if let Some(specs) = g {
                    if k == 0 {
                        o_adj.push(f.4[slot]);
                    }
                    positions.push(p);
                    ids.push(f.4[slot]);
                    p += 1;
                    groups.push(("cv".into(), specs.clone(), f.4[slot], whre.clone(), gid0 + 1 + slot));
                } else if f.4[slot] != 0 && f.4[slot] != 0xFFFF {
                    viol(t, "cv-unset-name-has-id", format!("{whre}: a name the source does not give has id {}", f.4[slot]), sj.clone());
                }
            }
            if f.4[4] as usize != cv.params.len() {
                viol(t, "cv-param-count", format!("{whre}: {} named parameters, the source has {}", f.4[4], cv.params.len()), sj.clone());
            }
            for (j, specs) in cv.params.iter().enumerate() {
                let id = f.4[3].wrapping_add(j as u16);
                if k == 0 {
                    o_adj.push(id);
                }
                positions.push(p);
                ids.push(id);
                p += 1;
                groups.push(("cv".into(), specs.clone(), id, whre.clone(), gid0 + 4 + j));
            }
            o_records.push((false, positions, ids));
        }
    }
    // every FEA name group, at every place that refers to it: the id has records, they are the
    // source's strings, and ids are not shared between different groups
    for (k, (kind, specs, id, whre, g)) in groups.iter().enumerate() {
        let wanted: Vec<&Spec> = specs.iter().filter(|s| !s.3.is_empty() && !(s.0 == 1 && s.1 != 0)).collect();
        let at = if whre.is_empty() { kind.clone() } else { format!("{whre}: {kind}") };
        if !wanted.is_empty() && kind != "size" && !has_id(*id) {
            viol(t, &format!("ref-missing-{kind}"), format!("{at} refers to name id {id}, which has no record (the source says {:?})", wanted[0].3), sj.clone());
        }
        for s in wanted {
            if !d.names.iter().any(|n| n.0 == *id && n.1 == s.0 && n.2 == s.1 && n.3 == s.2 && n.4 == s.3) {
                let got: Vec<_> = d.names.iter().filter(|n| n.0 == *id).collect();
                viol(t, &format!("fea-{kind}-name-wrong"), format!("{at} uses name id {id}; the source says {:?}, the records under that id are {:?}", s, got), sj.clone());
            }
        }
        if *id >= 256 && *id != 0xFFFF && groups.iter().skip(k + 1).any(|o| o.2 == *id && o.4 != *g) {
            viol(t, "fea-name-id-shared", format!("two name groups of the feature file use the same name id {id}"), sj.clone());
        }
        if *id < 256 && kind != "size" {
            viol(t, "fea-name-id-reserved", format!("{at} uses reserved name id {id}"), sj.clone());
        }
    }
    // explicit FEA name records are in the table (ids >= 256 may move, reserved ones not)
    for (id, s) in &fea.explicit {
        if *id < 256 && !s.3.is_empty() && !d.names.iter().any(|n| n.0 == *id && n.1 == s.0 && n.3 == s.2 && n.4 == s.3) && *id != 5 {
            viol(t, "fea-explicit-name-lost", format!("FEA nameid {id} {:?} is not in the name table", s.3), sj.clone());
        }
    }
    // source records with ids above 255 survive
    for (id, s) in &c.records {
        // (FEA records with ids above 255 are moved past every IR id, so they never replace one)
        if *id > 255 && win_string(d, *id).as_deref() != Some(s.as_str()) {
            viol(t, "source-name-record-overwritten", format!("openTypeNameRecords gives name id {id} = {:?}; the compiled name table has {:?} under that id", s, win_string(d, *id)), sj.clone());
        }
    }
    // ---- family / style / version fields (direct, coarse; the exact table is the model's)
    let supplied = |k: &str| c.info.iter().find(|(kk, _)| kk == k).map(|(_, v)| v.clone());
    let overridden = |id: u16| fea.explicit.iter().any(|(i, _)| *i == id) || c.records.iter().any(|(i, _)| *i == id);
    for id in [1u16, 2, 3, 4, 5] {
        let blank = id == 5 && supplied("openTypeNameVersion").as_deref() == Some("");
        if !blank && win_string(d, id).map_or(true, |s| s.is_empty()) {
            viol(t, "name-mandatory-missing", format!("name id {id} is missing or empty"), sj.clone());
        }
    }
    let mut seen_keys = BTreeSet::new();
    for n in &d.names {
        if !seen_keys.insert((n.0, n.1, n.3)) {
            viol(t, "namebuilder-stale-record", format!("two records for name id {} on platform {} language {} (different encodings)", n.0, n.1, n.3), sj.clone());
        }
    }
    if supplied("styleMapStyleName").is_none() && !overridden(2) {
        if let Some(s) = win_string(d, 2) {
            if !is_ribbi(&s) {
                viol(t, "legacy-subfamily-not-ribbi", format!("name id 2 = {:?}", s), sj.clone());
            }
        }
    }
    if let (Some(f), false) = (supplied("styleMapFamilyName"), overridden(1)) {
        if win_string(d, 1).as_deref() != Some(f.as_str()) {
            viol(t, "family-name-wrong", format!("styleMapFamilyName {:?}, name id 1 = {:?}", f, win_string(d, 1)), sj.clone());
        }
    }
    if !overridden(5) {
        if let Some(v5) = win_string(d, 5) {
            let stamp = format!(";fontc {version}");
            let base = supplied("openTypeNameVersion").unwrap_or_else(|| format!("Version {}.{:0>3}", c.version_major.unwrap_or(0), c.version_minor.unwrap_or(0)));
            let base = match base.find(";fontc ") {
                Some(i) => base[..i].to_string(),
                None => base,
            };
            if v5 != format!("{base}{stamp}") {
                viol(t, "version-string-wrong", format!("name id 5 = {:?}, expected {:?} + {:?}", v5, base, stamp), sj.clone());
            }
        }
    }
    // ---- observation for the model
    let stat_axes = if fea.stat.is_some() || variable.is_empty() { "None".to_string() } else { format!("(Some {})", c_nlist(&d.stat_axes.iter().map(|a| a.1).collect::<Vec<_>>())) };
    format!(
        "{{| o_names := {}; o_fvar_axes := {}; o_fvar_inst := {}; o_stat_axes := {}; o_adj := {}; o_size := {}; o_elided := {}; o_records := {} |}}",
        c_frecs(&d.names),
        c_nlist(&d.fvar_axes.iter().map(|a| a.1).collect::<Vec<_>>()),
        coq_list(&d.fvar_inst, |(s, p, _)| {
            // read-fonts reports 0xFFFF as None: undo that when the instance records carry the field
            let p = if c.instances.iter().any(|i| i.ps.is_some()) { p.or(Some(0xFFFF)) } else { *p };
            format!("({}, {})", coq_n(*s as u64), coq_opt(&p, |x| coq_n(*x as u64)))
        }),
        stat_axes,
        c_nlist(&o_adj),
        c_nlist(&o_size),
        coq_opt(&o_elided, |x| coq_n(*x as u64)),
        coq_list(&o_records, |(sz, pos, ids)| format!("({}, {}, {})", coq_bool(*sz), coq_list(pos, |p| coq_nat(*p)), c_nlist(ids)))
    )
}

fn run_font(t: &mut Tally, id: &mut usize, label: &str, c: &Cfg, reps: usize, version: &str) {
    let sj = cfg_json(c);
    let variable = c.axes.iter().any(|a| !a.is_point());
    let fea = c.fea.clone().unwrap_or_default();
    let mut outcomes: BTreeMap<String, (Option<Decoded>, usize)> = BTreeMap::new();
    for _ in 0..reps {
        t.font_builds += 1;
        let (key, dec) = match compile_cfg(c) {
            Outcome::Font(b) => match decode(&b) {
                Ok(d) => (format!("F{:?}", d), Some(d)),
                Err(e) => (format!("D{e}"), None),
            },
            Outcome::Error(e) => (format!("E{e}"), None),
            Outcome::Panic(e) => (format!("P{e}"), None),
        };
        outcomes.entry(key).or_insert((dec, 0)).1 += 1;
    }
    t.fonts_compiled += 1;
    *t.by_kind.entry(format!("font:{}{}", if variable { "variable" } else { "static" }, if c.fea.is_some() { "+fea" } else { "" })).or_insert(0) += 1;
    if outcomes.len() > 1 {
        let fonts: Vec<&Decoded> = outcomes.values().filter_map(|o| o.0.as_ref()).collect();
        let counts: Vec<usize> = outcomes.values().map(|o| o.1).collect();
        let high = c.records.iter().any(|(i, _)| *i > 255);
        let key = if high { "names-depend-on-hash-order" } else { "name-alloc-hash-order" };
        let what = if fonts.len() > 1 {
            format!("names {:?} vs {:?}", fonts[0].names.iter().filter(|n| n.0 > 255).collect::<Vec<_>>(), fonts[1].names.iter().filter(|n| n.0 > 255).collect::<Vec<_>>())
        } else {
            format!("outcomes {:?}", outcomes.keys().map(|k| k.chars().take(80).collect::<String>()).collect::<Vec<_>>())
        };
        viol(t, key, format!("[{label}] {reps} builds of one source gave {} different results ({:?}): {what}", outcomes.len(), counts), sj.clone());
    }
    let adds = ufo_adds(c);
    let prog = c.fea.as_ref().map(fea_prog).unwrap_or_default();
    let c_adds = coq_list(&adds, |(i, s)| format!("({}, {})", coq_n(*i as u64), cs(s)));
    for (key, (dec, _)) in &outcomes {
        let Some(d) = dec else {
            // errors and panics
            let msg: String = key.chars().skip(1).take(300).collect();
            let elided_unknown = matches!(fea.stat.as_ref().and_then(|s| s.elided.clone()), Some(Elided::Id(i)) if !fea.explicit.iter().any(|(e, _)| *e == i));
            let high = variable && c.records.iter().any(|(i, _)| *i > 255);
            let vkey = if msg.contains("ElidedFallbackNameID") && elided_unknown {
                "fea-stat-elided-id-panic"
            } else if high && msg.contains("panicked") {
                "source-name-id-collision"
            } else if key.starts_with('P') || msg.contains("panicked") {
                "compile-panic"
            } else if key.starts_with('D') {
                "font-undecodable"
            } else {
                "compile-error"
            };
            viol(t, vkey, format!("[{label}] {msg}"), sj.clone());
            if vkey == "fea-stat-elided-id-panic" {
                // the model's allocation has no result either
                let coq = format!("match fea_alloc (fnb_empty, refs_empty) {} with None => true | Some _ => false end", c_prog(&prog));
                emit_case(*id, "font-fea-panic", coq, None, true, format!("fp:{label}:{}", fea_text(&fea)), json!({"src": sj, "impl": msg}));
                *id += 1;
            }
            continue;
        };
        let obs = check_font(t, c, d, version, &sj);
        // the repaired code has no iteration-order dependence left: one model evaluation
        let coq = format!(
            "font_agrees {} {} {} {} {} {} {} (Some {}) {}",
            c_adds,
            coq_z(c.version_major.unwrap_or(0)),
            coq_n(c.version_minor.unwrap_or(0) as u64),
            cs(c.vendor.as_deref().unwrap_or("NONE")),
            c_axes(&c.axes),
            c_insts(&c.instances),
            c_prog(&prog),
            cs(version),
            obs
        );
        let show = format!("nb_run {} {} {} {}", c_adds, coq_z(c.version_major.unwrap_or(0)), coq_n(c.version_minor.unwrap_or(0) as u64), cs(c.vendor.as_deref().unwrap_or("NONE")));
        emit_case(*id, "font", coq, Some(show), true, format!("f:{label}:{:?}", d.names), json!({"src": sj, "label": label, "impl_names": d.names, "impl_fvar": d.fvar_inst, "impl_feat": d.feat}));
        *id += 1;
    }
}

fn stream_fonts(rng: &mut Rng, n: usize, id: &mut usize, t: &mut Tally) {
    let version = fontc::version();
    for (label, c, reps) in scenarios() {
        run_font(t, id, label, &c, reps, &version);
    }
    for k in 0..n {
        let c = gen_cfg(rng);
        // a second build for every fourth source, more when strings coincide
        let coincide = c.instances.iter().any(|i| i.style == c.family || i.style == c.style || is_ribbi(&i.style)) && !c.axes.is_empty();
        let high: Vec<&(u16, String)> = c.records.iter().filter(|(i, _)| *i > 255).collect();
        let shared = high.iter().any(|(i, s)| high.iter().any(|(j, u)| i != j && s == u));
        let reps = if shared && !c.axes.is_empty() { 8 } else if !high.is_empty() && !c.axes.is_empty() { 4 } else if coincide { 3 } else if k % 4 == 0 { 2 } else { 1 };
        run_font(t, id, &format!("gen{k}"), &c, reps, &version);
    }
}

fn main() {
    quiet_panics();
    let args: Vec<String> = std::env::args().collect();
    let args = &args[1..];
    let seed = arg_val(args, "--seed", 1);
    let n = arg_val(args, "--n", 300) as usize;
    let nfonts = arg_val(args, "--fonts", 60) as usize;
    let mut rng = Rng::new(seed);
    let mut id = 0usize;
    let mut t = Tally { by_kind: BTreeMap::new(), viol: BTreeMap::new(), fonts_compiled: 0, font_builds: 0, alloc_calls: 0 };
    stream_namebuilder(&mut rng, n, &mut id, &mut t);
    stream_alloc(&mut rng, n, &mut id, &mut t);
    stream_fonts(&mut rng, nfonts, &mut id, &mut t);
    emit_stat(json!({"inputs": t.by_kind, "violations_by_key": t.viol, "fonts_compiled": t.fonts_compiled, "font_builds": t.font_builds, "static_metadata_calls": t.alloc_calls,
        "extra_evaluations": t.font_builds - t.fonts_compiled + t.alloc_calls.saturating_sub(n)}));
}
