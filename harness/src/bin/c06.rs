//! C06: glyph set, glyph order, cmap and post names are what the source declares.
//!
//! Generates UFO / designspace sources (and runs a few .glyphs sources from the test data),
//! compiles them with the real `fontc::generate_font`, decodes maxp/post/cmap/glyf/hmtx with
//! read-fonts, evaluates the property predicate directly on the decoded font, and emits one
//! Gallina term per case comparing the model (FV.C06.Model) with what was observed.
use serde_json::json;
use std::collections::{BTreeMap, BTreeSet, HashMap, HashSet};
use vh::srcgen::*;
use vh::*;
use write_fonts::read::tables::glyf::Glyph as RGlyph;
use write_fonts::read::types::GlyphId;
use write_fonts::read::{FontRef, TableProvider};

const NOTDEF: &str = ".notdef";

#[derive(Clone, Debug)]
struct G {
    name: String,
    export: bool,
    cps: Vec<u32>,
    contours: bool,
    comps: Vec<String>,
    advance: u32,
}

#[derive(Clone, Debug, Default)]
struct Fl {
    prefer_simple: bool,
    flatten: bool,
    decompose: bool,
    production_names: bool,
}

#[derive(Clone, Debug)]
struct Case {
    id: usize,
    kind: &'static str,
    declared: Option<Vec<String>>,
    glyphs: Vec<G>,
    fl: Fl,
    /// public.postscriptNames
    rename: Option<Vec<(String, String)>>,
    /// com.github.googlei18n.ufo2ft.useProductionNames
    use_prod_key: Option<bool>,
    /// compile through a two-master designspace (skipExportGlyphs then lives in the designspace lib)
    designspace: bool,
    /// write a Glyphs 3 source instead of a UFO (glyphOrder custom parameter, export = 0)
    glyphs_fmt: bool,
    /// second master listed first in <sources>
    default_last: bool,
    /// a public.skipExportGlyphs in the UFO lib that a designspace build must ignore
    decoy_skip: Vec<String>,
    /// glyph present only in the non-default master (ignored by the compiler)
    extra_in_other_master: Option<String>,
    kerning: Vec<(String, String, f64)>,
}

// ---------------------------------------------------------------- generation
const POOLS: &[&[&str]] = &[
    // ordering edge cases: upper < '_' < lower; '-' < '.' < digits; prefixes; non-ASCII
    &["a", "b", "A", "B", "Z", "_x", "a.alt", "a_b", "a-b", "aa", "ab", "zero", "one", "space", "\u{e9}", "a.0", "a.1", "b.0", "A.0"],
    // derivative-name collisions
    &["a", "a.0", "a.1", "a.2", "a.00", "a.0.0", "b", "b.0", "c", "d", "a.10"],
    // ordinary
    &["A", "B", "C", "D", "E", "a", "b", "c", "d", "e", "acutecomb", "Aacute", "aacute", "space", "hyphen", "f_i"],
];
const CP_POOL: &[u32] = &[0x20, 0x41, 0x42, 0x43, 0x61, 0x62, 0x63, 0xC1, 0xE9, 0x301, 0x2D, 0xFFFD, 0x10000, 0x1F600, 0xE000, 0xF8FF];

fn gen_case(rng: &mut Rng, id: usize) -> Case {
    let kind_ix = rng.below(9);
    let kind = match kind_ix {
        0 => "plain",
        1 => "order",
        2 => "nonexport",
        3 => "mixed",
        4 => "cmap",
        5 => "rename",
        6 => "designspace",
        7 => "glyphsfmt",
        _ => "any",
    };
    let pool = match kind {
        "mixed" => POOLS[1],
        "order" => POOLS[0],
        _ => *rng.pick(POOLS),
    };
    let n = match rng.below(10) {
        0 => 1,
        1 => 2,
        _ => rng.range(3, 11) as usize,
    };
    let mut names: Vec<String> = pool.iter().map(|s| s.to_string()).collect();
    rng.shuffle(&mut names);
    names.truncate(n.min(names.len()));
    // .notdef in the source: absent / present
    if rng.chance(1, 2) {
        let at = rng.below(names.len() as u64 + 1) as usize;
        names.insert(at, NOTDEF.to_string());
    }
    // component graph: names[i] may only use names[j], j < i (acyclic)
    let nonexport_rate = match kind {
        "nonexport" => 45,
        "plain" => 0,
        _ => 20,
    };
    let mixed_rate = match kind {
        "mixed" => 50,
        "plain" => 5,
        _ => 20,
    };
    let mut glyphs: Vec<G> = Vec::new();
    for (i, name) in names.iter().enumerate() {
        let mut comps = Vec::new();
        let mut contours = true;
        if i > 0 {
            let r = rng.below(100);
            if r < mixed_rate || r >= 70 {
                // composite or mixed
                let k = rng.range(1, 3) as usize;
                for _ in 0..k {
                    comps.push(names[rng.below(i as u64) as usize].clone());
                }
                contours = r < mixed_rate;
            } else if r < mixed_rate + 8 {
                contours = false; // empty glyph
            }
        } else if rng.chance(1, 6) {
            contours = false;
        }
        if !comps.is_empty() && rng.chance(1, 12) {
            comps.push("missing.glyph".to_string()); // dangling reference: pruned with a warning
        }
        let mut export = !(rng.below(100) < nonexport_rate);
        if name == NOTDEF && !export && !rng.chance(1, 4) {
            export = true; // a non-export .notdef is kept rare (known failure class)
        }
        glyphs.push(G { name: name.clone(), export, cps: vec![], contours, comps, advance: 0 });
    }
    // "nonexport": make sure a nested chain export -> nonexport -> nonexport -> export exists
    if kind == "nonexport" && glyphs.len() >= 4 {
        let l = glyphs.len();
        glyphs[l - 1].export = true;
        let c1 = glyphs[l - 2].name.clone();
        glyphs[l - 1].comps.push(c1);
        glyphs[l - 2].export = false;
        let c2 = glyphs[l - 3].name.clone();
        glyphs[l - 2].comps.push(c2);
        glyphs[l - 3].export = false;
        let c3 = glyphs[l - 4].name.clone();
        glyphs[l - 3].comps.push(c3);
    }
    // code points
    let collide = kind == "cmap" && rng.chance(1, 2) || rng.chance(1, 12);
    let mut free: Vec<u32> = CP_POOL.to_vec();
    rng.shuffle(&mut free);
    for g in glyphs.iter_mut() {
        let k = match rng.below(6) {
            0 | 1 => 0,
            2 | 3 => 1,
            4 => 2,
            _ => 3,
        };
        for _ in 0..k {
            let cp = if collide || !g.export && rng.chance(1, 2) {
                // exported glyphs may collide only in `collide` cases; a non-export glyph may
                // share a code point with an exported one at any time (must be harmless)
                *rng.pick(CP_POOL)
            } else if let Some(cp) = free.pop() {
                cp
            } else {
                break;
            };
            free.retain(|c| *c != cp);
            if !g.cps.contains(&cp) {
                g.cps.push(cp);
            }
        }
    }
    // file order of the glyphs is unrelated to everything else
    rng.shuffle(&mut glyphs);
    for (i, g) in glyphs.iter_mut().enumerate() {
        g.advance = 100 + 10 * i as u32; // unique, never 500 (the synthesized .notdef)
        if g.advance == 500 {
            g.advance = 505;
        }
    }
    // declared order
    let declared = if rng.chance(1, 5) {
        None
    } else {
        let mut d: Vec<String> = glyphs.iter().map(|g| g.name.clone()).collect();
        rng.shuffle(&mut d);
        // drop some (undeclared glyphs), add unknown names and duplicates
        let keep = match rng.below(4) {
            0 => d.len(),
            1 => 0,
            _ => rng.below(d.len() as u64 + 1) as usize,
        };
        d.truncate(keep);
        // .notdef placement
        if let Some(p) = d.iter().position(|x| x == NOTDEF) {
            let x = d.remove(p);
            match rng.below(4) {
                0 => d.insert(0, x),
                1 => d.push(x),
                2 => {
                    let at = rng.below(d.len() as u64 + 1) as usize;
                    d.insert(at, x)
                }
                _ => {} // undeclared
            }
        } else if rng.chance(1, 6) {
            // declared but not in the font
            let at = rng.below(d.len() as u64 + 1) as usize;
            d.insert(at, NOTDEF.to_string());
        }
        for _ in 0..rng.below(3) {
            let at = rng.below(d.len() as u64 + 1) as usize;
            d.insert(at, (*rng.pick(&["ghost", "a.0", "zzz", "A"])).to_string());
        }
        for _ in 0..rng.below(3) {
            if !d.is_empty() {
                let x = rng.pick(&d).clone();
                let at = rng.below(d.len() as u64 + 1) as usize;
                d.insert(at, x);
            }
        }
        Some(d)
    };
    let fl = Fl {
        prefer_simple: match kind {
            "mixed" => rng.chance(1, 4),
            _ => rng.chance(2, 3),
        },
        flatten: rng.chance(1, 5),
        decompose: rng.chance(1, 8),
        production_names: !rng.chance(1, 5),
    };
    let rename = if kind == "rename" || rng.chance(1, 8) {
        let mut m: Vec<(String, String)> = Vec::new();
        let mut used = HashSet::new();
        // collision-heavy palette: several glyphs map to the same final name while other glyphs are
        // literally called like the ".N" suffixes the de-duplication hands out (seed C06-1)
        let dense = rng.chance(1, 2);
        const DENSE: [&str; 7] = ["xy", "x-y", "xy.1", "xy.2", "x-y.1", "xy.1.1", "x_y"];
        for g in &glyphs {
            if dense {
                if rng.chance(3, 4) && used.insert(g.name.clone()) {
                    let span = if rng.chance(1, 2) { 3 } else { 7 };
                    m.push((g.name.clone(), DENSE[rng.below(span) as usize].to_string()));
                }
                continue;
            }
            if rng.chance(1, 2) && used.insert(g.name.clone()) {
                let v = match rng.below(8) {
                    0 => "uni0041".to_string(),
                    1 => "A".to_string(),
                    2 => "x-y".to_string(),
                    3 => "xy".to_string(),
                    4 => rng.pick(&glyphs).name.clone(),
                    5 => "a.1".to_string(),
                    6 => format!("uni{:04X}", 0x41 + rng.below(3)),
                    _ => "\u{e9}!".to_string(), // stripped to the empty string
                };
                m.push((g.name.clone(), v));
            }
        }
        if rng.chance(1, 4) {
            m.push(("ghost".to_string(), "a".to_string()));
        }
        Some(m)
    } else {
        None
    };
    let use_prod_key = match rng.below(6) {
        0 => Some(false),
        1 => Some(true),
        _ => None,
    };
    let glyphs_fmt = kind == "glyphsfmt";
    let designspace = !glyphs_fmt && (kind == "designspace" || rng.chance(1, 8));
    let decoy_skip = if designspace && rng.chance(1, 2) { vec![rng.pick(&glyphs).name.clone()] } else { vec![] };
    let extra_in_other_master = if designspace && rng.chance(1, 2) { Some("only.in.bold".to_string()) } else { None };
    let mut kerning = Vec::new();
    if rng.chance(1, 3) {
        for _ in 0..rng.range(1, 4) {
            let a = rng.pick(&glyphs).name.clone();
            let b = rng.pick(&glyphs).name.clone();
            if !kerning.iter().any(|(x, y, _): &(String, String, f64)| *x == a && *y == b) {
                kerning.push((a, b, -(rng.range(1, 9) as f64) * 10.0));
            }
        }
    }
    let (fl, rename, use_prod_key, kerning) = if glyphs_fmt {
        // production names come from GlyphData for .glyphs sources: not modelled, switched off
        (Fl { production_names: false, ..fl }, None, None, Vec::new())
    } else {
        (fl, rename, use_prod_key, kerning)
    };
    Case { id, kind, declared, glyphs, fl, rename, use_prod_key, designspace, glyphs_fmt, default_last: rng.chance(1, 2), decoy_skip, extra_in_other_master, kerning }
}

// ---------------------------------------------------------------- writing the source
fn glyph_src(g: &G, bold: bool) -> GlyphSrc {
    let mut s = GlyphSrc::new(&g.name, g.advance as f64);
    for cp in &g.cps {
        s = s.uni(*cp);
    }
    if g.contours {
        let w = if bold { 60.0 } else { 40.0 };
        s = s.rect(10.0, 0.0, 10.0 + w, 100.0 + g.advance as f64);
    }
    for (i, c) in g.comps.iter().enumerate() {
        s = s.comp(c, [1.0, 0.0, 0.0, 1.0, 13.0 * (i as f64 + 1.0) + g.advance as f64, (g.advance as f64 - 90.0) * 3.0 + if bold { 5.0 } else { 0.0 }]);
    }
    s
}

fn plist_dict(m: &[(String, String)]) -> String {
    let mut s = String::from("<dict>");
    for (k, v) in m {
        s.push_str(&format!("<key>{}</key><string>{}</string>", xml_escape(k), xml_escape(v)));
    }
    s.push_str("</dict>");
    s
}

fn build_design(c: &Case) -> Design {
    let skip: Vec<String> = c.glyphs.iter().filter(|g| !g.export).map(|g| g.name.clone()).collect();
    let mut lib = Vec::new();
    if let Some(r) = &c.rename {
        lib.push(("public.postscriptNames".to_string(), plist_dict(r)));
    }
    if let Some(b) = c.use_prod_key {
        lib.push(("com.github.googlei18n.ufo2ft.useProductionNames".to_string(), (if b { "<true/>" } else { "<false/>" }).to_string()));
    }
    let regular = Master {
        name: "Regular".into(),
        style: "Regular".into(),
        location: if c.designspace { vec![("Weight".into(), 400.0)] } else { vec![] },
        glyphs: c.glyphs.iter().map(|g| glyph_src(g, false)).collect(),
        kerning: c.kerning.clone(),
        glyph_order: c.declared.clone(),
        skip_export: if c.designspace { c.decoy_skip.clone() } else { skip.clone() },
        lib,
        ..Default::default()
    };
    if !c.designspace {
        return Design { family: "C06".into(), upem: 1000, masters: vec![regular], ..Default::default() };
    }
    let mut bold_glyphs: Vec<GlyphSrc> = c.glyphs.iter().map(|g| glyph_src(g, true)).collect();
    if let Some(x) = &c.extra_in_other_master {
        bold_glyphs.push(GlyphSrc::new(x, 333.0).rect(0.0, 0.0, 50.0, 50.0).uni(0x58));
    }
    let mut bold_order: Vec<String> = c.glyphs.iter().map(|g| g.name.clone()).collect();
    bold_order.reverse();
    let bold = Master {
        name: "Bold".into(),
        style: "Bold".into(),
        location: vec![("Weight".into(), 700.0)],
        glyphs: bold_glyphs,
        kerning: c.kerning.clone(),
        // the non-default master's declarations must not matter
        glyph_order: Some(bold_order),
        skip_export: vec![],
        ..Default::default()
    };
    let mut extra = String::new();
    if !skip.is_empty() {
        extra = format!("  <lib><dict><key>public.skipExportGlyphs</key>{}</dict></lib>\n", plist_str_array(&skip));
    }
    Design {
        family: "C06".into(),
        upem: 1000,
        axes: vec![AxisSrc { name: "Weight".into(), tag: "wght".into(), min: 400.0, default: 400.0, max: 700.0, ..Default::default() }],
        masters: if c.default_last { vec![bold, regular] } else { vec![regular, bold] },
        extra_xml: extra,
        ..Default::default()
    }
}

fn flags_of(fl: &Fl) -> fontir::orchestration::Flags {
    use fontir::orchestration::Flags;
    let mut f = Flags::default();
    f.set(Flags::PREFER_SIMPLE_GLYPHS, fl.prefer_simple);
    f.set(Flags::FLATTEN_COMPONENTS, fl.flatten);
    f.set(Flags::DECOMPOSE_COMPONENTS, fl.decompose);
    f.set(Flags::PRODUCTION_NAMES, fl.production_names);
    f
}

// ---------------------------------------------------------------- decoding
#[derive(Clone, Debug, Default)]
struct Decoded {
    num_glyphs: usize,
    post: Vec<String>,
    advances: Vec<u32>,
    /// (code point, gid), sorted, gid 0 entries dropped; union of all subtables
    cmap: Vec<(u32, u32)>,
    /// every Unicode subtable, separately (must agree on the code points it can hold)
    subtables: Vec<(u16, u16, u16, Vec<(u32, u32)>)>,
    comps: Vec<Vec<u32>>,
    has_outline: Vec<bool>,
    /// GPOS PairPos first-glyph coverage size, if any
    gpos_pairs: Option<Vec<(u32, u32)>>,
    non_ascii_post: bool,
}

fn decode(bytes: &[u8]) -> Result<Decoded, String> {
    let font = FontRef::new(bytes).map_err(|e| format!("FontRef: {e}"))?;
    let maxp = font.maxp().map_err(|e| format!("maxp: {e}"))?;
    let n = maxp.num_glyphs() as usize;
    // post: decoded by hand (version 2 only) so that non-ASCII names are seen as written
    let post = font.table_data(write_fonts::read::types::Tag::new(b"post")).ok_or("no post table")?;
    let pb = post.as_bytes();
    let mut d = Decoded { num_glyphs: n, ..Default::default() };
    if pb.len() < 34 || sfnt::be32(pb, 0) != Some(0x0002_0000) {
        return Err("post is not version 2".into());
    }
    let post_n = sfnt::be16(pb, 32).unwrap_or(0) as usize;
    if post_n != n {
        return Err(format!("post.numGlyphs {} != maxp.numGlyphs {}", post_n, n));
    }
    let mut strings: Vec<String> = Vec::new();
    let mut p = 34 + 2 * n;
    while p < pb.len() {
        let l = pb[p] as usize;
        if p + 1 + l > pb.len() {
            return Err("post string data truncated".into());
        }
        strings.push(String::from_utf8_lossy(&pb[p + 1..p + 1 + l]).into_owned());
        p += 1 + l;
    }
    for i in 0..n {
        let ix = sfnt::be16(pb, 34 + 2 * i).ok_or("post index array truncated")? as usize;
        let mac = &write_fonts::read::tables::post::DEFAULT_GLYPH_NAMES;
        if ix < mac.len() {
            d.post.push(mac[ix].to_string());
        } else if let Some(s) = strings.get(ix - mac.len()) {
            if !s.is_ascii() {
                d.non_ascii_post = true;
            }
            d.post.push(s.clone());
        } else {
            return Err(format!("post has no name for glyph {i}"));
        }
    }
    let hmtx = font.hmtx().map_err(|e| format!("hmtx: {e}"))?;
    for i in 0..n {
        d.advances.push(hmtx.advance(GlyphId::new(i as u32)).ok_or("hmtx short")? as u32);
    }
    let cmap = font.cmap().map_err(|e| format!("cmap: {e}"))?;
    let mut all: BTreeSet<(u32, u32)> = BTreeSet::new();
    for rec in cmap.encoding_records() {
        let st = rec.subtable(cmap.offset_data()).map_err(|e| format!("cmap subtable: {e}"))?;
        let mut v: Vec<(u32, u32)> = st.iter().map(|(c, g)| (c, g.to_u32())).filter(|(_, g)| *g != 0).collect();
        v.sort();
        v.dedup();
        for x in &v {
            all.insert(*x);
        }
        d.subtables.push((rec.platform_id() as u16, rec.encoding_id(), st.format(), v));
    }
    d.cmap = all.into_iter().collect();
    let loca = font.loca(None).map_err(|e| format!("loca: {e}"))?;
    let glyf = font.glyf().map_err(|e| format!("glyf: {e}"))?;
    for i in 0..n {
        match loca.get_glyf(GlyphId::new(i as u32), &glyf).map_err(|e| format!("glyf {i}: {e}"))? {
            None => {
                d.comps.push(vec![]);
                d.has_outline.push(false);
            }
            Some(RGlyph::Simple(_)) => {
                d.comps.push(vec![]);
                d.has_outline.push(true);
            }
            Some(RGlyph::Composite(c)) => {
                d.comps.push(c.components().map(|k| k.glyph.to_u32()).collect());
                d.has_outline.push(false);
            }
        }
    }
    if let Ok(gpos) = font.gpos() {
        let mut pairs = Vec::new();
        if let Ok(ll) = gpos.lookup_list() {
            for l in ll.lookups().iter().flatten() {
                use write_fonts::read::tables::gpos::{PairPos, PositionSubtables};
                let subs = match l.subtables() {
                    Ok(PositionSubtables::Pair(p)) => p.iter().flatten().collect::<Vec<_>>(),
                    _ => vec![],
                };
                for s in subs {
                    match s {
                        PairPos::Format1(f) => {
                            if let Ok(cov) = f.coverage() {
                                for (first, set) in cov.iter().zip(f.pair_sets().iter().flatten()) {
                                    for rec in set.pair_value_records().iter().flatten() {
                                        pairs.push((first.to_u32(), rec.second_glyph().to_u32()));
                                    }
                                }
                            }
                        }
                        PairPos::Format2(f) => {
                            if let Ok(cov) = f.coverage() {
                                for first in cov.iter() {
                                    pairs.push((first.to_u32(), u32::MAX));
                                }
                            }
                        }
                    }
                }
            }
        }
        pairs.sort();
        d.gpos_pairs = Some(pairs);
    }
    Ok(d)
}

// ---------------------------------------------------------------- the property predicate
/// What the source declares, computed from the case alone (the specification, not the code).
struct Spec {
    exported: Vec<String>,             // exported source glyph names, excluding .notdef
    expected_prefix: Vec<String>,      // .notdef, declared-and-exported in declared order, sorted rest
    cmap: Option<Vec<(u32, String)>>,  // None: a code point sits on two exported glyphs
    conflict_cp: Option<u32>,
}

fn spec_of(c: &Case) -> Spec {
    let by_name: HashMap<&str, &G> = c.glyphs.iter().map(|g| (g.name.as_str(), g)).collect();
    let is_exp = |n: &str| by_name.get(n).map(|g| g.export).unwrap_or(false);
    let mut order: Vec<String> = vec![NOTDEF.to_string()];
    let mut placed: HashSet<String> = HashSet::new();
    placed.insert(NOTDEF.to_string());
    for d in c.declared.iter().flatten() {
        if is_exp(d) && placed.insert(d.clone()) {
            order.push(d.clone());
        }
    }
    let mut rest: Vec<String> = c.glyphs.iter().filter(|g| g.export && !placed.contains(&g.name)).map(|g| g.name.clone()).collect();
    if !c.glyphs_fmt {
        rest.sort(); // UFO: ascending; .glyphs: file order
    }
    order.extend(rest);
    let exported: Vec<String> = c.glyphs.iter().filter(|g| g.export && g.name != NOTDEF).map(|g| g.name.clone()).collect();
    let mut cm: BTreeMap<u32, String> = BTreeMap::new();
    let mut conflict = None;
    for g in c.glyphs.iter().filter(|g| g.export) {
        for cp in &g.cps {
            if let Some(prev) = cm.insert(*cp, g.name.clone()) {
                if prev != g.name {
                    conflict = Some(*cp);
                }
            }
        }
    }
    Spec { exported, expected_prefix: order, cmap: if conflict.is_some() { None } else { Some(cm.into_iter().collect()) }, conflict_cp: conflict }
}

struct Out {
    lines: Vec<serde_json::Value>,
}
impl Out {
    fn violation(&mut self, key: &str, desc: String, extra: serde_json::Value) {
        let mut v = json!({"type":"violation","key":key,"desc":desc,"found_input":true});
        if let serde_json::Value::Object(m) = extra {
            for (k, x) in m {
                v[k] = x;
            }
        }
        self.lines.push(v);
    }
}

fn case_json(c: &Case) -> serde_json::Value {
    json!({
        "declared": c.declared,
        "glyphs": c.glyphs.iter().map(|g| json!({"name": g.name, "export": g.export, "unicodes": g.cps, "contours": g.contours, "components": g.comps, "advance": g.advance})).collect::<Vec<_>>(),
        "flags": {"prefer_simple_glyphs": c.fl.prefer_simple, "flatten_components": c.fl.flatten, "decompose_components": c.fl.decompose, "production_names": c.fl.production_names},
        "postscriptNames": c.rename, "useProductionNames": c.use_prod_key,
        "format": if c.glyphs_fmt { "glyphs3" } else { "ufo" }, "designspace": c.designspace, "default_master_last": c.default_last, "ufo_lib_skipExport_decoy": c.decoy_skip,
        "extra_glyph_in_bold": c.extra_in_other_master, "kerning": c.kerning,
    })
}

/// Glyph names of the font, gid order, read from a build with production names off (post = glyph names).
fn check_property(c: &Case, spec: &Spec, d: &Decoded, names: &[String], renamed_post: Option<&[String]>, out: &mut Out) {
    let cj = case_json(c);
    let by_name: HashMap<&str, &G> = c.glyphs.iter().map(|g| (g.name.as_str(), g)).collect();
    let n = d.num_glyphs;
    // .notdef is glyph 0
    if names.first().map(|s| s.as_str()) != Some(NOTDEF) {
        out.violation("notdef-not-gid0", format!("glyph 0 is {:?}, not .notdef", names.first()), json!({"case": cj, "order": names}));
    }
    // post names one-to-one
    let uniq: HashSet<&String> = names.iter().collect();
    if uniq.len() != names.len() {
        out.violation("post-names-not-unique", format!("post glyph names repeat: {:?}", names), json!({"case": cj}));
    }
    if let Some(rp) = renamed_post {
        let u: HashSet<&String> = rp.iter().collect();
        if u.len() != rp.len() || rp.len() != n {
            out.violation("post-production-names-not-unique", format!("renamed post glyph names are not one-to-one: {:?}", rp), json!({"case": cj}));
        }
    }
    // exact set and order: .notdef, declared exported, sorted undeclared exported, then derived glyphs
    let k = spec.expected_prefix.len();
    if names.len() < k || names[..k] != spec.expected_prefix[..] {
        let got: HashSet<&str> = names.iter().map(|s| s.as_str()).collect();
        let missing: Vec<&String> = spec.expected_prefix.iter().filter(|x| !got.contains(x.as_str())).collect();
        let key = if !missing.is_empty() { "exported-glyph-missing" } else { "glyph-order-differs-from-declared" };
        out.violation(key, format!("font order {:?}, source declares {:?} (+ derived)", names, spec.expected_prefix), json!({"case": cj, "missing": missing}));
    }
    // everything after the prefix must be compiler-derived: hoisted contours of a mixed exported glyph
    let mixed_ok = !c.fl.prefer_simple;
    for (gid, nm) in names.iter().enumerate().skip(k.min(names.len())) {
        let base = nm.rsplit_once('.').map(|x| x.0).unwrap_or("");
        let parent_gid = names.iter().position(|x| x == base);
        let derived_ok = mixed_ok
            && parent_gid.is_some()
            && by_name.get(base).map(|g| g.export).unwrap_or(false)
            && d.advances[gid] == d.advances[parent_gid.unwrap()]
            && (c.fl.decompose || d.comps[parent_gid.unwrap()].contains(&(gid as u32)));
        if !derived_ok {
            out.violation("unexplained-extra-glyph", format!("glyph {gid} {:?} is neither declared by the source nor a derived contour glyph", nm), json!({"case": cj, "order": names}));
        }
        if let Some(g) = by_name.get(nm.as_str()) {
            if !g.export {
                out.violation(
                    "derived-glyph-takes-nonexport-name",
                    format!("the compiler-derived glyph {gid} is named {:?}, the name of a glyph the source marks as not exported", nm),
                    json!({"case": cj, "order": names}),
                );
            }
        }
    }
    // non-export names appear nowhere in the glyph set (prefix part)
    for (gid, nm) in names.iter().enumerate().take(k.min(names.len())) {
        if nm != NOTDEF && by_name.get(nm.as_str()).map(|g| !g.export).unwrap_or(false) {
            out.violation("nonexport-glyph-in-font", format!("glyph {gid} {:?} is marked not exported", nm), json!({"case": cj, "order": names}));
        }
    }
    // glyph identity: the glyph called X carries X's advance (post names are attached to the right glyphs)
    for (gid, nm) in names.iter().enumerate() {
        if let Some(g) = by_name.get(nm.as_str()) {
            let synthesized_notdef = nm == NOTDEF && !g.export;
            // (.glyphs sources: nonspacing marks get zero width, by design)
            let zeroed_mark = c.glyphs_fmt && d.advances[gid] == 0;
            if !zeroed_mark && (g.export && d.advances[gid] != g.advance || synthesized_notdef && d.advances[gid] != 500) {
                out.violation("post-name-on-wrong-glyph", format!("glyph {gid} is named {:?} but has advance {} (source {})", nm, d.advances[gid], g.advance), json!({"case": cj, "order": names}));
            }
        }
    }
    // cmap: exactly the code points of exported glyphs
    if let Some(sc) = &spec.cmap {
        let gid_of: HashMap<&str, u32> = names.iter().enumerate().map(|(i, s)| (s.as_str(), i as u32)).collect();
        let mut want: Vec<(u32, u32)> = sc.iter().filter_map(|(cp, g)| gid_of.get(g.as_str()).map(|i| (*cp, *i))).filter(|(_, g)| *g != 0).collect();
        want.sort();
        if want != d.cmap {
            let extra: Vec<&(u32, u32)> = d.cmap.iter().filter(|x| !want.contains(x)).collect();
            let missing: Vec<&(u32, u32)> = want.iter().filter(|x| !d.cmap.contains(x)).collect();
            let key = if !extra.is_empty() { "cmap-extra-or-wrong-mapping" } else { "cmap-mapping-missing" };
            out.violation(key, format!("cmap has {:?} beyond / lacks {:?} of the source's code points", extra, missing), json!({"case": cj, "cmap": d.cmap, "order": names}));
        }
        // every subtable agrees with the union on what it can encode
        for (pid, eid, fmt, v) in &d.subtables {
            let expect: Vec<(u32, u32)> = d.cmap.iter().filter(|(cp, _)| *fmt != 4 || *cp <= 0xFFFF).cloned().collect();
            if *v != expect {
                out.violation("cmap-subtables-disagree", format!("cmap subtable ({pid},{eid}) format {fmt} maps {:?}, the table as a whole {:?}", v, expect), json!({"case": cj}));
            }
        }
    }
    // components: only exported source glyphs or derived glyphs are referenced
    for (gid, cs) in d.comps.iter().enumerate() {
        for cgid in cs {
            let ok = (*cgid as usize) < n && {
                let cn = &names[*cgid as usize];
                match by_name.get(cn.as_str()) {
                    Some(g) => g.export || (*cgid as usize) >= k,
                    None => (*cgid as usize) >= k || cn == NOTDEF,
                }
            };
            if !ok {
                out.violation("component-references-nonexport", format!("glyph {gid} {:?} has component gid {cgid}", names[gid]), json!({"case": cj, "order": names}));
            }
        }
    }
    // layout: kerning never mentions a glyph that is not in the font, and pairs between exported glyphs survive
    if let Some(pairs) = &d.gpos_pairs {
        for (a, b) in pairs {
            if *a as usize >= n || (*b != u32::MAX && *b as usize >= n) {
                out.violation("gpos-glyph-out-of-range", format!("GPOS pair ({a},{b}) with {n} glyphs"), json!({"case": cj}));
            }
        }
    }
    // kerning between two exported glyphs survives, kerning that names a non-export glyph is dropped
    if !c.kerning.is_empty() && !c.designspace {
        let gid_of: HashMap<&str, u32> = names.iter().enumerate().map(|(i, s)| (s.as_str(), i as u32)).collect();
        let exp = |n: &str| by_name.get(n).map(|g| g.export).unwrap_or(false);
        let mut want: Vec<(u32, u32)> = c.kerning.iter().filter(|(a, b, _)| exp(a) && exp(b)).filter_map(|(a, b, _)| Some((*gid_of.get(a.as_str())?, *gid_of.get(b.as_str())?))).collect();
        want.sort();
        want.dedup();
        let got: Vec<(u32, u32)> = d.gpos_pairs.clone().unwrap_or_default();
        if got.iter().all(|(_, b)| *b != u32::MAX) && got != want {
            let extra: Vec<&(u32, u32)> = got.iter().filter(|x| !want.contains(x)).collect();
            let key = if extra.is_empty() { "kerning-between-exported-glyphs-lost" } else { "kerning-for-undeclared-pair" };
            out.violation(key, format!("GPOS pairs {:?}, the source's pairs between exported glyphs {:?}", got, want), json!({"case": cj, "order": names}));
        }
    }
    let _ = spec.exported.len();
}

// ---------------------------------------------------------------- Gallina printers
fn coq_name(s: &str) -> String {
    coq_str(s)
}
fn coq_names(v: &[String]) -> String {
    coq_list(v, |s| coq_name(s))
}
fn coq_glyph(g: &G) -> String {
    format!(
        "mk_glyph {} {} {} {} {}",
        coq_name(&g.name),
        coq_bool(g.export),
        coq_list(&g.cps, |c| coq_n(*c as u64)),
        coq_bool(g.contours),
        coq_names(&g.comps)
    )
}
fn coq_flags(fl: &Fl) -> String {
    format!("(mk_flags {} {} {})", coq_bool(fl.prefer_simple), coq_bool(fl.flatten), coq_bool(fl.decompose))
}

fn effective_rename(c: &Case) -> Option<&Vec<(String, String)>> {
    if c.fl.production_names && c.use_prod_key != Some(false) { c.rename.as_ref() } else { None }
}

enum Obs {
    Font(Observed),
    CmapConflict,
    MissingJob,
}

struct Observed {
    order: Vec<String>,
    post: Vec<String>,
    cmap: Vec<(u32, u32)>,
    comps: Vec<Vec<String>>,
}

fn coq_case(c: &Case, obs: &Obs, glyphs_fmt: bool) -> String {
    let gs = coq_list(&c.glyphs, |g| format!("({})", coq_glyph(g)));
    let declared = coq_names(c.declared.as_deref().unwrap_or(&[]));
    let rename = match effective_rename(c) {
        None => "None".to_string(),
        Some(m) => format!("(Some {})", coq_list(m, |(k, v)| format!("({}, {})", coq_name(k), coq_name(v)))),
    };
    let o = match obs {
        Obs::CmapConflict => "OCmapConflict".to_string(),
        Obs::MissingJob => "OMissingJob".to_string(),
        Obs::Font(o) => format!(
            "(OFont (mk_obs {} {} {} {}))",
            coq_names(&o.order),
            coq_names(&o.post),
            coq_list(&o.cmap, |(c, g)| format!("({}, {})", coq_n(*c as u64), coq_n(*g as u64))),
            coq_list(&o.comps, |v| coq_names(v))
        ),
    };
    format!("agrees ({} {} {} {}) {} {}", if glyphs_fmt { "glyphs_build" } else { "ufo_build" }, coq_flags(&c.fl), declared, gs, rename, o)
}

// ---------------------------------------------------------------- running one case
fn gstr(s: &str) -> String {
    if !s.is_empty() && s.chars().all(|c| c.is_ascii_alphanumeric() || c == '_') && !s.chars().next().unwrap().is_ascii_digit() {
        s.to_string()
    } else {
        format!("\"{}\"", s.replace('\\', "\\\\").replace('"', "\\\""))
    }
}

/// A single-master Glyphs 3 source for the case.
fn glyphs_source(c: &Case) -> String {
    let mut s = String::from("{\n.formatVersion = 3;\n");
    if let Some(d) = &c.declared {
        s.push_str("customParameters = (\n{\nname = glyphOrder;\nvalue = (\n");
        s.push_str(&d.iter().map(|x| gstr(x)).collect::<Vec<_>>().join(",\n"));
        s.push_str("\n);\n}\n);\n");
    }
    s.push_str("familyName = C06;\nfontMaster = (\n{\nid = m01;\nname = Regular;\n}\n);\nglyphs = (\n");
    let mut first = true;
    for g in &c.glyphs {
        if !first {
            s.push_str(",\n");
        }
        first = false;
        s.push_str("{\n");
        if !g.export {
            s.push_str("export = 0;\n");
        }
        s.push_str(&format!("glyphname = {};\nlayers = (\n{{\nlayerId = m01;\n", gstr(&g.name)));
        let mut shapes: Vec<String> = Vec::new();
        if g.contours {
            shapes.push(format!("{{\nclosed = 1;\nnodes = (\n(10,0,l),\n(50,0,l),\n(50,{h},l),\n(10,{h},l)\n);\n}}", h = 100 + g.advance));
        }
        for (i, b) in g.comps.iter().enumerate() {
            shapes.push(format!("{{\npos = ({},{});\nref = {};\n}}", 13 * (i + 1) + g.advance as usize, (g.advance as usize - 90) * 3, gstr(b)));
        }
        if !shapes.is_empty() {
            s.push_str(&format!("shapes = (\n{}\n);\n", shapes.join(",\n")));
        }
        s.push_str(&format!("width = {};\n}}\n);\n", g.advance));
        match g.cps.len() {
            0 => {}
            1 => s.push_str(&format!("unicode = {};\n", g.cps[0])),
            _ => s.push_str(&format!("unicode = ({});\n", g.cps.iter().map(|c| c.to_string()).collect::<Vec<_>>().join(","))),
        }
        s.push_str("}");
    }
    s.push_str("\n);\nunitsPerEm = 1000;\n}\n");
    s
}

fn compile(c: &Case, fl: &Fl, tag: &str) -> Outcome {
    let dir = scratch_dir(&format!("c06-{}-{}", c.id, tag));
    if c.glyphs_fmt {
        let path = dir.path().join("C06.glyphs");
        std::fs::write(&path, glyphs_source(c)).unwrap();
        return compile_path(&path, Some(flags_of(fl)), None);
    }
    let design = build_design(c);
    let path = if c.designspace { design.write_designspace(dir.path()) } else { design.write(dir.path()) };
    compile_path(&path, Some(flags_of(fl)), None)
}

fn run_case(c: &Case) -> Vec<serde_json::Value> {
    let mut out = Out { lines: vec![] };
    let spec = spec_of(c);
    let cj = case_json(c);
    // the build under test
    let main = compile(c, &c.fl, "m");
    // glyph identity: the same source with production names off (post = glyph names)
    let renaming = effective_rename(c).is_some();
    let plain = if renaming {
        let mut fl = c.fl.clone();
        fl.production_names = false;
        Some(compile(c, &fl, "p"))
    } else {
        None
    };
    let mut obs: Obs = Obs::CmapConflict;
    let mut comparable = true;
    match &main {
        Outcome::Panic(msg) => {
            out.violation("compiler-panic", format!("fontc panicked: {msg}"), json!({"case": cj}));
            comparable = false;
        }
        Outcome::Error(msg) => {
            // names the compiler adds itself (.notdef, hoisted contours "x.N") that coincide with a
            // glyph the source marks as not exported
            let nonexport: Vec<&str> = c.glyphs.iter().filter(|g| !g.export).map(|g| g.name.as_str()).collect();
            let reused = nonexport.iter().find(|n| msg.contains(&format!("Fragment({n})) is not available")));
            if let Some(nm) = reused {
                let key = if *nm == NOTDEF { "nonexport-notdef-build-panics" } else { "derived-glyph-name-equals-nonexport-glyph-build-panics" };
                out.violation(
                    key,
                    format!("the source marks {nm:?} as not exported; the compiler adds a glyph of that name itself and the build dies with \"A task panicked: 'Be(GlyfFragment({nm})) is not available'\" (or GvarFragment, whichever backend job runs first)"),
                    json!({"case": cj, "glyph": nm}),
                );
                obs = Obs::MissingJob;
            } else if msg.contains("interpolation-incompatible paths") {
                // outline matter (C03/C12), not a statement about the glyph set: counted, not compared
                out.lines.push(json!({"type":"skip","why":"interpolation-incompatible paths","id":c.id}));
                comparable = false;
            } else if spec.cmap.is_some() || !msg.to_lowercase().contains("cmap") {
                out.violation("unexpected-error", format!("fontc failed on a source without code point conflicts: {msg}"), json!({"case": cj}));
                comparable = false;
            }
        }
        Outcome::Font(bytes) => {
            if let Some(cp) = spec.conflict_cp {
                out.violation(
                    "cmap-conflict-silently-resolved",
                    format!("U+{cp:04X} is on two exported glyphs but a font was produced"),
                    json!({"case": cj}),
                );
            }
            match decode(bytes) {
                Err(e) => {
                    out.violation("font-undecodable", format!("cannot decode the font: {e}"), json!({"case": cj}));
                    comparable = false;
                }
                Ok(d) => {
                    let (names, renamed_post): (Vec<String>, Option<Vec<String>>) = match &plain {
                        None => (d.post.clone(), None),
                        Some(Outcome::Font(pb)) => match decode(pb) {
                            Ok(pd) => {
                                if pd.num_glyphs != d.num_glyphs || pd.advances != d.advances || pd.cmap != d.cmap || pd.comps != d.comps {
                                    out.violation("production-names-change-more-than-names", "glyph count, advances, cmap or components differ between production names on and off".to_string(), json!({"case": cj}));
                                }
                                (pd.post, Some(d.post.clone()))
                            }
                            Err(e) => {
                                out.violation("font-undecodable", format!("cannot decode the font: {e}"), json!({"case": cj}));
                                (d.post.clone(), None)
                            }
                        },
                        Some(other) => {
                            out.violation("production-names-change-outcome", format!("with production names off the build gives {:?}", match other { Outcome::Error(e) => e.clone(), Outcome::Panic(e) => e.clone(), _ => String::new() }), json!({"case": cj}));
                            (d.post.clone(), None)
                        }
                    };
                    check_property(c, &spec, &d, &names, renamed_post.as_deref(), &mut out);
                    let comps: Vec<Vec<String>> = d.comps.iter().map(|v| v.iter().map(|g| names.get(*g as usize).cloned().unwrap_or_else(|| format!("gid{g}"))).collect()).collect();
                    obs = Obs::Font(Observed { order: names, post: d.post.clone(), cmap: d.cmap.clone(), comps });
                }
            }
        }
    }
    if comparable {
        let nontrivial = c.glyphs.len() > 1;
        let sig = format!("{:?}", cj.to_string());
        let mut v = json!({"type":"case","id":c.id,"kind":c.kind,"coq":coq_case(c, &obs, c.glyphs_fmt),"nontrivial":nontrivial,"sig":sig});
        v["show"] = json!(format!("({} {} {} {})", if c.glyphs_fmt { "glyphs_build" } else { "ufo_build" }, coq_flags(&c.fl), coq_names(c.declared.as_deref().unwrap_or(&[])), coq_list(&c.glyphs, |g| format!("({})", coq_glyph(g)))));
        v["input"] = cj;
        v["impl"] = match &obs {
            Obs::Font(o) => json!({"order": o.order, "post": o.post, "cmap": o.cmap, "components": o.comps}),
            Obs::CmapConflict => json!("error: cmap conflict"),
            Obs::MissingJob => json!("error: backend fragment not available"),
        };
        out.lines.push(v);
    }
    out.lines
}

/// Hand-written boundary sources that run first on every seed.
fn fixed_cases() -> Vec<Case> {
    let g = |name: &str, export: bool, cps: &[u32], contours: bool, comps: &[&str], advance: u32| G {
        name: name.into(),
        export,
        cps: cps.to_vec(),
        contours,
        comps: comps.iter().map(|s| s.to_string()).collect(),
        advance,
    };
    let base = |id: usize, declared: Option<Vec<&str>>, glyphs: Vec<G>, prefer_simple: bool| Case {
        id,
        kind: "fixed",
        declared: declared.map(|d| d.iter().map(|s| s.to_string()).collect()),
        glyphs,
        fl: Fl { prefer_simple, flatten: false, decompose: false, production_names: true },
        rename: None,
        use_prod_key: None,
        designspace: false,
        glyphs_fmt: false,
        default_last: false,
        decoy_skip: vec![],
        extra_in_other_master: None,
        kerning: vec![],
    };
    vec![
        // .notdef listed in public.skipExportGlyphs, default flags
        base(0, None, vec![g(NOTDEF, false, &[], true, &[], 100), g("a", true, &[0x61], true, &[], 110)], true),
        // hoisted contours of "a" would be called "a.0", the name of a non-export glyph
        base(1, None, vec![g("a", true, &[0x61], true, &["b"], 100), g("b", true, &[], true, &[], 110), g("a.0", false, &[], true, &[], 120)], false),
        // the same without the collision: derived glyph a.1 because a.0 is an exported glyph
        base(2, Some(vec!["a.0", "a"]), vec![g("a", true, &[0x61], true, &["b"], 100), g("b", true, &[], true, &[], 110), g("a.0", true, &[], true, &[], 120)], false),
        // no .notdef in the source, one glyph
        base(3, Some(vec![]), vec![g("a", true, &[0x61, 0x41], true, &[], 100)], true),
        // .notdef declared last
        base(4, Some(vec!["b", "a", NOTDEF]), vec![g("a", true, &[0x61], true, &[], 100), g(NOTDEF, true, &[], true, &[], 110), g("b", true, &[0x62], true, &[], 120)], true),
        // one code point on two exported glyphs
        base(5, None, vec![g("a", true, &[0x41], true, &[], 100), g("b", true, &[0x41], true, &[], 110)], true),
        // the same code point on an exported and a non-export glyph: harmless
        base(6, None, vec![g("a", true, &[0x41], true, &[], 100), g("b", false, &[0x41], true, &[], 110)], true),
        // nested non-export components
        base(7, None, vec![g("e", true, &[0x65], false, &["n1", "x"], 100), g("n1", false, &[], false, &["n2"], 110), g("n2", false, &[], false, &["x", "x"], 120), g("x", true, &[], true, &[], 130)], true),
    ]
}

fn main() {
    let args: Vec<String> = std::env::args().collect();
    let args = &args[1..];
    let seed = arg_val(args, "--seed", 1);
    let n = arg_val(args, "--n", 200) as usize;
    let threads = arg_val(args, "--threads", 8) as usize;
    quiet_panics();
    let mut rng = Rng::new(seed);
    let mut cases: Vec<Case> = fixed_cases();
    let k = cases.len();
    cases.extend((k..n.max(k)).map(|i| gen_case(&mut rng, i)));
    let n = cases.len();
    // compile in parallel, emit in case order (deterministic output)
    let results: Vec<Vec<serde_json::Value>> = {
        let chunks: Vec<Vec<&Case>> = (0..threads).map(|t| cases.iter().skip(t).step_by(threads).collect()).collect();
        let mut slots: Vec<Option<Vec<serde_json::Value>>> = (0..n).map(|_| None).collect();
        let outs: Vec<Vec<(usize, Vec<serde_json::Value>)>> = std::thread::scope(|s| {
            let hs: Vec<_> = chunks.iter().map(|ch| s.spawn(move || ch.iter().map(|c| (c.id, run_case(c))).collect::<Vec<_>>())).collect();
            hs.into_iter().map(|h| h.join().expect("worker")).collect()
        });
        for o in outs {
            for (i, v) in o {
                slots[i] = Some(v);
            }
        }
        slots.into_iter().map(|x| x.unwrap()).collect()
    };
    let mut stats: BTreeMap<String, usize> = BTreeMap::new();
    for (c, lines) in cases.iter().zip(results.iter()) {
        *stats.entry(format!("kind:{}", c.kind)).or_default() += 1;
        if c.designspace {
            *stats.entry("designspace".into()).or_default() += 1;
        }
        if c.glyphs.iter().any(|g| !g.export) {
            *stats.entry("has_nonexport".into()).or_default() += 1;
        }
        if c.glyphs.iter().any(|g| g.contours && !g.comps.is_empty()) {
            *stats.entry("has_mixed".into()).or_default() += 1;
        }
        if !c.glyphs.iter().any(|g| g.name == NOTDEF) {
            *stats.entry("no_notdef_in_source".into()).or_default() += 1;
        }
        if effective_rename(c).is_some() {
            *stats.entry("renamed".into()).or_default() += 1;
        }
        if spec_of(c).cmap.is_none() {
            *stats.entry("codepoint_conflict".into()).or_default() += 1;
        }
        for l in lines {
            if l["type"] == "skip" {
                *stats.entry("skipped_incompatible_paths".into()).or_default() += 1;
                continue;
            }
            if l["type"] == "case" && l["impl"].is_string() {
                *stats.entry("outcome_error".into()).or_default() += 1;
            }
            emit(l.clone());
        }
    }
    emit_stat(json!({"distribution": stats, "extra_evaluations": 0}));
}
