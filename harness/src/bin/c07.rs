//! C07: VariationModel — sort order, regions, influence, delta weights, deltas, interpolation.
use fontdrasil::coords::{NormalizedCoord, NormalizedLocation};
use fontdrasil::types::Tag;
use fontdrasil::variations::{RoundingBehaviour, VariationModel};
use serde_json::{json, Value};
use std::collections::{HashMap, HashSet};
use std::str::FromStr;
use vh::*;

const TAGS: [&str; 4] = ["wght", "wdth", "opsz", "ital"];

fn mk_loc(axes: &[Tag], coords: &[i64], d: i64) -> NormalizedLocation {
    axes.iter().zip(coords).map(|(t, c)| (*t, NormalizedCoord::new(*c as f64 / d as f64))).collect()
}

fn gen_layout(rng: &mut Rng, n_axes: usize, d: i64) -> (Vec<Vec<i64>>, &'static str) {
    let mut locs: Vec<Vec<i64>> = vec![vec![0; n_axes]];
    let kind;
    // grid of allowed coordinate values (multiples of 1/d in [-1,1])
    let steps: Vec<i64> = match rng.below(4) {
        0 => vec![-d, 0, d],
        1 => vec![-d, -d / 2, 0, d / 2, d],
        2 => vec![0, d / 4, d / 2, 3 * d / 4, d],
        _ => (-4..=4).map(|k| k * d / 4).collect(),
    };
    match rng.below(7) {
        6 if n_axes >= 2 && d >= 8 => {
            // several masters inside one quadrant at unrelated (not grid-aligned) positions, plus the axis ends:
            // an earlier master then lies strictly inside a later master's box and is cut away (seed C07-2)
            kind = "interior-cluster";
            let signs: Vec<i64> = (0..n_axes).map(|_| if rng.chance(3, 4) { 1 } else { -1 }).collect();
            for a in 0..n_axes {
                if rng.chance(3, 4) {
                    let mut l = vec![0; n_axes];
                    l[a] = signs[a] * d;
                    locs.push(l);
                }
            }
            for _ in 0..rng.range(3, 6) {
                locs.push((0..n_axes).map(|a| signs[a] * rng.range(1, d.min(64))* (d / d.min(64))).collect());
            }
            if rng.chance(1, 2) {
                locs.push((0..n_axes).map(|a| signs[a] * d).collect());
            }
        }
        0 | 6 => {
            kind = "on-axis";
            for a in 0..n_axes {
                for _ in 0..rng.range(1, 3) {
                    let v = *rng.pick(&steps);
                    if v != 0 {
                        let mut l = vec![0; n_axes];
                        l[a] = v;
                        locs.push(l);
                    }
                }
            }
        }
        1 => {
            kind = "corners";
            let m = rng.range(1, 6);
            for _ in 0..m {
                locs.push((0..n_axes).map(|_| *rng.pick(&[-d, 0, d])).collect());
            }
        }
        2 => {
            kind = "diagonal-ties";
            // points on the diagonal and symmetric off-diagonal points: equal cut ratios
            for k in [d / 4, d / 2, 3 * d / 4, d] {
                if rng.chance(2, 3) {
                    locs.push(vec![k; n_axes]);
                }
            }
            if n_axes >= 2 && rng.chance(1, 2) {
                let mut l = vec![d / 2; n_axes];
                l[0] = d;
                locs.push(l);
            }
        }
        3 => {
            kind = "shared-peaks";
            let v = *rng.pick(&steps);
            for _ in 0..rng.range(2, 6) {
                let mut l: Vec<i64> = (0..n_axes).map(|_| *rng.pick(&steps)).collect();
                l[0] = v;
                locs.push(l);
            }
        }
        _ => {
            kind = "random";
            for _ in 0..rng.range(1, 8) {
                locs.push((0..n_axes).map(|_| if rng.chance(1, 3) { 0 } else { *rng.pick(&steps) }).collect());
            }
        }
    }
    // distinct locations
    let mut seen = HashSet::new();
    locs.retain(|l| seen.insert(l.clone()));
    // supply order is arbitrary
    let first = locs.remove(0);
    rng.shuffle(&mut locs);
    let pos = rng.below(locs.len() as u64 + 1) as usize;
    locs.insert(pos, first);
    (locs, kind)
}

fn coord_int(v: f64, d: i64) -> Option<i64> {
    let x = v * d as f64;
    if x == x.round() { Some(x as i64) } else { None }
}

fn main() {
    if std::env::var("VH_LOUD").is_err() { quiet(); }
    let args: Vec<String> = std::env::args().collect();
    let seed = arg_val(&args, "--seed", 1);
    let n = arg_val(&args, "--n", 300) as usize;
    let mut rng = Rng::new(seed);
    let mut skipped_ties = 0usize;
    let mut masters_hist: HashMap<usize, usize> = HashMap::new();
    for id in 0..n {
        let n_axes = rng.range(1, 4) as usize;
        let d: i64 = *rng.pick(&[4, 8, 16, 16384]);
        let axes: Vec<Tag> = TAGS[..n_axes].iter().map(|t| Tag::from_str(t).unwrap()).collect();
        // axis_order need not be tag order
        let mut axis_order = axes.clone();
        rng.shuffle(&mut axis_order);
        let (locs, kind) = gen_layout(&mut rng, n_axes, d);
        *masters_hist.entry(locs.len()).or_default() += 1;
        let nlocs: Vec<NormalizedLocation> = locs.iter().map(|l| mk_loc(&axis_order, l, d)).collect();
        let set: HashSet<NormalizedLocation> = nlocs.iter().cloned().collect();
        let model = match std::panic::catch_unwind(|| VariationModel::new(set.clone(), axis_order.clone())) {
            Ok(m) => m,
            Err(_) => {
                emit_violation("varmodel-panic", format!("VariationModel::new panicked on {:?} / {}", locs, d), json!({"locs": locs, "d": d}));
                continue;
            }
        };
        // order independence: a second construction (fresh HashSet seeds, reversed insertion)
        let set2: HashSet<NormalizedLocation> = nlocs.iter().rev().cloned().collect();
        let model2 = VariationModel::new(set2, axis_order.clone());
        if model != model2 {
            emit_violation("varmodel-order-dependent", format!("two constructions from the same location set differ: {:?} / {}", locs, d), json!({"locs": locs, "d": d}));
        }
        let v: Value = serde_json::to_value(&model).unwrap();
        let get_loc = |lv: &Value| -> Vec<f64> {
            let m: HashMap<String, f64> = lv.as_array().unwrap().iter().map(|p| (p[0].as_str().unwrap().to_string(), p[1].as_f64().unwrap())).collect();
            axis_order.iter().map(|t| m[&t.to_string()]).collect()
        };
        let sorted: Vec<Vec<f64>> = v["locations"].as_array().unwrap().iter().map(get_loc).collect();
        let mut exact = true;
        let sorted_i: Vec<Vec<i64>> = sorted.iter().map(|l| l.iter().map(|x| coord_int(*x, d).unwrap_or_else(|| { exact = false; 0 })).collect()).collect();
        let mut tents_i: Vec<Vec<(i64, i64, i64)>> = Vec::new();
        let mut active_i: Vec<Vec<bool>> = Vec::new();
        for r in v["influence"].as_array().unwrap() {
            let at = &r["axis_tents"];
            let mut row = Vec::new();
            for t in &axis_order {
                let tv = &at[t.to_string()];
                let (mn, pk, mx) = (tv["min"]["coord"].as_f64().unwrap(), tv["peak"]["coord"].as_f64().unwrap(), tv["max"]["coord"].as_f64().unwrap());
                // property predicate on the implementation: tents well-formed
                if !(mn <= pk && pk <= mx) || mn < -1.0 || mx > 1.0 || (mn < 0.0 && mx > 0.0) {
                    emit_violation("tent-invalid", format!("tent ({mn},{pk},{mx}) on {t} is not a valid region for {:?} / {}", locs, d), json!({"locs": locs, "d": d}));
                }
                match (coord_int(mn, d), coord_int(pk, d), coord_int(mx, d)) {
                    (Some(a), Some(b), Some(c)) => row.push((a, b, c)),
                    _ => {
                        exact = false;
                        row.push((0, 0, 0))
                    }
                }
            }
            tents_i.push(row);
            let act: Vec<String> = r["active_axes"].as_array().unwrap().iter().map(|x| x.as_str().unwrap().to_string()).collect();
            active_i.push(axis_order.iter().map(|t| act.contains(&t.to_string())).collect());
        }
        let weights: Vec<Vec<(usize, f64)>> = v["delta_weights"]
            .as_array()
            .unwrap()
            .iter()
            .map(|w| w.as_array().unwrap().iter().map(|p| (p[0].as_u64().unwrap() as usize, p[1].as_f64().unwrap())).collect())
            .collect();
        for w in weights.iter().flatten() {
            if !(w.1 > 0.0 && w.1 <= 1.0) {
                emit_violation("scalar-out-of-unit", format!("delta weight {} outside (0,1] for {:?} / {}", w.1, locs, d), json!({"locs": locs, "d": d}));
            }
        }
        if !exact {
            emit_violation("coordinate-not-on-grid", format!("model coordinates left the 1/{d} grid for {:?}", locs), json!({"locs": locs, "d": d}));
            continue;
        }

        // ---- values: a sparse subset (normally containing the default) ----------
        let origin = vec![0i64; n_axes];
        let vals: Vec<Option<f64>> = locs
            .iter()
            .map(|l| {
                let keep = if *l == origin { rng.chance(9, 10) } else { rng.chance(3, 4) };
                if keep {
                    // half-unit values exercise rounding ties
                    Some(rng.range(-2000, 2000) as f64 / 2.0)
                } else {
                    None
                }
            })
            .collect();
        let mut point_seqs: HashMap<NormalizedLocation, Vec<f64>> = HashMap::new();
        for (l, v) in nlocs.iter().zip(&vals) {
            if let Some(x) = v {
                point_seqs.insert(l.clone(), vec![*x]);
            }
        }
        let coq_locs = coq_list(&locs, |l| coq_list(l, |c| coq_z(*c)));
        let coq_model = format!(
            "check_model {} {} {} {} {}",
            coq_locs,
            coq_list(&sorted_i, |l| coq_list(l, |c| coq_z(*c))),
            coq_list(&tents_i, |r| coq_list(r, |t| format!("({}, {}, {})", coq_z(t.0), coq_z(t.1), coq_z(t.2)))),
            coq_list(&active_i, |r| coq_list(r, |b| coq_bool(*b))),
            coq_list(&weights, |w| coq_list(w, |p| format!("({}, {})", coq_nat(p.0), coq_q(p.1))))
        );
        let mut terms = vec![coq_model];
        let idx_of: HashMap<Vec<i64>, usize> = sorted_i.iter().enumerate().map(|(i, l)| (l.clone(), i)).collect();
        for rounding in [false, true] {
            let rb = if rounding { RoundingBehaviour::RoundTiesEven } else { RoundingBehaviour::None };
            let ds = match model.deltas_with_rounding::<f64, f64>(&point_seqs, rb) {
                Ok(d) => d,
                Err(e) => {
                    emit_violation("deltas-error", format!("deltas failed: {e} for {:?} / {}", locs, d), json!({"locs": locs, "d": d}));
                    continue;
                }
            };
            if point_seqs.is_empty() {
                continue;
            }
            // model index of each delta set = index of the location whose peak it carries
            let mut exp_deltas: Vec<(usize, f64)> = Vec::new();
            for (region, dv) in &ds {
                let peak: Vec<i64> = axis_order.iter().map(|t| coord_int(region.get(t).unwrap().peak.to_f64(), d).unwrap()).collect();
                exp_deltas.push((idx_of[&peak], dv[0]));
            }
            // property predicate on the implementation: masters are reproduced
            let mut interp = Vec::new();
            for (l, li) in nlocs.iter().zip(&locs) {
                let got = model.interpolate_from_deltas(l, &ds);
                let got = got.first().copied().unwrap_or(0.0);
                interp.push((idx_of[li], got));
                // scalars in [0,1]
                for (region, _) in &ds {
                    let s = region.scalar_at(l).into_inner();
                    if !(0.0..=1.0).contains(&s) {
                        emit_violation("scalar-out-of-unit", format!("scalar {s} outside [0,1] at {:?} for {:?} / {}", li, locs, d), json!({"locs": locs, "d": d}));
                    }
                }
            }
            for ((_l, li), v) in nlocs.iter().zip(&locs).zip(&vals) {
                if let Some(x) = v {
                    let got = interp.iter().find(|(i, _)| *i == idx_of[li]).unwrap().1;
                    let tol = if rounding { 0.5 + 1e-9 } else { 1e-9 * (1.0 + x.abs()) };
                    if (got - x).abs() > tol {
                        emit_violation(
                            if rounding { "master-not-reproduced-rounded" } else { "master-not-reproduced" },
                            format!("interpolating at master {:?} gives {got}, master value {x} (layout {:?} / {d}, values {:?})", li, locs, vals),
                            json!({"locs": locs, "d": d, "vals": vals, "rounding": rounding}),
                        );
                    }
                    if *li == origin && ((!rounding && got != *x) || (rounding && got != round_ties_even(*x))) {
                        emit_violation("default-not-exact", format!("default value {x} comes back as {got} (layout {:?} / {d})", locs), json!({"locs": locs, "d": d, "vals": vals}));
                    }
                }
            }
            interp.sort_by_key(|p| p.0);
            let tol = if rounding { "(1#1000000)%Q" } else { "(1#1000000)%Q" };
            if rounding {
                // f64 and exact arithmetic may fall on different sides of a rounding tie when the
                // pre-rounding value is not exactly representable; halves with dyadic weights are exact,
                // so only skip when some weight is not dyadic-exact (never on these grids) — counted anyway.
                if weights.iter().flatten().any(|w| (w.1 * 1048576.0).fract() != 0.0) {
                    skipped_ties += 1;
                    continue;
                }
            }
            terms.push(format!(
                "check_deltas {} {} {} {} {} {}",
                coq_locs,
                coq_list(&vals, |v| coq_opt(v, |x| coq_q(*x))),
                coq_bool(rounding),
                coq_list(&exp_deltas, |p| format!("({}, {})", coq_nat(p.0), coq_q(p.1))),
                coq_list(&interp, |p| coq_q(p.1)),
                tol
            ));
        }
        let coq = terms.iter().map(|t| format!("({t})")).collect::<Vec<_>>().join(" && ");
        let nontrivial = locs.len() >= 3;
        emit_case(id, kind, coq, Some(format!("m_locs (model_new {})", coq_locs)), nontrivial, format!("{:?}/{}", locs, d),
            json!({"locs": locs, "d": d, "axes": n_axes, "vals": vals, "impl_sorted": sorted_i}));
    }
    emit_stat(json!({"masters_histogram": masters_hist.iter().map(|(k, v)| (k.to_string(), *v)).collect::<HashMap<_, _>>(), "skipped_rounding_ties": skipped_ties}));
}

fn round_ties_even(x: f64) -> f64 {
    let r = x.round();
    if (x - x.trunc()).abs() == 0.5 { 2.0 * (x / 2.0).round() } else { r }
}

fn quiet() {
    std::panic::set_hook(Box::new(|_| {}));
}
