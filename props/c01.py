N = {"quick": 10, "thorough": 150}
CORPUS = {"quick": 24, "thorough": 400}
BUILDS = {"quick": 6, "thorough": 12}
PROP = dict(
    id="C01",
    module="FV.C01.Props",
    coq_targets=["theories/C01/Props.vo"],
    theorems=["schedule_independence", "conflict_order_determines_store", "timestamp_is_a_function_of_the_epoch",
              "variation_model_ignores_hash_order", "preliminary_glyph_order_ignores_hash_order",
              "name_record_order_ignores_hash_order", "checked_name_records_are_canonical",
              "sorting_by_a_total_order_erases_arrival_order", "name_record_sort_is_an_ordered_permutation",
              "name_record_sort_idempotent", "table_directory_ignores_insertion_order",
              "checked_table_directory_is_canonical", "batch_interpolation_ignores_hash_order",
              "incremental_interpolation_depends_on_order"],
    prelude="From Coq Require Import List ZArith NArith Bool.\nFrom FV.C01 Require Import Model.\nImport ListNotations.",
    harness_args=lambda tier, seed: ["--seed", str(seed), "--n", str(N[tier]), "--corpus", str(CORPUS[tier]),
                                     "--builds", str(BUILDS[tier])],
    rule="a seed-dependent sample of resources/testdata (UFO, designspace, Glyphs 2/3) plus generated sources (8-40 "
         "glyphs, composites, anchors, kerning groups and many pairs, non-export glyphs, FEA with feature names, 1-2 axes, "
         "3-4 masters, in every second single-axis design the glyphs mixing a contour and a component exist only at the "
         "outer masters so that they are batch-interpolated at two missing locations, instances repeating name strings, a rule); each source is compiled 6 (thorough: 12) times in "
         "separate processes - fresh hash seeds - with RAYON_NUM_THREADS in {1,2,3,8,16} and SOURCE_DATE_EPOCH fixed; "
         "all outputs must be byte-identical; the name records of each font are handed to the model's sort in two other orders "
         "and must come out as the font has them. Non-trivial = the source compiles; distinct = distinct source.",
    trusted_base=["Coq 8.16.1 kernel (coqc; vm_compute for the timestamp, name-record and table-directory cases)",
                  "scheduler model FV.C02.Model (tied to the code by the C02 check) and the conflict-serialisability "
                  "development FV.C01.Det / SchedDet; hand-written timestamp model tied to head.created/modified",
                  "Rust harness /verif/harness (c01): child processes of the harness binary compile through fontc::generate_font; "
                  "its reader of the name table's record keys (sfnt.rs + 12-byte records) feeding name_order_ok"],
    assumptions=["batch_interpolation_ignores_hash_order: `interp` is a section variable standing for instantiate_instance (any "
                 "function of the original source set and the location); the batch model itself is not evaluated against "
                 "the code - that batch_interpolate_missing has this shape is read from fontir/src/glyph.rs, and its effect "
                 "is exercised only by the differential builds of sparse-master sources (generated designs with two intermediate "
                 "masters that lack the mixed contour+component glyphs)",
                 "schedule_independence treats a job as atomic and as a function of the items it reads; that no conflicting "
                 "job overlaps its execution is what C02's sched_safe establishes",
                 "hash seeds and thread timing are runtime behaviour the model cannot exhibit: they are exercised by the "
                 "differential builds only",
                 "iteration-order independence is proved for the modelled cores only (variation model, preliminary glyph "
                 "order, composite limits, file names); the other HashMap uses are covered by the differential builds"],
)
MANIFEST = dict(
    text="Proof cannot exhibit a hash seed or an interleaving; it shows that what the pipeline computes does not depend on "
         "them. Coq theorems: (1) schedule independence - for every job graph accepted by C02's safe_graph with pairs "
         "covering all read/write conflicts, any two schedules of the scheduler model that run the same jobs end in the same "
         "store (conflict-serialisability proved from scratch, connected to the scheduler's launch order); (2) head "
         "timestamps are a function of SOURCE_DATE_EPOCH; (3) hash-order independence of modelled cores (variation model, "
         "preliminary glyph order, name records: a sort by a total order erases the arrival order, and each compiled font's "
         "name records are checked to be the model's sort of other arrival orders). Partial: the remaining HashMap uses and the real runtime are covered by differential "
         "builds on every run: each source is built repeatedly in separate processes with different thread counts and all "
         "outputs must be byte-identical; differing builds are reported with the source and the differing tables.",
    note="Trusted: Coq kernel; the scheduler model and its tie (C02 check); Rust harness spawning separate build processes. "
         "No axioms. Runtime behaviour the model cannot exhibit: actual hash seeds, thread-pool timing.",
)
