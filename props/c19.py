"""C19 — values that do not fit the binary format are rejected, never wrapped; debug and release agree.

Non-standard flow: the harness is built twice.  The standard flow builds and runs the dev-profile
binary (overflow checks on); before that this module builds the release-profile binary of the same
program from the same working tree, and the dev binary starts it as a worker
(`C19_RELEASE_BIN ... --worker`) to obtain the release build's outcome for every boundary source.
"""
import os
import sys

sys.path.insert(0, os.path.join(os.path.dirname(os.path.dirname(os.path.abspath(__file__))), "lib"))
import vcheck

N = {"quick": 160, "thorough": 4000}

PROP = dict(
    id="C19",
    module="FV.C19.Props",
    coq_targets=["theories/C19/Props.vo", "theories/C19/Tie.vo"],
    theorems=[
        "saturating_site_exact_iff", "saturating_sites_refuted", "f2dot14_within_quantum", "f2dot14_refuted",
        "narrow_arith_profiles_agree_iff", "checked_site_never_wraps", "width_class_checked",
        "variation_instance_exact_iff",
        "glyf_outline_never_wrapped", "glyf_every_point_checked", "glyf_seam_step_checked", "glyf_outline_emitted_iff", "glyf_profiles_agree",
        "component_fallback_preserves_shape", "flattened_scale_refuted",
        "composite_totals_exact_or_rejected", "composite_totals_u32_refuted",
        "font_profiles_agree", "font_profiles_agree_bounded",
        "font_checked_sites_reject", "font_checked_limits_reject", "font_faithful_when_fits",
        "C19_never_wrapped_refuted",
    ],
    prelude="Require Import FV.C19.Model FV.C19.Tie.\nFrom Coq Require Import List NArith ZArith QArith Bool.\nOpen Scope Z_scope.",
    harness_args=lambda tier, seed: ["--seed", str(seed), "--n", str(N[tier]), "--tier", tier],
    shard=40,
    rule="boundary sources: for every narrowed field (advance width/height, outline coordinate and successive "
         "difference inside a contour and across a contour seam (two and three contours, both signs, x and y; glyf outlines are decoded by hand with unbounded running sums, not through read-fonts), off-curve control point of a quadratic segment and of a cubic segment through cu2qu (outside i16 while the on-curve points and the curve stay inside; both signs, x and y; default and non-default master; emitted points compared with on/off flags), component offset, component 2x2 entry plain and after --flatten-components, composite box, "
         "kerning value, anchor coordinate, hhea line metrics, vertical origin, top side bearing, HVAR/gvar deltas, "
         "points per glyph, composite point totals, glyph count (thorough), WidthClass) the values limit-1, limit, "
         "limit+fractions, limit+1, far beyond, on both signs, plus seeded draws (half within +-3 of a limit in "
         "quarter units, a quarter in range, a quarter far outside). Each source is compiled by the dev-profile and by "
         "the release-profile harness. A case is non-trivial when its value is not a plain in-range draw; distinct = "
         "distinct (kind, values).",
    trusted_base=["Coq 8.16.1 kernel (coqc, vm_compute for case evaluation)",
                  "hand-written model FV.C19.Model tied to fontc::generate_font in both build profiles by the "
                  "correspondence run",
                  "Rust harness /verif/harness (vh c19, dev and release builds), hand-written sfnt/glyf/GPOS "
                  "decoders in it, read-fonts (HVAR) and skrifa (gvar instances)"],
    assumptions=["f64 is modelled by Q; generated values are multiples of 1/4 (2^-16 for 2x2 entries), for which "
                 "x+0.5 and x*16384 are exact in f64",
                 "outlines in the model are closed contours given as the list of all their points (on- and off-curve); "
                 "correspondence for curves is checked on contours whose first segment is a line and whose control "
                 "points are single quadratic ones; cubic segments go through kurbo's cu2qu, which is not modelled: for "
                 "them only the predicate is evaluated, against the harness' own call of kurbo's converter",
                 "composites in the font-level model have depth one; nested composites only through the flattening model",
                 "the first failing job decides the outcome; sources with several independent failures are not generated",
                 "NaN/infinite source values are outside the model",
                 "the model describes /repo with the C19 repairs applied (work/patches/c19-*.diff): checked advance "
                 "width, outline coordinates and differences, component offsets, point count, top side bearing, "
                 "WidthClass"],
)

MANIFEST = dict(
    text="Coq theorems over a model of every narrowing step between source and binary tables as Rust executes it in "
         "each build profile (saturating float casts, wrapping integer casts, checked conversions, narrow +/-): exact "
         "characterisation of when each saturating site is faithful with boundary refutations for the sites left as "
         "known findings; for the checked sites (advance width, outline coordinates and successive differences, "
         "component offsets, point count, top side bearing, composite totals, glyph count, WidthClass) whatever is "
         "emitted is exact and a value that does not fit ends the build, for outlines and fonts of any size; the two "
         "profiles produce the same outcome for every source whose composites have at most 65536 components; shape "
         "preservation of the decomposition fallback; a font-level theorem that an emitted font is faithful when the "
         "remaining saturating sites fit. The "
         "model is tied to the code on every run: boundary sources are compiled by a debug and by a release build of the "
         "harness, the property predicate is evaluated on the decoded fonts, the model must predict both outcomes, and "
         "the anchored files are scanned for narrowing idioms missing from the site table.",
    note="Trusted: Coq kernel + vm_compute; hand-written model and its correspondence run; Rust harness and decoders. "
         "No axioms.",
)


def run(tier, seed):
    rc, out, binp = vcheck.harness_build("c19", "release")
    env = dict(PROP.get("env") or {})
    env["C19_RELEASE_BIN"] = binp if rc == 0 else ""
    if rc != 0:
        sys.stderr.write("C19: release build of the harness failed:\n" + out[-2000:] + "\n")
    P = dict(PROP)
    P["env"] = env
    return vcheck.run_standard(P, tier, seed)
