N = {"quick": 120, "thorough": 3000}
PROP = dict(
    id="C04",
    module="FV.C04.Props",
    coq_targets=["theories/C04/Props.vo", "theories/C04/Check.vo"],
    theorems=["advance_at_every_master", "advance_width_within_one_of_source", "notdef_dense_copy_neutral",
              "later_glyphs_independent_of_first", "hvar_agrees_with_gvar_phantom_points",
              "phantom_height_within_one", "metric_at_every_master", "metric_exactly_equal_refuted", "mvar_omits_exactly_the_constant_metrics",
              "ufo_metric_in_font_at_every_master", "spec_scalar_is_model_scalar",
              "decoded_delta_set_denotes_the_models", "check_font_is_sound", "master_bound_without_fit_refuted"],
    prelude="Require Import FV.C04.Model FV.C04.Check.\nFrom Coq Require Import List NArith ZArith QArith Bool.\nOpen Scope Z_scope.",
    harness_args=lambda tier, seed: ["--seed", str(seed), "--n", str(N[tier])],
    shard=36,
    rule="generated designspaces (1-3 axes; axis-end, both-end, corner, on-axis intermediate, interior and mixed master "
         "layouts; 0-2 glyph-only sparse layer masters; three quarters with normalized coordinates exact in F2Dot14, one "
         "quarter with decimal coordinates), 2-6 glyphs each defined at all, some or one of the masters (plus sparse "
         "masters), .notdef in every master / in the default master only (dense copy) / absent (generated), empty "
         "glyphs, advance classes constant / linear / random / x.5 ties / quarters / within 1 of a tie / zero / at the u16 "
         "limit / one delta at the i16 limit, vertical metrics in a third, fontinfo per master with explicit, derived and "
         "mixed explicit-in-one-master-derived-in-another metric keys, fractional ascender / capHeight / underline "
         "values, italic angle. Each source is compiled by fontc::generate_font; every glyph x master and every metric x "
         "master is evaluated (extra_evaluations). A case (one table group of one font) is non-trivial when the design "
         "has more than one master; distinct = distinct source.",
    trusted_base=["Coq 8.16.1 kernel (coqc, vm_compute for case evaluation)",
                  "FV.C07 (model of fontdrasil VariationModel) which FV.C04.Model builds on, each tied to the code by "
                  "its own correspondence run",
                  "hand-written model FV.C04.Model tied to fontc::generate_font by the correspondence run: delta sets, "
                  "default advances, default metric fields and MVAR records decoded from the compiled font are compared "
                  "with the model's",
                  "Rust harness /verif/harness (vh c04): exact rational item-variation-store evaluator written from the "
                  "OpenType specification, cross-checked against read-fonts' evaluators and against the Gallina one",
                  "read-fonts / skrifa table decoders"],
    assumptions=["f64 is modelled by Q; region scalars are ratios of coordinate differences (e.g. 4096/12288) and are not "
                 "exact in f64 even for F2Dot14-exact coordinates, so when the model's exact pre-rounding delta of a glyph "
                 "or metric is exactly a rounding tie (has_tie) a decoded delta set that differs from the model's is "
                 "tolerated for that glyph / metric (seen: 3 - 2/3 - 4/3 - 1/2 = 0.5 exactly, 0.5000000000000002 in f64); "
                 "the property predicate on the real tables is evaluated regardless. For designs whose normalized "
                 "coordinates are not multiples of 1/16384 region coordinates are compared after rounding to F2Dot14",
                 "write-fonts' VariationStoreBuilder (region de-duplication, ordering, delta-set packing, direct vs "
                 "indirect store) and iup_delta_optimize are not modelled: their output is read back and compared as a "
                 "multiset of (region, non-zero delta) per item (row_matches, proved sound)",
                 "values that do not fit u16/i16 (saturating casts) are outside the master theorems (hypotheses "
                 "fits_u16 / deltas_fit; refuted without them); they are C19's subject",
                 "only UFO/designspace sources are generated (glyph heights always explicit); the model carries the "
                 ".glyphs fallback height = typo ascender - descender but it is not exercised",
                 "avar / axis maps are not used (user = design coordinates), that is C08's subject"],
)

MANIFEST = dict(
    text="Coq theorems, built on the C07 model of the variation model, over a model of AdvanceDeltas (HVAR/VVAR), the hmtx/vmtx "
         "default advances, the gvar phantom-point model choice, GlobalMetricsBuilder/MvarBuilder, the UFO fontinfo fallback "
         "chain and the OpenType item-variation-store evaluation: at every master location of every glyph (dense, sparse, "
         "dense .notdef copy) base advance + variation is within 1/2 of the master's rounded advance (within 1 of the source "
         "advance), exact at the default; HVAR and the phantom points denote the same function; every MVAR-tagged metric is "
         "within 1/2 of each master's rounded value, default fields exact, a record is omitted iff the metric is constant; "
         "the specification's region scalar equals fontc's on all model regions; a certified checker of decoded delta sets. "
         "The model is tied to the code on every run by compiling generated designspaces with fontc and comparing the decoded "
         "tables with the model, and the property predicate is evaluated on the real tables with an exact evaluator. Partial: "
         "saturating casts are excluded by hypothesis (C19), write-fonts' store builder and IUP are covered by evaluation only.",
    note="Trusted: Coq kernel + vm_compute; hand-written model and its correspondence run; Rust harness; read-fonts decoders. "
         "No axioms (Print Assumptions: closed under the global context).",
)
