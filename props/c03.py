N = {"quick": 60, "thorough": 1200}
PROP = dict(
    id="C03",
    module="FV.C03.Props",
    coq_targets=["theories/C03/Check.vo", "theories/C03/Props.vo"],
    theorems=["glyph_gets_its_own_model", "gvar_master_bound", "opentype_scalar_is_model_scalar",
              "outline_at_every_master", "component_offsets_at_every_master", "gvar_default_exact",
              "default_is_rounded_master", "composite_tuple_exact", "iup_referenced_points_keep_their_delta",
              "iup_inferred_delta_in_range", "check_glyph_sound", "fragment_is_pointwise_deltas",
              "any_nearest_rounding_reproduces_masters", "check_glyph_frag_sound",
              "kept_composite_is_positional"],
    prelude="Require Import FV.C03.Model FV.C03.Check.\nFrom Coq Require Import List NArith ZArith QArith Bool.\n"
            "Open Scope Z_scope.",
    harness_args=lambda tier, seed: ["--seed", str(seed), "--n", str(N[tier])],
    shard=24,
    rule="generated variable sources, all randomness from one PRNG; three of four are designspace + UFO (sparse masters = "
         "layers), every fourth a Glyphs 3 file (sparse masters = brace layers). 1-3 axes (every tenth designspace with "
         "an additional point axis; axes whose default is the minimum, an inner value or the maximum), normalized "
         "master coordinates k/d, d in {2,4,8,16} and - where every region has one axis to cut - {3,5,6,10} (2.14 "
         "rounding of tents and coordinates); layouts on-axis / corners / intermediate / diagonal with equal cut ratios / "
         "mixed, 2-8 masters of which any non-end master may be a sparse per-glyph master, glyphs missing from a "
         "non-default master. Per font 2-4 contour glyphs (line, quadratic incl. contours without on-curve points and "
         "on-curve points implied in all or in some masters, cubic, empty) and 1-2 composites (identity, scaled, flipped, "
         "sheared 2x2; varying offsets; one in six with an outline of its own, which the compiler decomposes), drawn per "
         "master in six styles (random, linear in the location, identical masters, rigid translation, a few moving "
         "points, values that put pre-rounding deltas on x.5), source coordinates, offsets and widths on a 1/4 grid, "
         "vertical metrics in a quarter of the designspaces, KEEP_DIRECTION in an eighth. Every glyph is instantiated at "
         "every one of its master locations. One case = one glyph of one font; non-trivial = some stored delta is "
         "non-zero; distinct = distinct master point sequences.",
    trusted_base=["Coq 8.16.1 kernel (coqc, vm_compute for case evaluation)",
                  "hand-written model FV.C03.Model on top of FV.C07.Model, tied to fontbe (glyphs.rs, gvar.rs, "
                  "orchestration.rs GvarFragment::to_deltas) and fontir add_phantom_points by the correspondence run: "
                  "per glyph the backend's GvarFragment (regions, every delta, required flags) and the decoded gvar "
                  "tuples are compared with the model evaluated on the masters' point sequences, Model.point_seq on "
                  "the source widths / heights / vertical origins / component offsets with those sequences, and the "
                  "Coq OpenType evaluator with the harness evaluator at every master",
                  "Rust harness /verif/harness (vh c03): source generators (designspace+UFO via vh::srcgen, its own "
                  "Glyphs 3 writer), read-fonts decoding of glyf/gvar/hmtx/vmtx, its own OpenType gvar evaluator "
                  "(tuple scalars, inferred deltas), skrifa as a second evaluator (simple and composite glyphs)",
                  "no hooks in /repo: glyph IR, static metadata and the per-glyph gvar fragments are read from "
                  "Options.ir_dir"],
    assumptions=["f64 modelled by exact rationals (DESIGN 4.1). A glyph some of whose pre-rounding deltas lies within "
                 "1e-6 of x.5 (counted: glyphs_near_a_rounding_tie) is compared with the certified checker that takes "
                 "the backend's own delta lists (they must be a nearest-integer rounding of the model's residuals; "
                 "theorem any_nearest_rounding_reproduces_masters); off-axis masters are generated on dyadic grids only, "
                 "because equal cut ratios computed in f64 on thirds or fifths differ in the last bit and trim other axes "
                 "than the exact model",
                 "kurbo cubics_to_quadratic_splines and write-fonts interpolatable_glyphs_from_bezpaths are oracles: a "
                 "master's point sequence is its own static build's outline (same contours, same points, same flags); "
                 "when the master alone compiles to fewer points (fewer cu2qu segments, a point implied in that master "
                 "only) the harness re-runs the two oracles on the glyph IR of all masters, takes the master's outline "
                 "in the shared structure and, for line/quadratic sources, checks it against the static build within "
                 "the rounding of an implied point (counted: joint_reference_used)",
                 "write-fonts iup_delta_optimize and GlyphDeltas packing are oracles: what is assumed of them "
                 "(stored_rel: deltas after inference within 1/2 of the model's, dropped tuples zero, default exact) is "
                 "checked on every decoded glyph by the certified checkers glyph_ok / glyph_ok_frag",
                 "2.14 quantisation of tents and coordinates is outside the theorems: the font-level predicate is "
                 "evaluated twice, as stored (2.14; on non-dyadic grids with the worst-case scalar error 4d/16384 per "
                 "axis and tuple times the largest delta as allowance) and with the regions' exact tents at the exact "
                 "location (no allowance)",
                 "a decomposed composite also has IR instances where only its components have masters; those are not "
                 "drawings of the glyph: the predicate runs at the glyph's own masters, the model comparison is skipped "
                 "(counted: glyphs_with_derived_sources)",
                 "axis maps (avar) are not exercised here (C08); instantiation is at normalized coordinates"],
)

MANIFEST = dict(
    text="Coq theorems over a model of fontc's gvar pipeline (point sequences with rounding and phantom points, choice "
         "of the per-glyph variation model, deltas through the C07 variation model, composite delta flags, to_deltas, "
         "dense/sparse packing) and of the OpenType reading of glyf+gvar written from the spec (tuple scalars, inferred "
         "deltas for un-referenced points, accumulation): for every number of axes, every set of master locations "
         "containing the default (on-axis, corner, intermediate, sparse), every glyph and every master of that glyph, "
         "each coordinate of each instantiated point, component offset and phantom point is within 1/2 + 1/2 x (sum of "
         "active region scalars) of that master's rounded value (within 1/2 for composites), for every way rounding "
         "ties may fall; at the default the instance equals the rounded default master exactly whatever the tuples "
         "contain; a glyph always gets the model of exactly its own locations; OpenType's tuple scalar equals the "
         "model's scalar on every region the model builds. The two write-fonts oracles (IUP optimiser, packing) enter "
         "only through a decidable relation that a certified checker evaluates on every decoded glyph. Tied to the code "
         "on every run: generated designspace/UFO and Glyphs sources are compiled in process, every master is also "
         "built alone, the backend's per-glyph fragments and the decoded gvar are compared with the model, and the "
         "property predicate is evaluated directly on the font by an evaluator written from the spec and by skrifa at "
         "every master location.",
    note="Trusted: Coq kernel + vm_compute; hand-written model and its correspondence run; Rust harness (generators, "
         "decoder over read-fonts, evaluator). No axioms, no hooks. Partial: cu2qu / point-structure conversion, IUP "
         "optimiser and packing are oracles (checked per case, not proved); 2.14 quantisation and avar are outside the "
         "theorems; 'same contours and points' is checked against each master's static build, not proved.",
)
