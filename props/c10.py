N = {"quick": (300, 130), "thorough": (6000, 3000)}
PROP = dict(
    id="C10",
    module="FV.C10.Props",
    coq_targets=["theories/C10/Props.vo"],
    theorems=["matching_mark_anchor_is_underscore_name", "anchor_kinds_distinct_for_distinct_names",
              "anchor_kind_prints_back", "ligature_anchor_names_alias_refuted", "anchor_index_nonzero",
              "numeral_parses_back",
              "base_anchor_mark_attached", "mark_anchor_mark_attached", "ligature_anchor_mark_attached",
              "mark_feature_attaches_only_source_pairs", "mkmk_feature_attaches_only_source_pairs",
              "one_lookup_per_anchor_name", "one_record_per_glyph",
              "anchor_in_font_at_every_master", "anchor_in_font_at_default_exact",
              "font_reading_is_interpolation", "default_coordinate_is_rounded_default_master",
              "marks_attach_on_source_anchors",
              "recomputed_category_is_mark_iff", "recomputed_category_table", "source_marks_are_gdef_marks",
              "attached_marks_are_inferred_gdef_marks", "mark_glyphs_are_never_bases_or_ligatures",
              "case_evaluation_cache_invisible"],
    prelude="Require Import FV.C10.Model.\nFrom Coq Require Import List NArith ZArith QArith Bool.",
    harness_args=lambda tier, seed: ["--seed", str(seed), "--names", str(N[tier][0]), "--n", str(N[tier][1])],
    shard=30,
    rule="two streams from one PRNG. (name) anchor names drawn from adversarial classes (leading / trailing / doubled "
         "underscores, numeric suffixes with signs, leading zeros, spaces, non-ASCII digits, usize overflow, caret_ / "
         "vcaret_ / entry / exit look-alikes, empty name) through the public AnchorKind::new and to_name, compared "
         "with the model's classification and printing. (e2e-*) UFO / designspace sources compiled in process with "
         "--emit-ir: 1-5 base glyphs, 1-5 combining marks, 0-3 ligatures, 0-2 composites, 1-4 anchor names (among them "
         "`top_right`, `x2`, `center.alt`) with several names per glyph, `_name` mark anchors (one or two per mark), "
         "base anchors on marks (mark-to-mark), `name_N` ligature anchors with missing components and `_N` component "
         "markers, unmatched base / mark anchors, entry / exit / caret anchors, a mark anchor on a base glyph, ligature "
         "anchors on a mark glyph, a mark-class glyph without a `_` anchor, non-exported glyphs; 1-4 masters on 1-2 axes "
         "(corner, on-axis and intermediate), anchor coordinates integer / .5 / .25 / .75 / .3 / .49999, negative, up "
         "to 5000, constant or moving between masters, anchors missing in a non-default master; glyph classes absent, "
         "from public.openTypeCategories (UFO lib or designspace lib), from a FEA GDEF table, or adversarial (glyphs "
         "unlisted, `unassigned`, `component`, contradicting the anchors, all `component`); anchor propagation on for "
         "every tenth source (categories then come from glyph names); every tenth source Devanagari (abvm / blwm). "
         "On the decoded font (read-fonts: GPOS MarkBasePos / MarkLigPos / MarkMarkPos of every script's default "
         "language system, GDEF classes, mark glyph sets, ItemVariationStore evaluated at every master) the property "
         "predicate is evaluated directly: every (attaching anchor, mark glyph with the matching `_` anchor) is "
         "covered by a lookup of the right type that survives its mark filtering set and carries the rounded source "
         "coordinates (exact at the default master, within 1/2 elsewhere); nothing else is attached; the source's "
         "marks are GDEF marks; the IR anchors are the source's anchors (with propagation: translated component "
         "anchors for simple composites). The Gallina term re-derives the mark and mkmk lookups from the IR anchors "
         "with the model (classification, pruning, groups, lookups, variable anchors through the C07 model) and "
         "compares them record by record with the decoded font (order, glyph ids, default coordinates, values at "
         "every master within 1/1000, filtering sets). Non-trivial = the source demands at least one attachment / "
         "the name is classified; distinct = distinct input.",
    trusted_base=["Coq 8.16.1 kernel (coqc, vm_compute for case evaluation and the refutation witness)",
                  "hand-written model FV.C10.Model tied to fontir::ir::AnchorKind and to whole compiled fonts by the "
                  "correspondence run; FV.C07 model of the variation model",
                  "Rust harness /verif/harness (vh c10): its own reading of the property on the source, its own "
                  "GPOS mark lookup / GDEF / variation store decoder over read-fonts table accessors; the IR files "
                  "fontc writes with --emit-ir (anchors, glyph order, categories) as the model's input"],
    assumptions=["f64 anchor coordinates modelled by Q (they are only rounded, subtracted and multiplied by scalars)",
                 "i16 range of anchor coordinates and deltas is not modelled (C19): generated coordinates stay within "
                 "+-5000 so that deltas of up to four masters fit",
                 "master locations of the generated sources are exactly representable in F2Dot14",
                 "HashMap / HashSet are used by the modelled code for membership and keyed replacement only; the drain "
                 "order of component_groups cannot reach the result (each entry goes to its own group)",
                 "a decoded font's variation regions and delta sets are read by the harness (F2Dot14 regions, "
                 "ItemVariationStore); the model side is resolve_variable_metric's return value, proved equal to the "
                 "interpolation of the C07 model (font_reading_is_interpolation)",
                 "the abvm / blwm split by Unicode script (split_mark_and_abvm_blwm_glyphs) is not modelled: the model "
                 "is the mark and mkmk features for sources whose glyphs all stay in the non-abvm set; Devanagari "
                 "sources are checked by the predicate only",
                 "anchor propagation through composites is not modelled: the IR after propagation is the model's input; "
                 "a translation rule for simple composites is checked by the harness",
                 "write-fonts serialisation (coverage tables, mark / base arrays, anchor formats, variation store "
                 "packing) and fea-rs lookup / feature / language-system assembly are not modelled; observed through the "
                 "independent decoder on the explored fonts",
                 "user feature code that already defines mark / mkmk (generation is then skipped by design), cursive "
                 "attachment and ligature carets are outside this property"],
)

MANIFEST = dict(
    text='Coq model of anchor-name classification (AnchorKind::new / to_name over Unicode strings, including <usize>::from_str), of the mark pipeline of fontbe (pruning to used anchor names, mark-glyph detection with and without source categories, mark-to-base / mark-to-mark / mark-to-ligature group construction over sorted maps, lookups with mark filtering sets, and the reading of the emitted MarkBasePos / MarkLigPos / MarkMarkPos records), of variable anchors on top of the C07 variation model, and of the GDEF class paths (category recomputation table, class definition from source categories, fea-rs class inference from the lookups). Theorems for every well-formed source of any size: every base / mark / ligature-component anchor and every mark glyph with the matching underscore anchor are attached by exactly one lookup of the right feature and type whose two anchors are the source\'s (completeness), lookups attach nothing else (soundness), each glyph has one record per lookup; with C07 each coordinate read at a master that defines the anchor is within 1/2 of the rounded source coordinate (offset within 1) and exact at the default master; source marks are GDEF marks; inferred GDEF classes make every attached mark a mark (mark glyphs are never bases or ligatures of a lookup; make_mark_to_liga_groups skips mark glyphs since the repair of finding gdef-attached-mark-is-not-a-gdef-mark, whose three-glyph source is kept as a corpus case). Tied to the code on every run through AnchorKind::new and by compiling generated sources and comparing the decoded GPOS / GDEF record by record with the model.',
    note='Trusted: Coq kernel + vm_compute; hand-written model and correspondence run; harness decoder over read-fonts accessors; IR files as model input. No axioms. Partial: anchor propagation and the abvm/blwm script split are exercised, not modelled; i16 overflow of coordinates is C19.',
)
