N = {"quick": (300, 40, 2), "thorough": (12000, 1500, 12)}
PROP = dict(
    id="C16",
    module="FV.C16.Props",
    coq_targets=["theories/C16/Props.vo"],
    theorems=["overlay_total", "overlay_sound", "first_match_is_active", "preflight_keeps_substitutions",
              "same_region_earlier_rule_wins", "order_irrelevant_when_compatible", "overlay_applies_source_rules", "font_applies_source_rules",
              "no_collision_without_full_range_conditions", "condition_set_box_is_conjunction",
              "touching_edges_refuted", "condset_collision_refuted", "later_rule_wins_refuted",
              "chained_rules_order_refuted"],
    prelude="Require Import FV.C16.Model.\nFrom Coq Require Import List NArith ZArith Bool.",
    shard=25,
    harness_args=lambda tier, seed: ["--seed", str(seed), "--n", str(N[tier][0]), "--e2e", str(N[tier][1]),
                                     "--big", str(N[tier][2])],
    rule="stage E (first): designspaces with <rules> (1-3 axes, 0..1024 or 0..1000 so that part of the edges fall "
         "between F2Dot14 grid points, default at the minimum, middle or maximum, 1-9 rules, 1-3 condition sets, "
         "open-ended / out-of-range / degenerate / inverted ranges, shared edge pools, repeated regions and "
         "substitution maps, now and then a rule without condition set or a range written as two conditions on one axis; a class in which 2-3 rules share one region - written identically, with the condition sets reordered, or with a redundant whole-axis condition - and replace one glyph differently, interleaved with other rules) "
         "compiled by fontc::generate_font, GSUB decoded with read-fonts; fixed designs for each situation of "
         "DESIGN.md 6.4; stage A: rule lists (1-12 rules, 1-3 axes, 1-3 boxes per rule; plus 63, 64 and 65-70 rules) "
         "given to the real overlay_feature_variations (same classes, including the same-region class). The property is evaluated on the implementation's output at "
         "every combination of: axis ends, 0, every box edge (when it is a grid point), one grid step inside and "
         "outside every edge, and cell centres (sampled above 800/1500 locations per case). A case is non-trivial "
         "when at least two rules fire together somewhere; distinct = distinct rule list.",
    trusted_base=["Coq 8.16.1 kernel (coqc, vm_compute for case evaluation)",
                  "hand-written model FV.C16.Model tied to fontir::feature_variations, "
                  "fontbe::features::feature_variations and the fea-rs variations map by the correspondence run "
                  "(exact equality of overlay output / of GSUB lookups and FeatureVariation records)",
                  "Rust harness /verif/harness (vh c16), read-fonts as GSUB decoder"],
    assumptions=["normalized coordinates are modelled as integers in 1/U units (the overlay only compares them); "
                 "f64 normalization of design coordinates is C08's subject and is not modelled here",
                 "IndexMap = insertion-ordered association list; HashSet/HashMap iteration orders that cannot reach "
                 "the output are not modelled",
                 "axis tags and glyph names are interned as numbers preserving their order",
                 "write-fonts serialisation of GSUB is exercised end to end, not modelled",
                 "theorems about the compiled table are for edges and locations on the F2Dot14 grid (U = 16384); "
                 "to_f2dot14 rounding of other edges is modelled and compared on every run but not covered by a theorem",
                 "the conversion of a source condition set into an NBox (ufo2fontir / fontbe provider) is exercised "
                 "end to end only; Glyphs bracket layers are not exercised"],
)

MANIFEST = dict(
    text="Coq model of the conditional-substitution pipeline: NBox insert/cleanup/overlay_onto branch by branch, multi-word Rank arithmetic, rule merging, the overlay loop with re-seeding and priority sort, condition-set conversion with F2Dot14 rounding, the ConditionSet-keyed record map, lookup ordering and an OpenType shaper (first matching record, lookups in index order). Theorems for any number of rules, axes and boxes: the overlay is total and sound, the first box containing a location lists exactly the firing rules in rule order, merging keeps substitutions, and - on the F2Dot14 grid, for compatible (non-conflicting, non-chaining) firing rules without condition-set collisions - the font applies exactly the source rules (font_applies_source_rules); machine-checked refutations for the four known-finding classes. Tied to the code on every run: the real overlay_feature_variations on generated rule lists (incl. 65-70 rules) and compiled designspaces whose GSUB FeatureVariations are decoded and evaluated at cell centres and one step inside/outside every edge.",
    note="Trusted: Coq kernel + vm_compute; hand-written model and its correspondence run (exact equality of boxes, records, lookup indices); read-fonts as independent reader; Rust harness. No axioms. Three defects repaired in /repo (fix: commits), four known findings listed.",
)
