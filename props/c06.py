N = {"quick": 1500, "thorough": 20000}
PROP = dict(
    id="C06",
    module="FV.C06.Props",
    coq_targets=["theories/C06/Props.vo"],
    theorems=["ufo_preliminary_order", "ufo_preliminary_order_hash_independent", "glyphs_preliminary_order",
              "final_order_exact", "final_order_exact_glyphs", "notdef_first_and_no_dups", "final_set_exact",
              "derived_fresh", "derivative_name_is_free", "nonexport_absent_from_glyph_set",
              "components_inside_glyph_set", "nonexport_absent_from_components",
              "build_total_refuted", "build_total_refuted_derived", "no_missing_job_outside_known",
              "cmap_exact", "cmap_exact_source", "cmap_conflict_is_error",
              "post_one_to_one", "post_identity_without_rename", "post_follows_rename_map"],
    prelude="Require Import FV.C06.Model.\nFrom Coq Require Import List NArith Bool.",
    harness_args=lambda tier, seed: ["--seed", str(seed), "--n", str(N[tier]), "--threads", "12"],
    shard=60,
    rule="generated UFO / two-master designspace sources: 1-12 glyphs from name pools chosen for string-order "
         "edge cases and derivative-name collisions; public.glyphOrder with duplicates, unknown names, "
         "missing/misplaced/undeclared .notdef; public.skipExportGlyphs (UFO lib, or designspace lib with a decoy "
         "in the UFO lib) with non-export glyphs used as nested components; 0-3 code points per glyph, shared "
         "code points between exported glyphs (conflict) and between exported and non-export glyphs (harmless); "
         "mixed contour+component glyphs with --prefer-simple-glyphs on/off; flatten / decompose; "
         "public.postscriptNames with duplicates, stripped-to-empty and colliding values, production names on/off. "
         "A case is non-trivial when the source has more than one glyph; distinct = distinct source+flags.",
    trusted_base=["Coq 8.16.1 kernel (coqc, vm_compute for case evaluation)",
                  "hand-written model FV.C06.Model tied to ufo2fontir glyph_order, fontir GlyphOrderWork::exec, "
                  "fontbe CmapWork/PostWork and fontc workload backend-job creation by the correspondence run",
                  "Rust harness /verif/harness (vh c06); read-fonts decoders for maxp/cmap/glyf/hmtx/GPOS, "
                  "hand-written post v2 decoder"],
    assumptions=["glyph names are Rust strings modelled as lists of code points; str order = code-point lexicographic",
                 "a glyph is abstracted to (name, export flag, code points, has-contours, component base names); "
                 "transforms, outlines, anchors and per-master differences in component lists are not modelled",
                 "write-fonts Cmap::from_mappings is modelled by its conflict rule and the mapping set; subtable "
                 "formats are checked on the decoded font only",
                 "HashMap/HashSet iteration orders are modelled as arbitrary lists (permutation-invariance proved "
                 "for the preliminary order)",
                 "component cycles are outside the model (resolve returns None); see C15"],
)

MANIFEST = dict(
    text='Coq model of the preliminary glyph order (UFO: declared-and-existing first, then sorted leftovers; Glyphs: file order), GlyphOrderWork (prune, flatten non-export components by depth, drop non-export, resolve inconsistencies with derived glyph names, .notdef to gid 0), cmap construction with the conflict rule, post names, and the rule that creates backend jobs. Theorems for every declared order, name set and flag combination: exact final order (.notdef, declared, undeclared sorted, derived), no duplicates, membership exactly exported+derived+.notdef, HashSet-order independence, derived names fresh (the unbounded naming loop terminates), non-export glyphs absent from glyph set and from every component list, cmap maps c to g iff g is exported and carries c with conflicts an error, post names one-to-one; machine-checked refutations of build totality for the two known-finding classes with the outside-known theorem. Tied to the code on every run by compiling generated UFO/designspace/Glyphs sources and comparing order, post, cmap and component lists of the decoded font with the model.',
    note='Trusted: Coq kernel + vm_compute; hand-written model (glyph = name, export flag, code points, has-contours, component names) and its correspondence run; read-fonts as independent reader; Rust harness. No axioms. Layout tables (GSUB/GPOS/GDEF) referencing non-export glyphs are only exercised for kerning.',
)
