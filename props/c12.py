N = {"quick": 60, "thorough": 1000}
PROP = dict(
    id="C12",
    module="FV.C12.Props",
    coq_targets=["theories/C12/Props.vo"],
    theorems=["affine_compose_apply", "affine_laws", "affine_det_multiplicative",
              "inline_preserves_resolve", "decompose_preserves_resolve", "decompose_no_spurious_contours",
              "decompose_loses_no_contour", "affine_key_equality",
              "decompose_multiset_refuted", "flatten_preserves_resolve", "flatten_across_locations_refuted", "split_preserves_resolve",
              "replacement_preserves_all_glyphs", "options_keep_every_glyph", "option_lattice",
              "stored_components_in_range", "decomposition_locations_transitive", "quantisation_bound", "quantisation_one_unit_per_level"],
    prelude="Require Import FV.C12.Model FV.C12.Locs.\nFrom Coq Require Import List NArith ZArith QArith Qcanon Bool.\n"
            "Close Scope Qc_scope.\nClose Scope Q_scope.",
    harness_args=lambda tier, seed: ["--seed", str(seed), "--n", str(N[tier]), "--threads", "16"],
    env={"RAYON_NUM_THREADS": "1"},
    shard=8,
    rule="generated UFO / 2-3 master designspace sources: 1-3 contour glyphs (lines, quadratic segments with one or "
         "two off-curve points, a minority with quarter/half-unit coordinates), an optional empty glyph, 1-6 composites "
         "up to nesting depth 6 with 1-3 components each, drawn from identity / dyadic scale / flip / 90-degree "
         "rotation / shear / decimal rotation and scale / exactly 2.0 and 1.99997 / out-of-range (2.5, 3, -2.25) 2x2 "
         "parts, integer, half- and quarter-unit offsets that vary between masters, repeated identical components, "
         "mixed contour+component glyphs, non-export glyphs at any level, 2x2 parts that differ between masters; plus 8 "
         "fixed sources (1.5*1.5 and rotation chains whose product leaves [-2,2], two parents reaching one base under "
         "one transform, repeated composite component, nested non-export flips, magnified half-unit offsets, depth-5 "
         "mixed chain, direct overflow). Every source is built under all 16 option subsets, and again with every glyph "
         "exported when it has non-export glyphs; every exported glyph is drawn with skrifa at every master location "
         "and compared with the harness's own resolution of the source. One model case per source and master location "
         "(all option subsets that built): IR glyph order, contours, components and advances against FV.C12.Model.process. "
         "About half of the variable sources give one or two contour-only glyphs an intermediate (brace) source; "
         "outlines and advances are compared at every location at which any glyph has a source. Reference at such a "
         "location L for glyph g: if g or a glyph it transitively refers to has a source at L, every glyph on the way "
         "is taken at L (own source, else linear interpolation of its own sources) and resolved; otherwise - no build "
         "can know L for g - the variation model's value, i.e. the linear interpolation of g's resolved outlines at the "
         "two neighbouring masters (equal to the former when all 2x2 parts are the same at all masters; a glyph whose "
         "2x2 differs between masters is stored as a simple glyph by every option subset, so only this is what is "
         "drawn). Outline tolerance: one unit per nesting level, beyond that the format bound (per level: row sum of "
         "the 2x2 times the error below + 1/2 for the rounded offset + F2Dot14 error times coordinate size; base points "
         "1/2 at the default location and 1 elsewhere because gvar IUP may drop deltas within 1/2; + 1 for the rounding "
         "of reference and rasteriser). Advances: exact at the default location; elsewhere the font gives default + "
         "sum of scalar*round(delta) with at most two active regions on one axis, so within 1 of an own source advance "
         "and within 2 of an interpolated one; across option subsets equal at the default location and within 1 "
         "elsewhere. Fixed sources also include the deep-intermediate-master chain and the composite-with-brace-layer "
         "source of the known finding flatten-drops-intermediate-master-of-nested-composite. "
         "Besides the per-location model cases there is one ':locations' case per source with an intermediate location "
         "and export mode: every IR glyph left without components has a source wherever FV.C12.Locs collects one. "
         "A case is non-trivial when the source has a composite; distinct = distinct (source, master).",
    trusted_base=["Coq 8.16.1 kernel (coqc, vm_compute for case evaluation)",
                  "hand-written model FV.C12.Model tied to fontir GlyphOrderWork::exec (IR read back through "
                  "Options.ir_dir) by the correspondence run",
                  "Rust harness /verif/harness (vh c12): source generator, its own recursive resolution of the "
                  "source (the reference the fonts are compared with), contour matching; skrifa as independent "
                  "glyf/gvar/HVAR reader"],
    assumptions=["f64 modelled by exact rationals (Qc); generated 2x2 parts are mostly dyadic so products are exact",
                 "one master location at a time: all masters list the same components (what glyph.rs panics on "
                 "otherwise); 'the 2x2 differs between masters' is a mark on the transform; interpolation of missing "
                 "instances (sparse glyphs) is C07's subject and is neither modelled nor generated",
                 "contour reversal (kurbo reverse_subpaths) and the start point are modelled up to rotation of the "
                 "point list; segment kinds are not modelled (an affine map keeps them)",
                 "glyph names: a source glyph literally named like a derived glyph ('a.0') is outside the model (C06)",
                 "component cycles: resolve returns None (C15)",
                 "cubic sources are not generated: cu2qu runs after decomposition on the transformed curve, so point "
                 "counts legitimately differ between option subsets"],
)

MANIFEST = dict(
    text="Coq model of GlyphOrderWork::exec for outlines (prune, non-export inlining in depth order, the mixed/overflow/"
         "inconsistent classification, the resolve_inconsistencies work list with its pending test, split_glyph with "
         "name_for_derivative, convert_components_to_contours with its queue and visited set, flatten_glyph, the three "
         "optional passes) over abstract points and transforms, instantiated with kurbo::Affine on exact rationals, and of "
         "the backend's component quantisation (integer offsets, F2Dot14). Theorems, for fonts of any size and nesting "
         "depth: each rewrite keeps the glyph's resolved contours up to contour order and orientation (flattening: "
         "identical list) and its advance; replacing a glyph by one that looks the same keeps the look of every glyph "
         "that uses it; the whole pass under every one of the 16 option subsets keeps every source glyph's resolved "
         "contours and advance and any two subsets agree, whenever the run reports that no contour was passed over; "
         "decomposition never invents a contour and never loses one (its visited set only drops repetitions); "
         "a machine-checked counterexample for the one way the multiset statement fails (visited-set merge of identical "
         "nested component instances); after the pass no glyph of the glyph order has a component with a 2x2 entry "
         "outside [-2,2] under any option subset (flattening re-tests composed transforms and decomposes: the repaired "
         "flatten overflow), so the backend's saturating F2Dot14 conversion is never reached out of range; explicit rounding "
         "bound per nesting level for stored composites against decomposed outlines, and 'one unit per level' for "
         "non-magnifying chains. Tied to the code on every run: sources built under all option subsets, outlines and "
         "advances compared with skrifa at every master against the resolved source, IR compared with the model.",
    note="Trusted: Coq kernel + vm_compute; hand-written model and its correspondence run; Rust harness incl. its "
         "reference resolver; skrifa. No axioms. Partial: that a run is loss-free is observed per run (model flag, "
         "cross-checked against the fonts), not proved from a static condition on the source; sparse glyphs, cubic "
         "outlines, anchors and the .glyphs front end are not covered; termination of the passes is not proved.",
)
