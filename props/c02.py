N = {"quick": 24, "thorough": 400}
CORPUS = {"quick": 60, "thorough": 1000}
import re


def c02_key(shows):
    """which kind of finding came with a confirmed schedule of the model"""
    text = " ".join(shows)
    if re.search(r"Panics \[[^\]]*\]\s*\(Some", text):
        return "scheduler-panic-reachable"
    if re.search(r"Stuck \[[^\]]*\] \[[^\]]*\] \[[^\]]*\]\s*\(Some", text):
        return "unable-to-proceed"
    return "unordered-conflicting-access"


PROP = dict(
    id="C02",
    module="FV.C02.Props",
    coq_targets=["theories/C02/Check.vo", "theories/C02/Search.vo", "theories/C02/Props.vo"],
    theorems=["task_graph_safe_in_all_schedules", "bookkeeping_exact", "launch_guarantees",
              "completion_delivery_never_panics", "never_unable_to_proceed",
              "no_scheduler_panic_in_any_schedule", "valid_source_never_fails"],
    prelude="From Coq Require Import List NArith Bool.\nFrom FV.Base Require Import Harness.\nFrom FV.C02 Require Import Model Check Search.",
    found_in_show=lambda shows: any("Launch" in x for x in shows),
    correspondence_key=lambda shows: c02_key(shows),
    harness_args=lambda tier, seed: ["--seed", str(seed), "--n", str(N[tier]), "--corpus", str(CORPUS[tier])],
    shard=6,
    show_limit=6,
    rule="every source under resources/testdata that compiles (UFO, designspace, Glyphs 2/3) plus generated sources "
         "(composites, mixed glyphs, non-export components, shuffled glyph order, missing .notdef, kerning at two "
         "masters, features skipped); one case = one compile with hooks on: the recorded job graph, event history and "
         "every pair of jobs touching a common context item. Non-trivial = graph has dynamically added jobs or > 60 ids; "
         "distinct = distinct source.",
    trusted_base=["Coq 8.16.1 kernel (coqc; vm_compute evaluates replay_ok, safe_graph, live_graph and calm_graph on each instance)",
                  "hand-written scheduler model FV.C02.Model; each run's job graph instance is regenerated from the "
                  "running code through the cfg(fontc_verif) hooks and its recorded history is replayed through the model",
                  "Rust harness /verif/harness (c02), hooks in fontc/src/workload.rs and fontdrasil/src/orchestration.rs"],
    assumptions=["rayon scheduling and crossbeam delivery abstracted to arbitrary interleaving of launch / worker-finish / "
                 "deliver events (a superset); atomics assumed sequentially consistent",
                 "the read/write sets of a job are those observed at the ACL assertions in the recorded run",
                 "completion handlers (update_be_glyph_work) read values on the scheduler thread; which view they saw "
                 "determines the recorded graph, the graph is what is checked"],
)

MANIFEST = dict(
    text="Coq model of the scheduler (pending map, per-discriminant counters, can_run/is_dep_fulfilled, launch, worker "
         "completion with counter decrement, completion-message delivery with handle_success actions: dynamically added "
         "jobs, access rewrites, complete-without-running) as a transition system whose nondeterminism is the schedule. "
         "Theorems, for every job graph and every event sequence: exact bookkeeping (pending = inserted minus complete, "
         "counters = open ids per discriminant), the semantics of a launch, and soundness of the decidable condition "
         "safe_graph: if it accepts a graph then in EVERY schedule each listed pair of jobs is ordered (the second never "
         "starts before the first's work finished), including jobs created while the build runs and the counter-vs-"
         "delivery asymmetry behind issues 647/655/1436; and soundness of the decidable condition live_graph: if it "
         "accepts a graph (certificate: a rank under which every dependency, creator and gate-opening handler of a job "
         "ranks below it) then in EVERY schedule, unless the build is finished, a job is running or launchable - "
         "Error::UnableToProceed is unreachable; and of calm_graph: if it accepts a graph then NO schedule reaches a "
         "panic state (completed-twice / not-pending, and the handlers' 'has to be pending' expects). Together "
         "(valid_source_never_fails) they give the property with no side condition on the run. On every run the job graph instance is regenerated from the "
         "running code (hooks), the recorded history is replayed through the model (every real launch must be enabled "
         "in the model), every pair of jobs touching a common context item (one writing) is extracted from the ACL log, "
         "and safe_graph, live_graph (rank certificate = a layering of the graph constraints computed by the harness) and calm_graph are evaluated on it in Coq; when one "
         "rejects the graph the model is searched for a schedule that starts a reader early / gets stuck / panics; overlapping conflicting accesses observed directly are reported with "
         "the source as replay.",
    note="Trusted: Coq kernel + vm_compute; hand-written scheduler model and its tie (hooks + replay); read/write sets are "
         "those observed in the recorded run; rayon/crossbeam abstracted to arbitrary interleaving, atomics SC. "
         "Proved for every schedule of a graph accepted by the decidable conditions: no panic state (complete_one panics and "
         "the handlers' 'has to be pending' expects), progress (UnableToProceed unreachable), ordering of every listed "
         "pair. Not modelled: panics inside a job's own work (front-end / back-end code run by the workers). No axioms.",
)
