N = {"quick": 600, "thorough": 12000}
PROP = dict(
    id="C07",
    module="FV.C07.Props",
    coq_targets=["theories/C07/Check.vo", "theories/C07/Props.vo"],
    theorems=["model_locations_are_the_masters", "tents_valid", "scalar_in_unit", "own_scalar_one",
              "later_has_no_influence", "deltas_reproduce_exact", "deltas_reproduce_rounded",
              "default_exact", "default_exact_integer", "result_independent_of_supply_order",
              "tents_stay_in_range"],
    prelude="From FV.C07 Require Import Model Check.\nFrom Coq Require Import List ZArith QArith Bool.",
    harness_args=lambda tier, seed: ["--seed", str(seed), "--n", str(N[tier])],
    shard=40,
    rule="master layouts on 1/4, 1/8, 1/16 and 1/16384 grids, 1-4 axes (on-axis, corners, diagonal with equal cut "
         "ratios, shared peaks, random), arbitrary supply order and axis order; sparse value subsets with "
         "half-unit values. Non-trivial = at least three masters; distinct = distinct (layout, grid).",
    trusted_base=["Coq 8.16.1 kernel (coqc, vm_compute for case evaluation)",
                  "hand-written model FV.C07.Model tied to fontdrasil::variations::VariationModel by the "
                  "correspondence run (sorted order, every tent, every delta weight, deltas, interpolation)",
                  "Rust harness /verif/harness (c07)"],
    assumptions=["f64 modelled by exact rationals; coordinates on dyadic grids so that every f64 operation on "
                 "coordinates is exact", "the extrapolating model variant is not modelled"],
)

MANIFEST = dict(
    text="Coq theorems, for every number of axes and every finite set of distinct master locations: the model of "
         "VariationModel::new keeps exactly the masters; every influence tent has min<=peak<=max, never spans zero and "
         "peaks at its master; region scalars are in [0,1]; in the model's order no later region reaches an earlier "
         "master (the fact the delta algorithm relies on) and a master's own scalar is 1; hence deltas reproduce every "
         "master exactly without rounding and within 1/2 with round-ties-even, for every sparse subset of masters with "
         "values, the default is returned exactly, and the whole model is invariant under permutation of the supplied masters. The model is tied to fontdrasil::variations on every run: "
         "sorted order, every tent, active-axis sets, every delta weight, deltas and interpolated values are compared "
         "on generated layouts; the property predicate is also evaluated directly on the implementation.",
    note="Trusted: Coq kernel + vm_compute; hand-written model (coordinates as integers scaled by a common denominator, "
         "scalars/values as exact rationals standing for f64) and its correspondence run; Rust harness. No axioms. "
         "Bounds of tents inside [-1,1] are checked on the implementation's output on every run, not proved.",
)
