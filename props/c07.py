N = {"quick": 600, "thorough": 12000}
PROP = dict(
    id="C07",
    module="FV.C07.Props",
    coq_targets=["theories/C07/Check.vo", "theories/C07/Props.vo"],
    theorems=["model_locations_are_the_masters", "tents_valid", "scalar_in_unit", "own_scalar_one",
              "later_has_no_influence", "deltas_reproduce_exact", "deltas_reproduce_rounded",
              "default_exact", "default_exact_integer"],
    prelude="From FV.C07 Require Import Model Check.\nFrom Coq Require Import List ZArith QArith Bool.",
    harness_args=lambda tier, seed: ["--seed", str(seed), "--n", str(N[tier])],
    shard=40,
    rule="master layouts on 1/4, 1/8, 1/16 and 1/16384 grids, 1-4 axes (on-axis, corners, diagonal with equal cut "
         "ratios, shared peaks, random), arbitrary supply order and axis order; sparse value subsets with "
         "half-unit values. Non-trivial = at least three masters; distinct = distinct (layout, grid).",
    trusted_base=["Coq 8.16.1 kernel (coqc, vm_compute for case evaluation)",
                  "hand-written model FV.C07.Model tied to fontdrasil::variations::VariationModel by the "
                  "correspondence run (sorted order, every tent, every delta weight, deltas, interpolation)",
                  "Rust harness /verif/harness (c07)"],
    assumptions=["f64 modelled by exact rationals; coordinates on dyadic grids so that every f64 operation on "
                 "coordinates is exact", "the extrapolating model variant is not modelled"],
)
