N = {"quick": 150, "thorough": 2500}
PROP = dict(
    id="C11",
    module="FV.C11.Props",
    coq_targets=["theories/C11/Props.vo", "theories/C11/Tie.vo"],
    theorems=["compile_repo_preserves_partial", "compile_prog_repo_preserves_partial",
              "compile_preserves_inline_any_ligature_build_partial", "compile_preserves_noinline_any_build_partial",
              "repo_inline_ligature_refuted_and_others_agree", "repo_later_rule_wins_refuted",
              "unrepaired_inline_single_refuted", "unrepaired_inline_multiple_refuted",
              "unrepaired_inline_ligature_refuted", "with_ligature_repair_witnesses_agree",
              "with_ligature_repair_inline_single_rule_lookup_sound",
              "with_ligature_repair_inline_multiple_rule_lookup_sound",
              "with_ligature_repair_inline_ligature_rule_lookup_sound",
              "wellformed_ligature_lookup_forms_rule_ligature",
              "single_lookup_first_match", "multiple_lookup_first_match", "alternate_lookup_first_match",
              "ligature_lookup_longest_first", "single_pos_first_match", "pair_pos_subtables",
              "pair_first_match_when_compatible", "class_pair_shadowing_example",
              "class_reference_resolves_to_latest_definition",
              "unrepaired_numeric_range_excludes_end_refuted", "repo_numeric_range_includes_end"],
    prelude="From FV.C11 Require Import Model Tie.\nFrom Coq Require Import List NArith ZArith Bool.",
    harness_args=lambda tier, seed: ["--seed", str(seed), "--n", str(N[tier])],
    shard=13,
    rule="a fixed corpus (the minimal inputs of every defect seen so far) followed by grammar-generated feature files of "
         "the subset (language systems, glyph classes and ranges, named and anonymous lookups, lookupflag incl. "
         "UseMarkFilteringSet and MarkAttachmentType with GDEF classes, script/language, single / multiple / alternate / ligature / chaining "
         "contextual substitution with inline and named nested lookups, single and pair positioning): small programs "
         "over a focus alphabet so that rules interact (chains across lookups, overlapping classes, ligatures sharing "
         "prefixes, promotion of single into multiple/ligature lookups, class pairs forcing subtable breaks, marks between "
         "components, nested lookups changing the length; runs of one rule type separated only by a lookupflag statement whose "
         "state differs only in the filtering set / attachment class, or not at all; every mark mentioned by a flag class is in "
         "the alphabet of the checked strings; in one program of three a named class is used by rules and lookupflag statements "
         "before and after it is redefined, from scratch or incrementally (`@c = [@c more];`)); low-rate streams of conflicting rules, invalid files and known "
         "crashers; plus a glyph-range stream. Each accepted file is compiled by fea_rs::Compiler, the real GSUB/GPOS/GDEF "
         "are decoded by a hand-written parser, and the property predicate (apply_ot on the real tables = interp_fea of the "
         "source) is evaluated on ALL glyph strings up to length 3-4 over the focus alphabet plus ~30 random longer ones, for "
         "every registered script/language and several feature selections. The Coq term of a case checks, on the same "
         "strings: compile_mini of the model behaves like the real tables, lists the same lookups per selection, has the same "
         "lookup-list shape; the predicate value computed in Coq equals the harness's; the harness's apply_ot/interp_fea agree "
         "with the model's on samples. Non-trivial = the program has a rule and shaping changes some checked string; "
         "distinct = distinct feature text.",
    trusted_base=["Coq 8.16.1 kernel (coqc, vm_compute for case evaluation and the _refuted witnesses)",
                  "hand-written model FV.C11 (Source.elab, Compile.compile_mini, OT.apply_ot, Interp.interp_fea) tied to "
                  "fea_rs::Compiler by the correspondence run (behavioural and lookup-list comparison on every generated file)",
                  "Rust harness /verif/harness (vh c11): generator, feature-text printer, hand-written GSUB/GPOS/GDEF decoder, "
                  "line-by-line twin of the Coq definitions (cross-checked against the Coq model on samples in every case)",
                  "apply_ot follows HarfBuzz's lookup application (apply_forward, match_input, apply_lookup, PairPos) as the "
                  "reference reading of the OpenType specification; it is not tied to a shaping engine by a run"],
    assumptions=["source semantics interp_fea is defined on the ELABORATED file: the grouping of rules into lookups, lookup "
                 "numbering and (feature, script, language) registration are the walk `elab`, shared by interp_fea and "
                 "compile_mini and tied to fea-rs by the correspondence run, not proved against a declarative reading of the spec",
                 "class kerning follows the specification's subtable behaviour (first subtable covering the first glyph decides); "
                 "literal first-match is proved when the class pairs fit one subtable",
                 "ligature rules: the rule with most components wins, ties to the earlier (the spec leaves ordering to the compiler)",
                 "headline theorem compile_repo_preserves_partial is about compile_repo = the build in /repo (inline single and "
                 "multiple repairs applied, inline ligature repair not): it covers every elaborated file whose inline contextual "
                 "rules are inline single / multiple substitutions; inline LIGATURE rules are excluded by hypothesis (for them the "
                 "statement is refuted for compile_repo: known finding contextual-inline-ligature-shared-lookup); theorems named "
                 "with_ligature_repair_* hold only if that repair is applied, unrepaired_* are about the compiler before the repairs",
                 "hypothesis full_ok (inline target = first input class with one replacement per glyph, no self-contradicting inline "
                 "rule, contextual rules name earlier lookups only) holds of what elab produces from accepted files; this is not "
                 "proved about elab",
                 "the model is parametrised by eight flags (numeric range end, by-NULL promotion, empty named lookup in a "
                 "contextual rule, lookup reference closes the running lookup, named block mixing multiple and ligature rules is "
                 "rejected, three inline-rule repairs) which the harness probes on fixed inputs on every run and prints "
                 "into every term, so the same check runs on the repaired and on the unrepaired tree and reports the same keys",
                 "script/language fallback of shapers (DFLT, default LangSys for unknown languages), required features, "
                 "HarfBuzz's 64-level nesting and context-length limits, RightToLeft, overlapping MarkAttachmentType classes (GDEF gives a "
                 "mark one class; the generator uses disjoint ones), subtable breaks, "
                 "second value records of pairs, device/variation tables, GPOS contextual and mark attachment are outside the model",
                 "write-fonts serialisation (offset packing, extension promotion, coverage/classdef formats) is covered only by "
                 "decoding the real bytes on the explored inputs"],
)

MANIFEST = dict(
    text='Small verified compiler in Coq: feature-file subset AST, the fea-rs walk that groups rules into lookups (elab), source semantics interp_fea, abstract OpenType tables with the lookup application algorithm apply_ot, compile_mini mirroring fea-rs/write-fonts builders. Proved for the compiler in /repo (compile_repo) for all programs whose inline contextual rules are inline single / multiple substitutions, all glyph strings, flags, GDEF classes and selections: apply_ot (compile_repo e) = interp_fea e (single, multiple, alternate, ligature substitution; chaining contextual substitution with named nested lookups at any nesting and inline single/multiple rules sharing anonymous lookups, ignore rules; single and pair positioning), with per-kind refinement theorems (first matching rule vs per-glyph maps, longest-first ligatures, specific pairs before class subtables). Machine-checked witnesses (replayed on the real compiler on every run): later-rule-wins on conflicting rules refutes the statement without the consistency hypothesis; inline ligature rules refute it for /repo (known finding); the compiler before the repairs is refuted on three inline witnesses and on numeric ranges; theorems about the build with the inline-ligature repair are labelled conditional. Tie: generated programs compiled by the real fea_rs::Compiler, real GSUB/GPOS/GDEF decoded and compared behaviourally with the model and the source semantics on all strings up to length 3-4 plus random longer ones.',
    note='Trusted: Coq kernel + vm_compute; hand-written model and its correspondence run; Rust harness (decoder, twin cross-checked in Coq per case). No axioms (Print Assumptions: closed under the global context). Inline ligature rules (known finding), elaboration vs. a declarative spec reading, shaper-side fallbacks are not proved.',
)
