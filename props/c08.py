N = {
    # axes through the to_segment_map hook, designspace fonts, .glyphs fonts
    "quick": (1500, 150, 60),
    "thorough": (20000, 2000, 600),
}
PROP = dict(
    id="C08",
    module="FV.C08.Props",
    coq_targets=["theories/C08/Props.vo"],
    theorems=[
        "lerp_assertion_never_fires",
        "default_normalization_is_opentype",
        "source_normalization_is_design_normalization",
        "avar_agrees_ideal",
        "avar_agrees_quantised_at_rows",
        "avar_agrees_quantised_everywhere",
        "rounded_table_brackets_exact_table",
        "segment_map_wf",
        "segment_map_quantised_wf",
        "segment_map_wf_refuted_flat_end",
        "segment_map_wf_refuted_rows_outside_bounds",
        "fvar_bounds_ordered",
        "fvar_bounds_are_source_bounds",
        "named_instance_in_axis_range",
        "omitted_axis_coordinate_is_fvar_default",
        "named_instance_record_in_range",
        "map_reverse_roundtrip",
        "avar_agrees_refuted_nonmonotone",
    ],
    prelude="Require Import FV.C08.Model.\nFrom Coq Require Import List ZArith QArith Bool.\nOpen Scope Q_scope.",
    shard=100,
    harness_args=lambda tier, seed: ["--seed", str(seed), "--n", str(N[tier][0]), "--fonts", str(N[tier][1]),
                                     "--glyphs", str(N[tier][2])],
    rule="axis definitions with 1..12 mapping rows; user values on seven scales (wght-like, wdth-like halves, "
         "0..1 eighths, negative slnt-like, one-decimal, opsz-like decimals, rows 0.001 apart), all f32-exact; "
         "design values identity / linear / general with flat runs and non-integer steps; default at first, last "
         "or inner row; source order shuffled; adversarial classes: design flat from the default to an end of the "
         "axis, rows beyond the axis bounds, non-monotone (stats only), no map at all. Stream B compiles "
         "designspace+UFO sources (1-3 axes, 0-4 named instances, a third of them with a <location> that leaves out one or more axes) and stream C .glyphs sources (Axis Mappings) "
         "through fontc::generate_font and reads fvar/avar back with read-fonts and skrifa's normaliser; a "
         "fixed corpus of six boundary sources runs first. Stream A drives fontbe::avar::to_segment_map (hook) "
         "and the converter directly. Per axis the predicate is evaluated at every row, segment midpoints, "
         "thirds, 15/16 points and at +-1e-9/1e-4/1e-2 of the range around every row. A case is non-trivial "
         "when its avar map is not the identity; distinct = distinct axis definition(s).",
    trusted_base=["Coq 8.16.1 kernel (coqc, vm_compute for case evaluation and the three refutation witnesses)",
                  "hand-written model FV.C08.Model tied to fontdrasil::{coords,piecewise_linear_map}, "
                  "fontbe::avar::to_segment_map, fontbe::fvar and font-types from_f64 by the correspondence run",
                  "Rust harness /verif/harness (vh c08), read-fonts and skrifa as independent readers"],
    assumptions=["f64 modelled by exact rationals (near-tie roundings accepted either way within 2^-30)",
                 "OpenType default normalisation and avar evaluation written from the specification, in exact "
                 "arithmetic (the 16.16/2.14 arithmetic of a rasteriser is exercised through skrifa, not modelled)",
                 "the quantised-agreement theorems take fvar's min/default/max as exact; the effect of their "
                 "16.16 rounding on the default-normalised coordinate is bounded separately (theorem "
                 "fvar_bounds_are_source_bounds) and exercised end to end by the correspondence run"],
)

MANIFEST = dict(
    text="Coq model of PiecewiseLinearMap, CoordConverter (user/design/normalized), default normalisation, avar segment-map construction with F2Dot14/Fixed quantisation and the OpenType avar evaluation written from the specification. Theorems for every monotone mapping (any number of rows, flat segments, default at any row) and EVERY user coordinate in range: normalising with fvar then avar equals the source's user->design mapping followed by design normalisation exactly in rationals, and within an explicit bracket after quantisation; segment maps contain -1:-1, 0:0, 1:1 and are monotone (with machine-checked refutations for the two degenerate classes recorded as known findings); fvar bounds are the source bounds; instances lie in range; map/reverse round trip. Tied to the code on every run: converter and to_segment_map (hook) on generated axes, and whole fonts (designspace and .glyphs) decoded with read-fonts/skrifa and evaluated at rows, midpoints and +-epsilon around every row.",
    note='Trusted: Coq kernel + vm_compute; hand-written model with f64 as exact rationals and its correspondence run; read-fonts/skrifa as independent readers; Rust harness. No axioms. Two known findings (degenerate mappings) are listed in known_findings.txt.',
)
