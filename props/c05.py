# (generated sources, stride over the test data, glyphs in the big font, mutants, max words, max table items,
#  share of the test-data fonts that also get Coq terms: 1/k, chosen by the seed; the predicate runs on all)
N = {"quick": (160, 1, 1200, 80, 12000, 30000, 2), "thorough": (1500, 1, 4000, 800, 40000, 120000, 1)}
PROP = dict(
    id="C05",
    module="FV.C05.Props",
    coq_targets=["theories/C05/Props.vo"],
    theorems=["check_sfnt_sound", "build_wf", "fontbuilder_wf", "acyclic_checker_sound", "flat_totals_unique",
              "check_abs_sound", "check_font_sound", "same_order_same_length", "component_refs_in_range",
              "missing_component_is_error", "post_names_fit", "long_name_is_error", "exec_keeps_every_table",
              "serialisation_failure_is_reported", "exec_ok_is_wf", "silent_drop_unrepaired",
              "variation_regions_well_formed"],
    prelude="Require Import FV.C05.Model.\nFrom Coq Require Import List NArith Bool.\nOpen Scope N_scope.",
    harness_args=lambda tier, seed: ["--seed", str(seed), "--n", str(N[tier][0]), "--tstride", str(N[tier][1]),
                                     "--big", str(N[tier][2]), "--mutants", str(N[tier][3]),
                                     "--maxwords", str(N[tier][4]), "--maxabs", str(N[tier][5]), "--tcoq", str(N[tier][6])],
    shard=40,
    rule="streams from one PRNG: (T) every compilable source under /repo/resources/testdata (UFO, designspace, "
         "Glyphs 2/3, packages); (L) fixed limit cases: no glyphs, only .notdef, one (empty) glyph, all-empty, "
         "composites of empty glyphs, component chains 1..120 deep, DAGs that use every level twice (up to the "
         "65536-point error), references against glyph order, a 300-component glyph, 400 and 1200 (thorough 4000) "
         "glyphs; (G) generated sources over the table mixes - static / 1-2 axes with 2-5 masters, kerning with "
         "groups, mark anchors, liga / ss01 with names / cv01 parameters / calt with nested lookups / locl / aalt / "
         "mark filtering sets, FEA GDEF / name tables, vertical metrics, gasp, meta, avar maps, MVAR, named "
         "instances with PostScript names, designspace rules - and 6 option sets (flatten / decompose / transformed "
         "/ production names off / keep direction); (P) probes for serialisation failures (name storage beyond "
         "64 KiB, GDEF ligature carets beyond 64 KiB, glyph names of 255 / 300 bytes); (N) post names through every path that changes a name after the source: "
         "fixed probes (public.postscriptNames mapping two glyphs to one 253/254/255-byte name, names equal only "
         "after illegal characters are stripped, a literal X.1 beside 1..9 duplicates of a 253-byte X, production "
         "names off, no map, a 258-byte name that fits once cleaned) and generated mixes of these; the emitted post "
         "is judged by the predicate and its names (or the length error) are compared with the model's "
         "final_names / post_names; (M) mutants of emitted "
         "fonts (container: byte flip, swapped records, adjustment, padding, offsets, search range, renamed tag, "
         "truncation; tables: dangling / cyclic components, lowered maxp limits, counts, missing name id, indices "
         "out of range) which both the predicate and the Coq checker must reject. Per emitted font: the Rust "
         "predicate (hand-written directory reader; tables through read-fonts incl. a generic walk that resolves "
         "every offset), the Coq checkers on the same words / decoded tables, and the Coq model of FontBuilder "
         "rebuilding the file from its own tables word for word. Non-trivial = more than one glyph; distinct = "
         "distinct case label.",
    trusted_base=["Coq 8.16.1 kernel (coqc, vm_compute for case evaluation)",
                  "hand-written model FV.C05.Model (FontBuilder::build, FontWork::exec) tied to the code by rebuilding "
                  "every emitted file from its own tables in the model and comparing all words",
                  "the decoders that turn a font into the checker's input: vh::sfnt (hand-written directory reader), "
                  "hand-written readers for post strings, ItemVariationStore, DeltaSetIndexMap, MVAR, GPOS value-record "
                  "devices; read-fonts / skrifa for everything else (independent of write-fonts' writer path)",
                  "Rust harness /verif/harness (vh c05)"],
    assumptions=["a file is modelled as its big-endian 32-bit words (every emitted file has a length divisible by 4; "
                 "the predicate rejects any other length)",
                 "write-fonts table serialisation is not modelled: tables are opaque word lists for the builder model, "
                 "and their contents are covered only on the explored fonts through the decoded-font checker",
                 "bytes_for's outcome per table (serialised or not) is an input of the exec model; without a hook it is "
                 "observed only end to end: the probes that cannot be serialised must end in an error, and a font "
                 "that lacks a table its source defines is reported (key table-dropped-when-serialisation-fails)",
                 "read-fonts is the independent reader for 'fully parseable'; its generic traversal mis-resolves device "
                 "offsets of value records nested in records, those are read by hand",
                 "f64 and the variation model are as in C07 (regions / delta sets theorem builds on FV.C07)"],
)

MANIFEST = dict(
    text="Coq theorems over a model of write-fonts' FontBuilder::build (table directory, padding, checksums, "
         "checkSumAdjustment) and fontbe's FontWork::exec: for every list of tables with distinct tags the built file is a "
         "well-formed sfnt (sorted directory, exact tiling, alignment, zero padding, checksums, adjustment identity); a table "
         "that exists but cannot be serialised is an error, never a silently dropped table (after the repair); glyf, hmtx, "
         "post, gvar and HVAR are maps over one final glyph order, component gids are positions in it, a missing component "
         "or a glyph name that does not fit a post string is an error; variation regions are well formed (on the C07 model). "
         "Three checkers are proved sound: check_sfnt (container), graph_okb (component graph acyclic, depth and maxp "
         "totals within limits, any sharing / cycles / dangling references as input) and check_abs (cross-table agreement: "
         "glyph counts, glyph / lookup / feature / name / axis / region / delta-set indices in range). On every run every "
         "compilable test-data source, fixed limit cases and generated sources are compiled, a hand-written Rust predicate "
         "and the Coq checkers judge each emitted font (and must agree), the FontBuilder model rebuilds every file from its "
         "own tables word for word, and mutants of emitted fonts must be rejected by both. Partial: table serialisation "
         "inside write-fonts is not modelled; table contents are covered on the explored fonts only.",
    note="Trusted: Coq kernel + vm_compute; hand-written model and its correspondence run (rebuild of every emitted file); "
         "the decoders (hand-written directory / post / variation-store readers, read-fonts for the rest); Rust harness. "
         "No axioms (Print Assumptions: closed under the global context).",
)
