N = {"quick": 1200, "thorough": 20000}
EMIT = {"quick": 24, "thorough": 600}
PROP = dict(
    id="C14",
    module="FV.C14.Props",
    coq_targets=["theories/C14/Props.vo"],
    theorems=["filename_injective", "filename_injective_ignoring_case", "filename_no_reserved", "filename_digits_in_table",
              "persist_transparent", "kern_file_injective"],
    prelude="Require Import FV.C14.Model.\nFrom Coq Require Import List NArith ZArith QArith Bool.",
    harness_args=lambda tier, seed: ["--seed", str(seed), "--n", str(N[tier]), "--emit", str(EMIT[tier])],
    rule="names drawn from adversarial classes (device names, case pairs, reserved characters, multi-byte "
         "characters, escape look-alikes, glyph-like) plus every single-letter case flip; kerning location "
         "pairs (half of them closer than 0.012). A case is non-trivial when the name is non-empty / the two "
         "locations differ; distinct = distinct input. Emit stream: eleven test-data sources and generated UFO / "
         "designspace sources (glyph names differing only by case, device names, non-ASCII names, anchors, kerning with "
         "groups, masters 0.001 apart) are each built without and with an IR directory through the real compiler; the two "
         "fonts must be byte-identical, and every item of the finished front-end and back-end contexts (static metadata, "
         "glyph order, metrics, features, kerning, every glyph / anchor / kerning instance, every table, every glyph and "
         "gvar fragment) must equal what a fresh context restores from the directory (write-fonts tables: same "
         "serialised bytes); one file per glyph, named by string_to_filename.",
    trusted_base=["Coq 8.16.1 kernel (coqc, vm_compute for case evaluation)",
                  "hand-written model FV.C14.Model tied to fontdrasil::paths::string_to_filename and "
                  "fontir::paths::Paths::target_file by the correspondence run; emit-ir transparency and read-back equality "
                  "are evaluated on the real compiler (hook fontc::verif_hooks::generate_font_with_contexts)",
                  "Rust harness /verif/harness (vh c14)"],
    assumptions=["Rust char = Unicode scalar value modelled as N; UTF-8 length by code-point range",
                 "file system and serde round trips are not modelled (rd is an arbitrary function in persist_transparent); they are "
                 "exercised by the emit stream on the explored sources",
                 "write-fonts tables are compared by their serialised bytes (a table has several in-memory representations); "
                 "the post table is compared only when all glyph names are ASCII (other names are not valid post names)",
                 "case-insensitive file systems are modelled as ASCII case folding only"],
)

MANIFEST = dict(
    text='Coq theorems over the model of the file-name encoding (injectivity for all Unicode strings, no reserved characters, table index in range), of the kerning-instance file key, and of the persistent context map (persistence is invisible for every operation sequence, any stale disk content and any file-name collisions); the model is tied to the code on every run by evaluating it (vm_compute) on the same generated names/locations as the implementation. Partial: serde round trips and the file system are not modelled; byte-identity of fonts with/without --emit-ir is exercised end to end, not proved.',
    note='Trusted: Coq kernel + vm_compute; hand-written model and its correspondence run; Rust harness. Partial: byte-identical output with --emit-ir and read-back equality of every persisted item are evaluated on explored sources only (the serde / write-fonts round trips are not modelled). No axioms (Print Assumptions: closed under the global context).',
)
