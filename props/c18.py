N = {"quick": (200, 60), "thorough": (3000, 800)}
PROP = dict(
    id="C18",
    module="FV.C18.Props",
    coq_targets=["theories/C18/Props.vo"],
    theorems=["used_ids_exist", "instance_ids_allowed", "source_records_kept", "final_records_nonempty",
              "registered_strings_are_source", "names_depend_only_on_source",
              "fea_ids_say_source", "fea_empty_group_refuted", "fea_names_survive_merge",
              "every_feature_record_follows_its_names", "static_font_refs_intact", "fallback_chain_table", "source_to_fvar_ids_exist"],
    prelude="Require Import FV.C18.Model.\nFrom Coq Require Import List NArith ZArith Bool.\nOpen Scope N_scope.",
    harness_args=lambda tier, seed: ["--seed", str(seed), "--n", str(N[tier][0]), "--fonts", str(N[tier][1])],
    shard=40,
    rule="three streams from one PRNG: (A) fontir NameBuilder (public API) on generated add sequences: supplied / "
         "missing legacy and typographic names, RIBBI and non-RIBBI styles in mixed case, blank strings, CR/LF, "
         "whitespace runs, non-ASCII and astral strings, PostScript-forbidden characters, version strings with and "
         "without the 'Version ' prefix, negative / huge version numbers, repeated ids; (B) StaticMetadata::new "
         "(public API) on generated name maps whose strings collide with axis labels and instance names, 0-3 axes "
         "(point axes included), 0-5 instances (default location or not, PostScript names or not), source ids above "
         "255 with distinct strings, and 2-4 source records above 255 sharing one string (the largest id among them; the "
         "string also used as axis label / instance name); every source goes through 3 calls on fresh HashMaps, 16 when "
         "it supplies ids above 255, different results are a violation with the source as replay, and each distinct "
         "result is compared with the model under the iteration order that call saw; (C) whole fonts compiled "
         "in-process from generated designspace+UFO sources (fontinfo naming fields, styleMap names, "
         "openTypeNameRecords, axis label names, instances whose names equal family / style / label strings, FEA "
         "featureNames / cvParameters / size / STAT / name table with Windows, Mac and other-language names; name-bearing ssXX / cvXX features with script-specific rules or in both GSUB and GPOS, so that one tag has several feature records, every one of which is checked) decoded "
         "with read-fonts; 14 fixed scenarios first (one per failure class found so far, repaired or known; the former "
         "hash-order ones are built 10 times), sources whose records above 255 share a string are built 8 times (the fixed scenario 16 times), other sources with ids above 255 4 times, sources with coinciding strings 3 times, every fourth other source twice. Non-trivial = "
         "non-empty add list / has a variable axis / a compiled font; distinct = distinct input.",
    trusted_base=["Coq 8.16.1 kernel (coqc, vm_compute for case evaluation and the refutation witnesses)",
                  "hand-written model FV.C18.Model tied to fontir::ir::NameBuilder, StaticMetadata::new, fontbe "
                  "fvar.rs / stat.rs / name.rs / features.rs and fea-rs name-id allocation and remap_name_ids by the "
                  "correspondence run (unit level for the first two, whole fonts for the rest)",
                  "Rust harness /verif/harness (vh c18): source writers (vh::srcgen plus a local patch that inserts "
                  "<labelname> elements), the translation of fontinfo fields to NameBuilder adds (mirrors ufo2fontir "
                  "names()) and of the FEA text to the model's allocation program",
                  "read-fonts decoders for name, fvar, STAT, GSUB/GPOS feature parameters (it reports postScriptNameID "
                  "0xFFFF as None)"],
    assumptions=["Rust String = list of Unicode scalar values (N); NameKey = (name id, encoding id): platform 3 and "
                 "language 0x409 are constants of NameKey::new",
                 "HashMap iteration order = list order; theorems quantify over every permutation of both maps that "
                 "are iterated (the source name map and reusable_names)",
                 "str::to_lowercase in is_ribbi modelled by ASCII lower-casing (exact for the four RIBBI words: the "
                 "only non-ASCII scalar lower-casing to ASCII is U+212A -> k)",
                 "name ids are unbounded naturals in the registration model (u16 overflow after 65279 registrations "
                 "is not modelled); remap saturation at 32767 / 65535 is modelled",
                 "instance and axis coordinates are integers given for every axis (UserLocation equality = list "
                 "equality); axis labels: the `en` label, else the fonttools legacy-name table, computed by the harness",
                 "FEA strings without backslash escapes; Mac strings ASCII; STAT format-4 axis values not generated",
                 "the compiler version stamped into name id 5 is a parameter of the model (fontc::version())",
                 "write-fonts serialisation of name / fvar / STAT / feature parameters is not modelled; covered on the "
                 "explored fonts by decoding with read-fonts"],
)

MANIFEST = dict(
    text='Coq theorems over a model of NameBuilder (fallback chain = decision table, for every add sequence naming each id once), StaticMetadata::new name registration, fvar/STAT id selection (every id used exists, is >= 256 where required and carries the source string, for every HashMap iteration order), fea-rs id allocation, remap_name_ids and the name merge; after five repairs in fontc (order-free default-instance test, only 2/17 among reserved instance ids, registration starts above the largest source id, elided fallback id and size name entry go through adjust_id) the statements hold without side conditions, for every iteration order of both HashMaps; one refutation theorem remains (an all-empty FEA name group shares its id: known finding), and the harness reports every repaired class again under its key should it return. Tied to the code on every run at unit level (NameBuilder, StaticMetadata::new) and on whole fonts.',
    note='Trusted: Coq kernel + vm_compute; hand-written model and its correspondence run; Rust harness and read-fonts decoders. No axioms (Print Assumptions: closed under the global context).',
)
