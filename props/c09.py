N = {"quick": (240, 120), "thorough": (6000, 3000)}
PROP = dict(
    id="C09",
    module="FV.C09.Props",
    coq_targets=["theories/C09/Props.vo"],
    theorems=["lookup_is_ufo_cascade", "group_resolution_unambiguous", "cascade_preserved",
              "every_covering_rule_agrees", "uncovered_pairs_are_unkerned", "collisions_benign",
              "refined_classes_of_a_group_partition", "refined_classes_partition_refuted",
              "pairpos_preserved_when_classes_partition", "pairpos_preserved_when_groups_agree",
              "pairpos_preserved_refuted", "kern_in_font_at_every_master", "kern_in_font_at_default_exact"],
    prelude="Require Import FV.C09.Model.\nFrom Coq Require Import List NArith ZArith QArith Bool.",
    harness_args=lambda tier, seed: ["--seed", str(seed), "--n", str(N[tier][0]), "--e2e", str(N[tier][1])],
    shard=100,
    rule="four streams from one PRNG: (corpus) two fixed designspaces compiled end to end (fontc's divergent-groups "
         "fixture; the minimal left-over-group source); (lookup) lookup_kerning_value through the cfg hook on random "
         "masters and pairs of all four kinds, also with a glyph listed in two groups; (build) "
         "build_variable_kern_adjustments through the cfg hook on 1-4 masters over 3-7 glyphs whose groups are moved, "
         "dropped, renamed, master-only or never kerned, pairs drawn from a shared pool so masters define overlapping "
         "key sets, values with zeros, .5 ties, non-dyadic decimals; every 9th case a left-over-group family, every 9th "
         "an invalid-UFO family; the property predicate (most specific emitted rule first == UFO lookup on each "
         "master, every ordered glyph pair) is evaluated on the implementation's output; (e2e) designspaces with 1-4 "
         "masters on 1-2 axes (corner, on-axis and intermediate masters, kernless default / kernless extra masters) "
         "compiled in process, GPOS kern evaluated by an independent PairPos format 1/2 + ItemVariationStore "
         "evaluator for every ordered glyph pair at every kerning master, scripts DFLT and latn, against the UFO "
         "lookup on that master's own kerning/groups, rounded (exact at the default master, within 1/2 elsewhere). "
         "Non-trivial = some master kerns some pair; distinct = distinct input.",
    trusted_base=["Coq 8.16.1 kernel (coqc, vm_compute for case evaluation and the two refutation witnesses)",
                  "hand-written model FV.C09.Model tied to fontbe::features::kern (hooks) and to whole compiled "
                  "fonts by the correspondence run; FV.C07 model of the variation model",
                  "cfg(fontc_verif) hooks fontbe::features::kern::verif_hooks (thin wrappers)",
                  "Rust harness /verif/harness (vh c09): its own UFO lookup, its own GPOS PairPos / variation "
                  "store evaluator over read-fonts table accessors"],
    assumptions=["f64 kerning values modelled by Q (values are only copied and compared with 0 before rounding)",
                 "HashMap/HashSet iteration order = arbitrary list order; collisions_benign / every_covering_rule_agrees "
                 "show it cannot reach the result",
                 "output class names are not modelled (classes are identified with their member sets)",
                 "the sort of pairs before the lookup builder is modelled as kind order (Glyph < Group) for glyph pairs "
                 "and as IntSet's element-wise order for class pairs",
                 "script / direction / mark splitting of kern lookups (split by Unicode script, bidi, GDEF marks) is "
                 "not modelled: end-to-end cases use encoded Latin base glyphs only, where there is one lookup",
                 "write-fonts serialisation (coverage, class definitions, value formats, variation store packing) is "
                 "not modelled; observed through the independent evaluator on the explored fonts"],
)

MANIFEST = dict(
    text='Coq model of the kerning pipeline (per-master UFO cascade lookup_kerning_value; reconciliation of groups that differ between masters: divergence, kerned signatures, refined classes, per-source resolution, glyph-to-class expansion, zero class pairs; KernPair::add_to + PairPosBuilder subtable splitting; OpenType PairPos reading) with theorems for every list of masters, every ordered glyph pair and every master: the reconciled pair list read most-specific-rule-first gives exactly the UFO lookup value on that master\'s own kerning and groups (no hypothesis; every equally specific rule agrees, colliding inserts are equal); through the PairPos builder the same holds whenever the emitted classes partition (in particular when masters group identically), and is REFUTED otherwise by a valid two-master source (overlapping refined classes are split over two format 2 subtables, the first shadows the second); with C07, the interpolated value at every kerning master is within 1/2 of the rounded source value and exact at the default. Tied to the code on every run through hooks and by evaluating GPOS kern of compiled designspaces for every ordered pair at every kerning master with an independent evaluator.',
    note='Trusted: Coq kernel + vm_compute; hand-written model and correspondence run; harness GPOS evaluator over read-fonts accessors. No axioms. Not modelled: script/bidi/mark splitting of kern lookups, write-fonts serialisation, Glyphs-source kerning (groups are per glyph there, so masters always agree).',
)
