N = {"quick": (160, 40), "thorough": (5000, 1000)}
PROP = dict(
    id="C17",
    module="FV.C17.Props",
    coq_targets=["theories/C17/Props.vo"],
    theorems=["hmtx_reconstructs", "num_long_minimal", "hhea_extrema_exact", "clamp_i16_exact_in_range",
              "composite_limits_eq_recursive", "has_limits_unique", "composite_limits_overflow_reported",
              "maxp_simple_maxima", "head_bbox_is_union", "composite_bbox_covers",
              "composite_bbox_strict_refuted", "loca_short_roundtrips", "loca_long_needed",
              "xavg_counts_all_glyphs", "xavg_exact_is_rounded_mean", "xavg_f64_is_rounded_mean", "xavg_exact_for_precise_rounding",
              "first_last_char_index", "unicode_range_bits_correct", "codepage_bits_set_only",
              "max_context_is_max", "check_font_sound"],
    prelude="Require Import FV.C17.Model.\nFrom Coq Require Import List NArith ZArith QArith Bool.",
    harness_args=lambda tier, seed: ["--seed", str(seed), "--n", str(N[tier][0]), "--fonts", str(N[tier][1])],
    shard=40,
    rule="three streams from one PRNG: (A) MetricsBuilder through the cfg hook on (advance, side bearing, bounds) "
         "lists (monospace, trailing equal runs, all-zero advances, u16/i16 boundary values, empty glyphs, boxes "
         "wide enough to clamp); (B) MaxBuilder + update_composite_limits through the cfg hook on random acyclic "
         "glyph tables (glyph ids unrelated to nesting order, repeated components, chains, empties, totals around "
         "65535); (C) whole fonts compiled in-process from generated UFOs (empty / simple / composite / nested / "
         "scaled / flipped components, negative bearings, zero advances, trailing runs, supplementary-plane and "
         "code-page trigger code points, liga/calt/kern/rsub features, vertical metrics) decoded by a hand-written "
         "glyf/hmtx/hhea/maxp/head/OS2 reader and every summary field recomputed; plus three fixed fonts (a composite "
         "of 70000 points, which must be rejected with a diagnostic; a mean advance just below a rounding tie; glyf over 128 KiB). Non-trivial = non-empty input / has a "
         "composite / has an outline; distinct = distinct input.",
    trusted_base=["Coq 8.16.1 kernel (coqc, vm_compute for case evaluation and for the table-sortedness lemma)",
                  "hand-written model FV.C17.Model tied to fontbe::metrics_and_limits (hooks), glyphs.rs "
                  "bbox_of_composite, os2.rs and max_context.rs (whole fonts) by the correspondence run",
                  "cfg(fontc_verif) hooks fontbe::metrics_and_limits::verif_hooks (build RawGlyphs from plain data)",
                  "Rust harness /verif/harness (vh c17): its own glyf/hmtx/hhea/maxp/head/OS2 decoder; read-fonts "
                  "for cmap, GSUB, GPOS",
                  "the Unicode-range table in the model is compared with the one parsed from os2.rs on every run"],
    assumptions=["f64 modelled by Q (composite boxes) and by rounding Q to 53 significant bits where rounding matters (xAvgCharWidth: fp_round 53, ties to even; subnormals, infinities and exponent range are not modelled — irrelevant below 2^33)",
                 "HashMap/HashSet iteration order = an arbitrary list order (theorems quantify over it)",
                 "i32 intermediate arithmetic of MetricsBuilder modelled in Z (no overflow for |bounds| <= 65535)",
                 "simple glyphs have fewer than 65536 points and contours (glyf format limit)",
                 "write-fonts serialisation (glyf, loca, hmtx bytes) is not modelled; covered on the explored fonts "
                 "by decoding with an independent reader",
                 "slice::binary_search_by modelled by a textbook binary search (same result on a disjoint ascending table)"],
)

MANIFEST = dict(
    text='Coq model of MetricsBuilder (hmtx/hhea), MaxBuilder and update_composite_limits (maxp), head bbox union, composite bbox through stored transforms, loca format choice, OS/2 xAvgCharWidth, first/last char index, Unicode-range and code-page bits, max context. Theorems over arbitrary glyph lists: hmtx reconstructs every (advance, lsb) and numberOfHMetrics is minimal; hhea extrema are attained over exactly the right glyph sets; the composite-limit fixed point equals the recursive definition on every acyclic graph for every HashMap order; head box is the union; composite box covers the resolved outline within 1/2 (exactly for integral outlines); loca format round-trips; OS/2 fields as specified; plus a certified whole-font checker (check_font_sound). Tied to the code on every run: builders through hooks on generated inputs, and every summary field of generated compiled fonts recomputed from a hand-written decoder.',
    note='Trusted: Coq kernel + vm_compute; hand-written model and correspondence run; hand-written table decoder + read-fonts; Rust harness. No axioms. write-fonts serialisation and cmap subtable choice are observed on decoded fonts only.',
)
