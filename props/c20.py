N = {"quick": 400, "thorough": 4000}
PROP = dict(
    id="C20",
    module="FV.C20.Props",
    coq_targets=["theories/C20/Props.vo"],
    theorems=["parse_print_any_format", "formatting_insensitive", "parse_render_any_document",
              "equal_documents_parse_equal", "key_order_irrelevant", "every_key_order_is_a_formatting",
              "key_order_with_duplicate_keys_refuted", "quoting_a_number_refuted", "string_field_rejects_every_list",
              "string_field_reads_quoted_string", "parse_total",
              "skip_follows_parse", "package_reassembly", "entrypoints_share_core", "cli_flag_semantics",
              "ufo_as_designspace", "ufo_only_public_keys"],
    prelude="Require Import FV.C20.Model.\nFrom Coq Require Import List NArith ZArith QArith Bool.\nOpen Scope N_scope.",
    harness_args=lambda tier, seed: ["--seed", str(seed), "--n", str(N[tier])],
    env={"SOURCE_DATE_EPOCH": "1700000000"},
    shard=100,
    rule="P: Plist::parse on hand-written lexer edge texts (escapes, surrogates, octal, data blocks, delimiters), on generated "
         "documents (depth <= 3; atoms from a number-like pool: leading zeros, exponents, hex-upper, inf/nan, i64 limits; strings with "
         "quotes, backslashes, control, 2/3/4-byte characters; bare and quoted keys, sometimes repeated) printed twice by a random "
         "formatting oracle (white space, quoting, escape style, hex case, key order, trailing comma) plus once canonically, on one or "
         "two character mutations of those texts, and on reformatted sub-documents / small whole files of the Glyphs corpus; predicate: "
         "all formattings of one document read equal; every text also evaluated by the Coq model and compared value by value (numbers: "
         "i64 exactly, f64 within 2^-52 relative). "
         "G: corpus .glyphs sources under resources/testdata/glyphs2, glyphs3 (a seeded sample in quick, all in thorough; sources with a "
         "unicode list always) and generated Glyphs 3 sources (1-2 masters, nested / transformed / mixed components, anchors, kerning, "
         "features, an include() in every third): font bytes of file on disk vs same text via Input::from_glyphs vs the content split "
         "into a .glyphspackage by the harness (file names unrelated to glyph order) vs the text re-printed canonically and with a random "
         "font-level oracle (white space, key order, quoting and escapes; the `unicode` entry kept on its own line). "
         "X: for sources with `unicode = (a,b);` four re-layouts of that entry only. "
         "C: the fontc binary rebuilt from the working tree, run with random flags (tri-state =true/=false/omitted, --source vs "
         "positional, default vs explicit output, --emit-ir) on generated and corpus sources (.glyphs, .glyphspackage, .ufo, "
         ".designspace) vs fontc::generate_font with the options those arguments mean; the Options the binary logs vs the model's "
         "options_of_args. I: Input::new on 17 file names vs the model's extension dispatch. "
         "U: generated lone UFOs (random public.glyphOrder / skipExportGlyphs / postscriptNames / openTypeCategories / ufo2ft filters, "
         "kerning, features) vs a one-source designspace with and without the public.* keys in its lib and with / without name "
         "attributes on the source. SOURCE_DATE_EPOCH fixed. A case is non-trivial when the document is not a lone atom / the UFO has "
         "a skip list; distinct = distinct text / argument vector.",
    trusted_base=["Coq 8.16.1 kernel (coqc, vm_compute for case evaluation)",
                  "hand-written model FV.C20.Model of glyphs-reader/src/plist.rs (lexer, parse_rec, parse_atom, skip_rec), of "
                  "RawFont::load_package at the value level, of fontc args.rs / lib.rs entry points and of the ufo2fontir lib merge, "
                  "tied to the code by the correspondence run",
                  "Rust harness /verif/harness (vh c20) including its own plist reader / printer used to reformat and split sources",
                  "the debug log line of the fontc binary (`Running with options ...`) used to observe the real Options"],
    assumptions=["a Rust &str is modelled as its list of Unicode scalar values (the lexer only inspects ASCII bytes)",
                 "Plist Integer / Float are modelled as the atom text; their values are functions of that text (checked per case)",
                 "the typed readers of glyphs-reader/src/font.rs, the front ends and the compilation are not modelled: equality of "
                 "font bytes across containers and formattings is established on the explored inputs only",
                 "quoting is treated as insignificant only for strings that do not read as numbers, and trailing commas are not "
                 "part of the font-level oracle (the property names white space, key order and quoting)",
                 "file-system layout: includes are resolved relative to the source's directory, a source in memory has none; the "
                 "file-vs-memory comparison is skipped for the generated sources that use include()",
                 "norad cannot read a designspace source without a location dimension: the one-source designspace uses one axis "
                 "with minimum = default = maximum"],
)

MANIFEST = dict(
    text="Coq theorems over an executable model of the glyphs-reader ASCII plist reader: for every formatting oracle (white space, quoting and escape style, hex digit case, trailing comma, key order) parse (print phi v) = Ok v, and for every well-formed concrete document parse (render c) = Ok (denote c), hence formatting-insensitivity; key order irrelevant exactly for distinct keys; the reader terminates on every input; skip_rec consumes what parse_rec consumes; a source split into a .glyphspackage reassembles to the source for any directory order; the CLI is the library entry point applied to options_of_args, with the tri-state flag semantics; a lone UFO is read as the designspace that carries its public.* lib keys. Tied to the code on every run: Plist::parse vs the model on generated, mutated and corpus texts; font bytes of file / memory / package / reformatted text; the rebuilt fontc binary vs fontc::generate_font and its logged Options vs the model; lone UFO vs one-source designspace. Partial: the typed interpretation of the parsed plist (font.rs) and the compilation are exercised, not proved.",
    note="Trusted: Coq kernel + vm_compute; hand-written model and its correspondence run; Rust harness with its own plist reader/printer. No axioms.",
)
