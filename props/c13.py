N = {"quick": 360, "thorough": 6000}
NPARSE = {"quick": 2400, "thorough": 100000}
PROP = dict(
    id="C13",
    module="FV.C13.Props",
    coq_targets=["theories/C13/Props.vo", "theories/C13/Tie.vo"],
    theorems=[
        "lexer_total_and_tiles", "lexer_char_boundaries", "lexer_never_yields_eof",
        "parser_new_returns", "token_primitives_do_not_panic", "split_remap_does_not_panic",
        "sink_prefix_invariant", "glyph_map_split_is_lossless", "rewrite_preserves_text",
        "rewrite_diag_in_range", "consumed_up_to_first_eof", "front_end_lossless",
        "positions_consistent",
        "err_range_in_source", "err_range_on_char_boundaries", "err_before_ws_in_source_iff",
        "err_before_ws_refuted", "include_validate_terminates", "include_assembly_terminates",
        "include_cycle_is_reported", "include_depth_limit_refuted",
    ],
    prelude="Require Import FV.C13.Model FV.C13.Tie.\nFrom Coq Require Import List NArith Bool Arith.\nOpen Scope nat_scope.",
    harness_args=lambda tier, seed: ["--seed", str(seed), "--n", str(N[tier]), "--parse", str(NPARSE[tier])],
    shard=60,
    rule="stream P (property predicate on the real parse_root / compile::validate, in child processes with a "
         "watchdog): the 309 corpus .fea files, corpus windows mutated at character level (specials, NUL, multi-byte "
         "characters, truncation, spans), grammar-generated feature files (all rule types incl. contextual rules, "
         "variable metrics, glyphs number values, tables, includes) and their mutants, token soup; each with and "
         "without a glyph map; error-free trees parsed with the glyph map are validated. "
         "stream L: the real Lexer (hook) vs the model on the same kinds of text (<= 260 bytes). "
         "stream D: the real Parser/AstSink primitives driven through a hook with generated call sequences "
         "(nested nodes, remaps, splits incl. invalid ones, do_bump<N>, err*, unbalanced finishes; one third are "
         "contextual rules that the real reparse functions rewrite) vs the model run; the reparse calls are "
         "reconstructed from the rewritten node. stream I: include graphs (self include, cycles, chains of 44-56 "
         "files, DAGs with diamonds/duplicates, missing files, two paths to a shared chain, random digraphs) vs the "
         "model of IncludeGraph::validate / generate_recurse. A case is non-trivial when it has more than one lexeme "
         "/ more than two calls / more than one file; distinct = distinct (input, calls).",
    trusted_base=["Coq 8.16.1 kernel (coqc, vm_compute for case evaluation and the refutation witnesses)",
                  "hand-written model FV.C13.Model of fea-rs lexer.rs, parser.rs primitives, token_tree.rs sink/builder, "
                  "rewrite.rs ReparseCtx primitives, context.rs IncludeGraph::validate/generate_recurse, tied to the code "
                  "by the correspondence run; keyword table generated from lexeme.rs",
                  "Rust harness /verif/harness (vh c13) and the cfg(fontc_verif) hooks at the end of "
                  "fea-rs/src/parse/parser.rs and fea-rs/src/token_tree.rs"],
    assumptions=["the grammar (parse/grammar/*.rs) is not modelled: theorems quantify over every sequence of primitive "
                 "calls; that the real grammar terminates, does not panic and only makes such calls is exercised, not proved",
                 "usize arithmetic is modelled on nat (no overflow); u32 spans of Diagnostic/Node not modelled",
                 "validation (compile/validate.rs) and typed AST accessors are not modelled, only exercised",
                 "source loading, path resolution and the parse queue of ParseContext::parse are not modelled (the include "
                 "graph is the model's input)"],
)
