N = {"quick": 360, "thorough": 6000}
NPARSE = {"quick": 2400, "thorough": 100000}
PROP = dict(
    id="C13",
    module="FV.C13.Props",
    coq_targets=["theories/C13/Props.vo", "theories/C13/Tie.vo"],
    theorems=[
        "lexer_total_and_tiles", "lexer_char_boundaries", "lexer_never_yields_eof",
        "parser_new_returns", "token_primitives_do_not_panic", "split_remap_does_not_panic",
        "sink_prefix_invariant", "glyph_map_split_is_lossless", "rewrite_preserves_text",
        "rewrite_diag_in_range", "consumed_up_to_first_eof", "front_end_lossless",
        "positions_consistent",
        "err_range_in_source", "err_range_on_char_boundaries",
        "err_before_ws_range_on_char_boundaries", "include_validate_terminates", "include_assembly_terminates",
        "include_cycle_is_reported", "include_no_unreported_cycle_on_any_route", "include_depth_limit_refuted",
    ],
    prelude="Require Import FV.C13.Model FV.C13.Tie.\nFrom Coq Require Import List NArith Bool Arith.\nOpen Scope nat_scope.",
    harness_args=lambda tier, seed: ["--seed", str(seed), "--n", str(N[tier]), "--parse", str(NPARSE[tier])],
    shard=60,
    rule="stream P (property predicate on the real parse_root / compile::validate, in child processes with a "
         "watchdog): the 309 corpus .fea files, corpus windows mutated at character level (specials, NUL, multi-byte "
         "characters, truncation, spans), grammar-generated feature files (all rule types incl. contextual rules, "
         "variable metrics, glyphs number values, tables, includes) and their mutants, token soup; each with and "
         "without a glyph map; error-free trees parsed with the glyph map are validated. "
         "stream L: the real Lexer (hook) vs the model on the same kinds of text (<= 260 bytes). "
         "stream D: the real Parser/AstSink primitives driven through a hook with generated call sequences "
         "(nested nodes, remaps, splits incl. invalid ones, do_bump<N>, err*, unbalanced finishes; one third are "
         "contextual rules that the real reparse functions rewrite) vs the model run; the reparse calls are "
         "reconstructed from the rewritten node. stream I: include graphs (self include, cycles, chains of 44-56 "
         "files, DAGs with diamonds/duplicates, missing files, two paths to a shared chain, chains of 46-50 files whose last file is also included from near the root (both visiting orders) with nothing / a self include / a cycle / further includes / an include back into the chain below it, random digraphs; run in a child process so that a stack overflow or abort of tree assembly is observed and reported with the graph) vs the "
         "model of IncludeGraph::validate / generate_recurse. A case is non-trivial when it has more than one lexeme "
         "/ more than two calls / more than one file; distinct = distinct (input, calls).",
    trusted_base=["Coq 8.16.1 kernel (coqc, vm_compute for case evaluation and the refutation witnesses)",
                  "hand-written model FV.C13.Model of fea-rs lexer.rs, parser.rs primitives, token_tree.rs sink/builder, "
                  "rewrite.rs ReparseCtx primitives, context.rs IncludeGraph::validate/generate_recurse, tied to the code "
                  "by the correspondence run; keyword table generated from lexeme.rs",
                  "Rust harness /verif/harness (vh c13) and the cfg(fontc_verif) hooks at the end of "
                  "fea-rs/src/parse/parser.rs and fea-rs/src/token_tree.rs"],
    assumptions=["the grammar (parse/grammar/*.rs) is not modelled: theorems quantify over every sequence of primitive "
                 "calls; that the real grammar terminates, does not panic and only makes such calls is exercised, not proved",
                 "usize arithmetic is modelled on nat (no overflow); u32 spans of Diagnostic/Node not modelled",
                 "validation (compile/validate.rs) and typed AST accessors are not modelled, only exercised",
                 "source loading, path resolution and the parse queue of ParseContext::parse are not modelled (the include "
                 "graph is the model's input)"],
)

MANIFEST = dict(
    text="Coq model of the fea-rs front end below the grammar: the lexer byte for byte, the parser primitives (4-slot lookahead with attached trivia, advance, eat_trivia, do_bump, split_remap_current, the err family), the token sink / tree builder (finish_node, the contextual-rule rewrite, positions) and include-graph validation. Theorems for EVERY sequence of primitive calls (any grammar) and every input: the lexer terminates and tiles the input on character boundaries and never yields EOF inside it; the sink's token texts always equal the consumed prefix (sink_prefix_invariant); the rewrite preserves text; at EOF the tree spells the whole input (front_end_lossless, with or without a glyph map); positions are consistent; diagnostic ranges lie in the source on character boundaries; include validation and assembly terminate on every graph and cycles are reported. Tied to the code on every run: lexer and primitive-call sequences driven through hooks and compared with the model state; the real parser and validator run on corpus, mutated and grammar-generated texts under a watchdog with the direct predicates (no panic/hang, token concatenation = input, diagnostics in range, include cycles reported).",
    note='Trusted: Coq kernel + vm_compute; hand-written model and its correspondence run; hooks in fea-rs; Rust harness with worker processes. No axioms. Partial: termination/totality of the ~3000-line grammar and of validation is only exercised; nine defects repaired in /repo, four known findings listed.',
)
