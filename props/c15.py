N = {"quick": 450, "thorough": 6000}
PROP = dict(
    id="C15",
    module="FV.C15.Props",
    coq_targets=["theories/C15/Props.vo"],
    theorems=['depth_sort_terminates_on_any_graph', 'depth_sort_never_returns_cyclic_glyph', 'collect_nested_terminates_on_any_graph', 'limits_terminates_on_any_graph', 'limits_ok_on_acyclic', 'reach_terminates_on_acyclic', 'reach_diverges_on_cycle_refuted', 'resolve_terminates_on_acyclic', 'resolve_livelock_on_cycle_refuted', 'convert_terminates_on_acyclic', 'convert_diverges_on_cycle_refuted', 'flatten_terminates_on_acyclic', 'flatten_diverges_on_cycle_refuted', 'bbox_terminates_on_acyclic', 'bbox_diverges_on_cycle_refuted', 'recursive_bbox_depth_unbounded_refuted', 'acyclic_is_no_cycle', 'cycle_check_rejects_exactly_cycles', 'cycle_rejected_before_walks', 'fixed_compile_never_diverges', 'repair_transparent_without_cycle', 'unfixed_compile_diverges_refuted'],
    prelude="Require Import FV.C15.Model.\nFrom Coq Require Import List Arith ZArith Bool.\nImport ListNotations.",
    harness_args=lambda tier, seed: ["--seed", str(seed), "--n", str(N[tier])],
    shard=60,
    rule="the real fontc CLI (rebuilt from /repo on every run) is run as a subprocess under ulimits (6 CPU-s, 4 GB, 300 s wall) on: "
         "(D) a fixed corpus: 15 component graphs (2-cycle, self-loop, 3-cycle, mixed / non-export cycle members, zero and non-zero "
         "net translation, flatten / decompose / prefer-simple flags, missing component), acyclic component chains of 300 / 1500 / 3000 glyphs (nesting depth), the master-less glyphs2/Unicode-UnquotedHex.glyphs as it is, 8 text mutants of real .glyphs sources with component cycles, 3 FEA include graphs (self include, 2-cycle, chain of 60) and 6 inputs known to crash the parsers (20000-deep nesting in .glyphs / designspace <lib> / UFO plist; non-numeric unicode and node strings in .glyphs); "
         "(A, 55%) random UFO component graphs of 3..6 glyphs (0..2 contours, 0..2 translated components, 80% exported) with one "
         "structural mutation (cycle of length 1..4 with zero or non-zero net translation, mixed or non-export member, missing "
         "reference, duplicate component, mixed glyph) and one of five flag sets, outcome class compared with Model.exec; "
         "(B, 15%) fontdrasil depth_sorted_composite_glyphs in process on random graphs of 1..8 nodes with cycles, self loops, "
         "missing and duplicate references, output compared with Model.depth_sorted; "
         "(C, 30%, predicate only) a generated UFO, a generated 2-master designspace and real .glyphs / .glyphspackage test sources "
         "with one or two mutations: truncation, byte edits, line delete/duplicate/swap, out-of-range numbers, deleted files or "
         "master UFOs, token soup per format, degenerate designspaces, 20000-deep nesting bombs. "
         "Predicate on every run: exit 0 with a parseable font, or a non-zero exit other than 101 with no font file; never a "
         "signal, CPU/wall limit, or uncaught panic. A graph case is non-trivial when it has a component; distinct = distinct "
         "store+flags / node list / base+mutation list. Cases that are predicted to hang on the unrepaired tree are capped "
         "(24 quick / 300 thorough) to bound the run time.",
    trusted_base=["Coq 8.16.1 kernel (coqc, vm_compute for case evaluation)",
                  "hand-written model FV.C15.Model (component-graph walks of fontir::glyph, fontbe::glyphs, "
                  "fontbe::metrics_and_limits, fontdrasil::util) tied to the fontc CLI and to "
                  "fontdrasil::util::depth_sorted_composite_glyphs by the correspondence run",
                  "Rust harness /verif/harness (vh c15), its UFO/designspace writer vh::srcgen and the classification of "
                  "process outcomes (wait status, stderr text, output file parsed by vh::sfnt + read-fonts)",
                  "sh / ulimit / GNU timeout used to bound and observe the subprocess"],
    assumptions=["the model covers one master (static font) only: the location part of every key is constant",
                 "components are translations only (identity 2x2): no transformed-component decomposition, no overflow of the 2x2",
                 "fuel 1500 stands for divergence: a model walk that has not finished after 1500 steps is compared with the "
                 "implementation being killed by a signal (stack overflow / abort) or hitting the CPU / wall-clock limit; the model "
                 "does not tell stack overflow from livelock",
                 "the real stack limits (8 MB main thread, 2 MB rayon workers) and the ulimit values (6 CPU-s, 4 GB address space, "
                 "300 s wall) are not modelled; a compile needing more than 6 CPU-s would be reported as a hang",
                 "the malformed-source stream (mutated UFO / designspace / .glyphs trees, token soup, nesting bombs) is checked "
                 "against the property predicate only; no model of the parsers exists",
                 "propagate-anchors runs are compared with the model under default flags (that walk is guarded by a visited set)",
                 "in repaired mode (probe: the canonical 2-cycle is rejected with a 'component cycle' error) the model's entry "
                 "check is switched on for every graph case of the run"],
)

MANIFEST = dict(
    text="Coq model of every component-graph walk (depth sort, nested location collection, resolve_inconsistencies re-queue loop, flatten, convert-to-contours with its transform-keyed visited set, composite bbox work list, composite limits) and of the GlyphOrder pipeline on arbitrary, possibly cyclic, finite graphs, with fuel standing for loop iterations / recursion depth. Theorems: guarded walks terminate on every graph; unguarded walks terminate on closed acyclic graphs with explicit bounds and diverge (for every fuel) on cycles; acyclic <-> no cycle; the entry check rejects exactly the cyclic graphs before any unguarded walk runs (cycle_rejected_before_walks); the repaired compile never diverges on any store and any flags (fixed_compile_never_diverges) and is transparent on acyclic input. Tied to the code on every run: the real fontc CLI (rebuilt from the working tree) under time/memory limits on component-graph mutants compared with the model's outcome, plus structural and byte mutations, token soup and nesting bombs of UFO/designspace/.glyphs sources with the outcome predicate {font, error} vs {signal, timeout, panic, bogus font}.",
    note='Trusted: Coq kernel + vm_compute; hand-written single-master, translation-only model and its correspondence run; the CLI subprocess runner (ulimit/timeout); Rust harness. No axioms. Partial: parser resource use (plist/XML/FEA) and the real stack limit are only exercised; six defects repaired in /repo, two known findings (external plist/norad deserialiser).',
)
