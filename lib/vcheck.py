#!/usr/bin/env python3
"""Shared driver for the per-property checks (see DESIGN.md section 2 and 7).

Flow of one check (property P, tier T, seed S):
  1. hygiene grep over the Coq development (no Admitted/Axiom/... anywhere)
  2. `make` the property's .vo targets (full .vo build, incremental)
  3. audit: coqc a generated file that `Print Assumptions` / `Check`s every
     property theorem; axioms outside the allow-list fail the check
  4. rebuild the Rust harness against /repo's working tree (path deps, hooks on)
  5. run the harness: it generates cases, runs the IMPLEMENTATION on them,
     evaluates the property predicate directly on the implementation's output
     (the failing-input search) and emits, per case, a Gallina boolean term that
     is true iff the MODEL agrees with the implementation on that case
  6. evaluate those terms with `coqc` (vm_compute), sharded over the cores
  7. decide: property-predicate failures -> VIOLATION (or KNOWN-FINDING when
     listed); model/implementation disagreement or broken proof without a
     failing input -> VIOLATION ... no-failing-input-found
  8. write evidence/<id>.json
"""
import concurrent.futures as cf
import hashlib
import json
import os
import re
import subprocess
import sys
import time

VERIF = os.path.dirname(os.path.dirname(os.path.abspath(__file__)))
COQ = os.path.join(VERIF, "coq")
# Overrides used only when the checks are pointed at a scratch copy of /repo carrying a seeded change
# (tools/seedtest.sh): a copy of the harness whose path dependencies name that worktree, and separate
# work / evidence directories so the real evidence is not overwritten.
HARNESS = os.environ.get("VERIF_HARNESS", os.path.join(VERIF, "harness"))
WORK = os.environ.get("VERIF_WORK", os.path.join(VERIF, "work"))
EVID = os.environ.get("VERIF_EVIDENCE", os.path.join(VERIF, "evidence"))
REPLAY = os.path.join(EVID, "replay")
KNOWN = os.path.join(VERIF, "known_findings.txt")
NCPU = os.cpu_count() or 4

ENV = dict(os.environ)
ENV.update({"CARGO_NET_OFFLINE": "true", "GOPROXY": "off", "PIP_NO_INDEX": "1"})

FORBIDDEN = re.compile(
    r"\b(Admitted|admit|Axiom|Axioms|Parameter|Parameters|Conjecture|Conjectures|"
    r"Admit\s+Obligations|bypass_check|Unset\s+Guard\s+Checking|Unset\s+Positivity\s+Checking|"
    r"Unset\s+Universe\s+Checking|type-in-type|impredicative-set|native_compute)\b")
# Variable/Hypothesis are allowed only inside a Section; checked separately.
SECTION_ONLY = re.compile(r"^\s*(Variable|Variables|Hypothesis|Hypotheses|Context)\b")

STD_AXIOM_ALLOW = {
    # standard-library axioms that may legitimately appear (named in DESIGN.md section 3)
    "functional_extensionality_dep",
    "FunctionalExtensionality.functional_extensionality_dep",
    "Eqdep.Eq_rect_eq.eq_rect_eq",
    "Coq.Logic.Eqdep.Eq_rect_eq.eq_rect_eq",
    "JMeq_eq", "JMeq.JMeq_eq",
    "proof_irrelevance", "ProofIrrelevance.proof_irrelevance",
    "classic", "Classical_Prop.classic",
}


def sh(cmd, cwd=None, timeout=3600, env=None, stdin=None):
    p = subprocess.run(cmd, cwd=cwd, env=env or ENV, timeout=timeout, input=stdin,
                       stdout=subprocess.PIPE, stderr=subprocess.STDOUT, text=True)
    return p.returncode, p.stdout


def strip_comments(src):
    out, depth, i, n = [], 0, 0, len(src)
    while i < n:
        if src.startswith("(*", i):
            depth += 1
            i += 2
        elif src.startswith("*)", i) and depth > 0:
            depth -= 1
            i += 2
        else:
            if depth == 0:
                out.append(src[i])
            elif src[i] == "\n":
                out.append("\n")
            i += 1
    return "".join(out)


def hygiene():
    """Reject forbidden vernacular anywhere in the development."""
    bad = []
    nfiles = 0
    for root, _, files in os.walk(os.path.join(COQ, "theories")):
        for f in files:
            if not f.endswith(".v"):
                continue
            nfiles += 1
            path = os.path.join(root, f)
            src = strip_comments(open(path).read())
            depth = 0
            for ln, line in enumerate(src.split("\n"), 1):
                if re.match(r"^\s*Section\b", line):
                    depth += 1
                if FORBIDDEN.search(line):
                    bad.append(f"{path}:{ln}: {line.strip()}")
                if SECTION_ONLY.match(line) and depth == 0:
                    bad.append(f"{path}:{ln}: (outside section) {line.strip()}")
                if re.match(r"^\s*End\b", line) and depth > 0:
                    depth -= 1
    for flagfile in ("_CoqProject",):
        s = open(os.path.join(COQ, flagfile)).read()
        if FORBIDDEN.search(s):
            bad.append(f"{flagfile}: forbidden flag")
    return nfiles, bad


def gen_coqproject():
    """_CoqProject lists every theories/**/*.v (regenerated, so adding a file needs no shared edit)."""
    files = []
    for root, _, fs in os.walk(os.path.join(COQ, "theories")):
        for f in fs:
            if f.endswith(".v"):
                files.append(os.path.relpath(os.path.join(root, f), COQ))
    files.sort()
    txt = ("-Q theories FV\n-arg -w -arg -notation-overridden,-deprecated-hint-without-locality,"
           "-deprecated-instance-without-locality\n" + "\n".join(files) + "\n")
    proj = os.path.join(COQ, "_CoqProject")
    if not os.path.exists(proj) or open(proj).read() != txt:
        open(proj, "w").write(txt)


def coq_makefile():
    gen_coqproject()
    mk = os.path.join(COQ, "Makefile")
    proj = os.path.join(COQ, "_CoqProject")
    if not os.path.exists(mk) or os.path.getmtime(mk) < os.path.getmtime(proj):
        rc, out = sh(["coq_makefile", "-f", "_CoqProject", "-o", "Makefile"], cwd=COQ)
        if rc != 0:
            raise SystemExit("coq_makefile failed:\n" + out)


def coq_build(targets, timeout=1800):
    coq_makefile()
    rc, out = sh(["make", "-j", str(NCPU)] + targets, cwd=COQ, timeout=timeout)
    return rc, out


def coqc_file(path, timeout=900):
    d = os.path.dirname(path)
    rc, out = sh(["coqc", "-noglob", "-Q", os.path.join(COQ, "theories"), "FV",
                  "-Q", d, "W_" + hashlib.md5(d.encode()).hexdigest()[:8], path],
                 cwd=d, timeout=timeout)
    return rc, out


def audit(pid, module, theorems, workdir, extra_allow=()):
    """Print Assumptions + Check for every property theorem."""
    lines = [f"Require Import {module}."]
    for t in theorems:
        lines.append(f'Goal True. idtac "@@THM {t}". exact I. Qed.')
        lines.append(f"Check {t}.")
        lines.append(f'Goal True. idtac "@@ASSUM {t}". exact I. Qed.')
        lines.append(f"Print Assumptions {t}.")
    lines.append('Goal True. idtac "@@END". exact I. Qed.')
    path = os.path.join(workdir, "audit.v")
    open(path, "w").write("\n".join(lines) + "\n")
    rc, out = coqc_file(path)
    res = {"ok": rc == 0, "theorems": [], "raw_rc": rc}
    if rc != 0:
        res["error"] = out[-3000:]
        return res
    allow = STD_AXIOM_ALLOW | set(extra_allow)
    chunks = re.split(r"@@(THM|ASSUM|END)\s*", out)
    # chunks: [pre, kind, text, kind, text ...]
    cur = None
    i = 1
    while i < len(chunks) - 1:
        kind, text = chunks[i], chunks[i + 1]
        if kind == "THM":
            name, _, rest = text.partition("\n")
            cur = {"name": name.strip(), "statement": " ".join(rest.split()), "axioms": []}
            res["theorems"].append(cur)
        elif kind == "ASSUM" and cur is not None:
            name, _, rest = text.partition("\n")
            if "Closed under the global context" in rest:
                cur["axioms"] = []
            else:
                ax = re.findall(r"^([A-Za-z_][\w.']*)\s*:", rest, flags=re.M)
                cur["axioms"] = ax
                for a in ax:
                    if a not in allow and a.split(".")[-1] not in {x.split(".")[-1] for x in allow}:
                        res["ok"] = False
                        res.setdefault("bad_axioms", []).append(f"{cur['name']}: {a}")
        i += 2
    if len(res["theorems"]) != len(theorems):
        res["ok"] = False
        res["error"] = "audit output incomplete"
    return res


def harness_build(binname, profile="dev", timeout=3000):
    cmd = ["cargo", "build", "--offline", "--bin", binname]
    if profile == "release":
        cmd.append("--release")
    rc, out = sh(cmd, cwd=HARNESS, timeout=timeout)
    binp = os.path.join(HARNESS, "target", "release" if profile == "release" else "debug", binname)
    return rc, out, binp


def run_harness(binp, args, outpath, timeout=3000, env=None):
    e = dict(ENV)
    if env:
        e.update(env)
    with open(outpath, "w") as f:
        p = subprocess.run([binp] + args, stdout=f, stderr=subprocess.PIPE, text=True,
                           timeout=timeout, env=e, cwd=VERIF)
    return p.returncode, p.stderr


def read_jsonl(path):
    recs = []
    with open(path) as f:
        for line in f:
            line = line.strip()
            if line.startswith("{"):
                try:
                    recs.append(json.loads(line))
                except json.JSONDecodeError:
                    pass
    return recs


def eval_cases(pid, cases, prelude, workdir, shard=200, timeout=1500):
    """cases: list of dicts with 'id' and 'coq' (a Gallina bool term).
    Returns (failing ids, errors)."""
    if not cases:
        return [], []
    shards = [cases[i:i + shard] for i in range(0, len(cases), shard)]
    paths = []
    for k, sh_cases in enumerate(shards):
        path = os.path.join(workdir, f"cases_{k}.v")
        with open(path, "w") as f:
            f.write(prelude + "\n")
            f.write("Require Import FV.Base.Harness.\nImport ListNotations.\n")
            f.write("Definition cases : list bool := [\n")
            f.write(";\n".join("  (" + c["coq"] + ")" for c in sh_cases))
            f.write("\n].\n")
            f.write('Goal True. idtac "@@FAIL". exact I. Qed.\n')
            f.write("Eval vm_compute in (fail_idx 0%N cases).\n")
            f.write('Goal True. idtac "@@DONE". exact I. Qed.\n')
        paths.append(path)
    failing, errors = [], []

    def one(k):
        rc, out = coqc_file(paths[k], timeout=timeout)
        return k, rc, out

    with cf.ThreadPoolExecutor(max_workers=NCPU) as ex:
        for k, rc, out in ex.map(one, range(len(shards))):
            if rc != 0 or "@@DONE" not in out:
                errors.append(f"shard {k}: coqc rc={rc}: {out[-1500:]}")
                continue
            body = out.split("@@FAIL", 1)[1].split("@@DONE", 1)[0]
            body = body.split("=", 1)[1] if "=" in body else ""
            body = body.split(":", 1)[0]
            for m in re.findall(r"(\d+)", body):
                failing.append(shards[k][int(m)]["id"])
    return failing, errors


def eval_show(terms, prelude, workdir, timeout=600):
    """Evaluate diagnostic terms; returns raw text per term."""
    path = os.path.join(workdir, "show.v")
    with open(path, "w") as f:
        f.write(prelude + "\nRequire Import FV.Base.Harness.\nImport ListNotations.\n")
        for i, t in enumerate(terms):
            f.write(f'Goal True. idtac "@@SHOW {i}". exact I. Qed.\n')
            f.write(f"Eval vm_compute in ({t}).\n")
    rc, out = coqc_file(path, timeout=timeout)
    parts = re.split(r"@@SHOW \d+\s*", out)[1:]
    return [" ".join(p.split())[:2000] for p in parts]


def load_known(pid):
    known, fixed = [], []
    if os.path.exists(KNOWN):
        for line in open(KNOWN):
            line = line.strip()
            if not line or line.startswith("#"):
                continue
            m = re.match(r"known:\s+property=(\S+)\s+key=(\S+)\s+(.*)", line)
            if m and m.group(1) == pid:
                known.append((m.group(2), m.group(3)))
            m = re.match(r"fixed:\s+property=(\S+)\s+(\S+)\s+(.*)", line)
            if m and m.group(1) == pid:
                fixed.append((m.group(2), m.group(3)))
    return known, fixed


def write_replay(pid, name, payload):
    os.makedirs(REPLAY, exist_ok=True)
    h = hashlib.sha1(json.dumps(payload, sort_keys=True, default=str).encode()).hexdigest()[:10]
    path = os.path.join(REPLAY, f"{pid}-{name}-{h}.json")
    with open(path, "w") as f:
        json.dump(payload, f, indent=1, default=str)
    return path


class Result:
    def __init__(self, pid, tier, seed):
        self.pid, self.tier, self.seed = pid, tier, seed
        self.t0 = time.time()
        self.violations = []   # (key, desc, replay_payload, found_input: bool)
        self.known_hits = []   # (key, desc)
        self.coverage = {}
        self.assumptions = []
        self.lines = []

    def violation(self, key, desc, payload, found_input=True):
        self.violations.append((key, desc, payload, found_input))

    def finish(self, level="proof"):
        known, _fixed = load_known(self.pid)
        known_keys = {k: d for k, d in known}
        rc = 0
        nviol = 0
        seen_known = set()
        seen_v = set()
        for key, desc, payload, found in self.violations:
            if key in known_keys:
                if key not in seen_known:
                    seen_known.add(key)
                    print(f"KNOWN-FINDING: property={self.pid} {key}: {known_keys[key]}")
                continue
            if key in seen_v:
                continue
            seen_v.add(key)
            nviol += 1
            payload = dict(payload or {})
            payload.update({"property": self.pid, "key": key, "what": desc, "seed": self.seed,
                            "tier": self.tier,
                            "replay": f"VERIF_SEED={self.seed} ./check {self.pid} --tier {self.tier}"})
            path = write_replay(self.pid, re.sub(r"[^A-Za-z0-9_.-]", "_", key)[:40], payload)
            tail = "" if found else " no-failing-input-found"
            print(f"VIOLATION property={self.pid} replay={path}{tail}")
            print(f"  ({key}: {desc[:300]})")
            rc = 1
        ev = {
            "property_id": self.pid, "tier": self.tier, "seed": self.seed, "level": level,
            "coverage": self.coverage, "assumptions": self.assumptions,
            "wall_s": round(time.time() - self.t0, 2), "violations": nviol,
        }
        ev["coverage"]["known_findings_reobserved"] = sorted(seen_known)
        os.makedirs(EVID, exist_ok=True)
        with open(os.path.join(EVID, f"{self.pid}.json"), "w") as f:
            json.dump(ev, f, indent=1, default=str)
        print(f"{self.pid} {self.tier}: {'FAIL' if rc else 'ok'} "
              f"obligations={self.coverage.get('discharged')}/{self.coverage.get('obligations')} "
              f"cases={self.coverage.get('evaluations')} wall={ev['wall_s']}s")
        return rc


def run_standard(P, tier, seed):
    """P: dict describing the property check (see props/*.py)."""
    pid = P["id"]
    R = Result(pid, tier, seed)
    workdir = os.path.join(WORK, pid)
    os.makedirs(workdir, exist_ok=True)
    for f in os.listdir(workdir):
        if f.endswith((".v", ".vo", ".vok", ".vos", ".glob", ".aux")) or f.startswith("."):
            try:
                os.remove(os.path.join(workdir, f))
            except OSError:
                pass
    trusted = list(P.get("trusted_base", []))
    cov = R.coverage
    cov["checker_cmd"] = ("make -C coq " + " ".join(P["coq_targets"]) +
                          " ; coqc work/%s/audit.v (Print Assumptions) ; coqc work/%s/cases_*.v" % (pid, pid))
    cov["trusted_base"] = trusted

    # 1. hygiene
    nfiles, bad = hygiene()
    cov["coq_files_scanned"] = nfiles
    if bad:
        R.violation("coq-hygiene", "forbidden vernacular in development: " + "; ".join(bad[:5]),
                    {"theorem": "all", "bad": bad}, found_input=False)

    # 2. build proofs
    rc, out = coq_build(["theories/Base/Harness.vo"] + P["coq_targets"])
    proofs_ok = rc == 0
    if not proofs_ok:
        m = re.findall(r'File "([^"]+)", line (\d+)', out)
        R.violation("proof-broken", "Coq build failed: " + (str(m[-1]) if m else out[-300:]),
                    {"theorem": P["coq_targets"], "log": out[-4000:]}, found_input=False)

    # 3. audit
    thms = P["theorems"]
    cov["obligations"] = len(thms)
    cov["discharged"] = 0
    if proofs_ok:
        a = audit(pid, P["module"], thms, workdir, P.get("extra_axioms", ()))
        cov["theorems"] = a.get("theorems", [])
        cov["discharged"] = len(a.get("theorems", [])) if a["ok"] else 0
        if not a["ok"]:
            R.violation("audit-failed", "Print Assumptions audit failed: " +
                        str(a.get("bad_axioms") or a.get("error", ""))[:500],
                        {"theorem": thms, "audit": a}, found_input=False)

    # 4/5. harness
    cases = []
    if P.get("harness_args"):
        profile = P.get("profile", "dev")
        rc, out, binp = harness_build(P.get("bin", pid.lower()), profile)
        if rc != 0:
            R.violation("harness-build", "harness does not build against /repo working tree "
                        "(correspondence cannot be checked): " + out[-600:],
                        {"correspondence": pid + " harness", "log": out[-4000:]}, found_input=False)
        else:
            outpath = os.path.join(workdir, "cases.jsonl")
            hargs = P["harness_args"](tier, seed)
            rc, err = run_harness(binp, hargs, outpath, env=P.get("env"))
            recs = read_jsonl(outpath)
            if rc != 0:
                R.violation("harness-crash", f"harness exited {rc}: {err[-600:]}",
                            {"correspondence": pid, "stderr": err[-4000:]}, found_input=False)
            cases = [r for r in recs if r.get("type") == "case"]
            viols = [r for r in recs if r.get("type") == "violation"]
            stats = [r for r in recs if r.get("type") == "stat"]
            for v in viols:
                R.violation(v["key"], v.get("desc", ""), v, found_input=v.get("found_input", True))
            cov["evaluations"] = len(cases) + sum(s.get("extra_evaluations", 0) for s in stats)
            nt = {c.get("sig", c["id"]) for c in cases if c.get("nontrivial", True)}
            cov["distinct_nontrivial"] = len(nt)
            cov["rule"] = P.get("rule", "")
            cov["samples"] = [{k: c[k] for k in c if k not in ("coq", "type", "show")} for c in cases[:3]]
            kinds = {}
            for c in cases:
                kinds[c.get("kind", "?")] = kinds.get(c.get("kind", "?"), 0) + 1
            cov["input_distribution"] = kinds
            for s in stats:
                cov.setdefault("stats", {}).update({k: v for k, v in s.items() if k != "type"})

            # 6. model evaluation
            coq_cases = [c for c in cases if c.get("coq")]
            if proofs_ok and coq_cases:
                failing, errors = eval_cases(pid, coq_cases, P["prelude"], workdir,
                                             shard=P.get("shard", 200))
                cov["model_evaluations"] = len(coq_cases)
                cov["disagreements"] = len(failing)
                if errors:
                    R.violation("model-eval-error", "model evaluation failed: " + errors[0][:600],
                                {"correspondence": pid, "errors": errors}, found_input=False)
                if failing:
                    byid = {c["id"]: c for c in coq_cases}
                    # the failing cases whose search output is evaluated: highest show_priority first, then by id
                    order = sorted(failing, key=lambda i: (-int(byid[i].get("show_priority", 0)), i))
                    fc = [byid[i] for i in order[:P.get("show_limit", 5)]]
                    shows = []
                    st = [c["show"] for c in fc if c.get("show")]
                    if st:
                        try:
                            shows = eval_show(st, P["prelude"], workdir)
                        except Exception as e:  # diagnostics only
                            shows = [str(e)]
                    # a disagreement is not by itself a violation of the property:
                    # the harness has already evaluated the property predicate on
                    # every case; those failures are reported above with inputs.
                    found = bool(P.get("found_in_show") and P["found_in_show"](shows))
                    ckey = P.get("correspondence_key", "correspondence")
                    if callable(ckey):
                        ckey = ckey(shows)
                    R.violation(ckey if found else "correspondence",
                                ("a schedule of the model in which the property fails was found (see model_outputs: "
                                 "Unordered first-job second-job schedule / Stuck rejected-ids schedule); " if found else "") +
                                f"model and implementation disagree on "
                                f"{len(failing)} of {len(coq_cases)} cases, e.g. "
                                + json.dumps({k: fc[0][k] for k in fc[0] if k not in ('coq', 'show', 'type')})[:400],
                                {"correspondence": P["module"] + " vs implementation",
                                 "failing_cases": [{k: c[k] for k in c if k != "type"} for c in fc],
                                 "model_outputs": shows},
                                found_input=found)
    R.assumptions = P.get("assumptions", [])
    return R.finish(level=P.get("level", "proof"))
