#!/bin/sh
# Build the framework offline from files on disk: the Coq development of every claimed property
# (full .vo build) and the Rust harness against /repo's working tree (hooks on via harness/.cargo/config.toml).
set -e
cd "$(dirname "$0")"
export CARGO_NET_OFFLINE=true
TARGETS=$(python3 - <<'PY'
import importlib, json, os, sys
sys.path.insert(0, "lib"); sys.path.insert(0, ".")
import vcheck
vcheck.coq_makefile()
approved = set(open("tools/claimed.txt").read().split())
t = ["theories/Base/Harness.vo"]
for f in sorted(os.listdir("props")):
    if f.startswith("c") and f.endswith(".py") and f[:-3].upper() in approved:
        m = importlib.import_module("props." + f[:-3])
        if getattr(m, "MANIFEST", None) and hasattr(m, "PROP"):
            t += m.PROP["coq_targets"]
        elif getattr(m, "MANIFEST", None) and hasattr(m, "COQ_TARGETS"):
            t += m.COQ_TARGETS
print(" ".join(dict.fromkeys(t)))
PY
)
(cd coq && timeout 3000 make -j16 $TARGETS >/dev/null 2>coq_build.log || { tail -30 coq_build.log; exit 1; })
BINS=$(python3 - <<'PY'
import importlib, os, sys
sys.path.insert(0, "lib"); sys.path.insert(0, ".")
b = []
approved = set(open("tools/claimed.txt").read().split())
for f in sorted(os.listdir("props")):
    if f.startswith("c") and f.endswith(".py") and f[:-3].upper() in approved:
        m = importlib.import_module("props." + f[:-3])
        if getattr(m, "MANIFEST", None):
            b.append("--bin " + (m.PROP.get("bin", f[:-3]) if hasattr(m, "PROP") else f[:-3]))
print(" ".join(b))
PY
)
(cd harness && timeout 3000 cargo build --offline $BINS 2>&1 | tail -3)
echo setup done
