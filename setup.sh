#!/bin/sh
# Build the framework offline from files on disk: the Coq development (full .vo build)
# and the Rust harness against /repo's working tree (hooks on via harness/.cargo/config.toml).
set -e
cd "$(dirname "$0")"
export CARGO_NET_OFFLINE=true
python3 -c "import sys; sys.path.insert(0,'lib'); import vcheck; vcheck.coq_makefile()"
(cd coq && timeout 3000 make -j16 >/dev/null 2>coq_build.log || { tail -30 coq_build.log; exit 1; })
(cd harness && timeout 3000 cargo build --offline 2>&1 | tail -3)
echo setup done
